#!/bin/sh
# usage: tools/scratch.sh <patch> [dir]  -> scratch copy of /repo with the patch applied (for debugging the checker)
P=$(realpath "$1"); D=${2:-/tmp/fa_$(basename $(dirname "$P"))}
rm -rf "$D"; mkdir -p "$D"; cp -r /repo/src /repo/Cargo.toml /repo/Cargo.lock /repo/tests /repo/benches "$D"/
(cd "$D" && patch -p1 -s < "$P") && echo "$D"
