//! Type-level witnesses (DESIGN §2.4): facts about what an *external* user of `wow_srp` can
//! and cannot write.  Every block is `compile_fail,E0xxx` (must be rejected by rustc with that
//! error code) or `no_run` (must type-check; never executed).  Each `compile_fail` block has a
//! compiling twin that differs only by the offending line, so a witness cannot "pass" merely
//! because a path is misspelt.  Run with `cargo +nightly test --doc --offline` (the error
//! codes are only enforced on nightly).

/// C02: an authenticated server session cannot be forged with a struct literal.
/// ```compile_fail,E0451
/// use wow_srp::server::SrpServer;
/// fn forge(u: wow_srp::normalized_string::NormalizedString) -> SrpServer {
///     SrpServer { username: u, session_key: todo!(), reconnect_challenge_data: todo!() }
/// }
/// ```
/// twin (the type is nameable, obtaining it through the API type-checks):
/// ```no_run
/// use wow_srp::server::{SrpProof, SrpServer};
/// fn honest(p: SrpProof, a: wow_srp::PublicKey, m1: [u8; 20]) -> Option<SrpServer> {
///     p.into_server(a, m1).ok().map(|(s, _m2)| s)
/// }
/// ```
pub mod c02_forge_server_literal {}

/// C02: no `Default` for the authenticated session objects.
/// ```compile_fail,E0599
/// let _s = wow_srp::server::SrpServer::default();
/// ```
/// ```compile_fail,E0599
/// let _c = wow_srp::client::SrpClient::default();
/// ```
/// twin:
/// ```no_run
/// let _r = wow_srp::client::SrpClientReconnection::default();
/// ```
pub mod c02_no_default {}

/// C02: a proof object is consumed by the verification attempt (no second try on the same B).
/// ```compile_fail,E0382
/// fn twice(p: wow_srp::server::SrpProof, a: wow_srp::PublicKey, a2: wow_srp::PublicKey, m: [u8; 20]) {
///     let _ = p.into_server(a, m);
///     let _ = p.into_server(a2, m);
/// }
/// ```
/// twin:
/// ```no_run
/// fn once(p: wow_srp::server::SrpProof, a: wow_srp::PublicKey, m: [u8; 20]) {
///     let _ = p.into_server(a, m);
/// }
/// ```
pub mod c02_proof_consumed {}

/// C02: the client-side session object cannot be forged either.
/// ```compile_fail,E0451
/// fn forge(u: wow_srp::normalized_string::NormalizedString) -> wow_srp::client::SrpClient {
///     wow_srp::client::SrpClient { username: u, session_key: todo!() }
/// }
/// ```
pub mod c02_forge_client_literal {}

/// C04: a `PublicKey` cannot be built around the validity check.
/// ```compile_fail,E0451
/// let _k = wow_srp::PublicKey { key: [0u8; 32] };
/// ```
/// twin:
/// ```no_run
/// let _k = wow_srp::PublicKey::from_le_bytes([1u8; 32]);
/// ```
pub mod c04_public_key_literal {}

/// C06: header crypto objects are only handed out by the proof check (constructors are private).
/// ```compile_fail,E0624
/// let _c = wow_srp::vanilla_header::HeaderCrypto::new([0u8; 40]);
/// ```
/// ```compile_fail,E0624
/// let _c = wow_srp::tbc_header::HeaderCrypto::new([0u8; 40]);
/// ```
/// ```compile_fail,E0624
/// let _c = wow_srp::wrath_header::ServerCrypto::new([0u8; 40]);
/// ```
/// ```compile_fail,E0624
/// let _c = wow_srp::wrath_header::ClientCrypto::new([0u8; 40]);
/// ```
/// twin:
/// ```no_run
/// fn via_proof(seed: wow_srp::vanilla_header::ProofSeed, u: &wow_srp::normalized_string::NormalizedString) {
///     let _ = seed.into_server_header_crypto(u, [0u8; 40], [0u8; 20], 1);
/// }
/// ```
pub mod c06_crypto_ctor_private {}

/// C06: the halves cannot be forged with a literal from outside the crate.
/// ```compile_fail,E0451
/// let _h = wow_srp::vanilla_header::EncrypterHalf { session_key: [0u8; 40], index: 0, previous_value: 0 };
/// ```
pub mod c06_half_literal {}

/// C12: all crypto objects and halves are `Send` (and own their state).
/// ```no_run
/// fn is_send<T: Send + 'static>() {}
/// is_send::<wow_srp::vanilla_header::HeaderCrypto>();
/// is_send::<wow_srp::vanilla_header::EncrypterHalf>();
/// is_send::<wow_srp::vanilla_header::DecrypterHalf>();
/// is_send::<wow_srp::tbc_header::HeaderCrypto>();
/// is_send::<wow_srp::tbc_header::EncrypterHalf>();
/// is_send::<wow_srp::tbc_header::DecrypterHalf>();
/// is_send::<wow_srp::wrath_header::ClientCrypto>();
/// is_send::<wow_srp::wrath_header::ServerCrypto>();
/// is_send::<wow_srp::wrath_header::ClientEncrypterHalf>();
/// is_send::<wow_srp::wrath_header::ClientDecrypterHalf>();
/// is_send::<wow_srp::wrath_header::ServerEncrypterHalf>();
/// is_send::<wow_srp::wrath_header::ServerDecrypterHalf>();
/// ```
/// the two halves can be moved to different threads:
/// ```no_run
/// fn drive(c: wow_srp::vanilla_header::HeaderCrypto) {
///     let (mut e, mut d) = c.split();
///     let t1 = std::thread::spawn(move || { let mut b = [0u8; 4]; e.encrypt(&mut b); e });
///     let t2 = std::thread::spawn(move || { let mut b = [0u8; 6]; d.decrypt(&mut b); d });
///     let _ = t1.join().unwrap().unsplit(t2.join().unwrap());
/// }
/// ```
/// a half cannot be used after it was given away by `unsplit` (move semantics):
/// ```compile_fail,E0382
/// fn reuse(e: wow_srp::vanilla_header::EncrypterHalf, d: wow_srp::vanilla_header::DecrypterHalf) {
///     let _ = e.unsplit(d);
///     let mut b = [0u8; 4];
///     let mut e2 = e;
///     e2.encrypt(&mut b);
/// }
/// ```
pub mod c12_send_and_moves {}

/// C12: one direction cannot be driven through a shared reference (exclusive access required).
/// ```compile_fail,E0596
/// fn shared(e: &wow_srp::vanilla_header::EncrypterHalf) {
///     let mut b = [0u8; 4];
///     e.encrypt(&mut b);
/// }
/// ```
/// twin:
/// ```no_run
/// fn exclusive(e: &mut wow_srp::vanilla_header::EncrypterHalf) {
///     let mut b = [0u8; 4];
///     e.encrypt(&mut b);
/// }
/// ```
pub mod c12_exclusive_access {}

/// C13: a `NormalizedString` cannot be built around the validating constructor.
/// ```compile_fail,E0451
/// let _s = wow_srp::normalized_string::NormalizedString { s: [0x80u8; 16], length: 16 };
/// ```
/// twin:
/// ```no_run
/// let _s = wow_srp::normalized_string::NormalizedString::new("Alice");
/// ```
pub mod c13_string_literal {}

/// Harness self-test: a block annotated with the WRONG error code must be reported as a
/// failure by this toolchain (otherwise error codes are not enforced and the compile_fail
/// witnesses above prove less than they claim).  tools/witness.py expects exactly this one
/// doc-test to fail.
/// ```compile_fail,E0599
/// let _k = wow_srp::PublicKey { key: [0u8; 32] };
/// ```
pub mod zz_fixture_wrong_code_must_fail {}
