"""Field roles (A3): which field of an account / handshake object holds which protocol value,
derived from the *public constructor's parameter positions* and the flow of those values,
never from private field names."""
from rules import util
from symex import show


def ctor_field_roles(ctx, fn, adt, param_roles, extra=None, engine="api"):
    """analyse constructor `fn`: every aggregate of `adt` built there; returns
    {field index: role} where an operand that is (canonically) parameter j gets
    param_roles[j]; `extra(canon_term)` may name other operands."""
    se = getattr(ctx, engine).run(fn)
    if se is None:
        return None
    roles = {}
    found = False
    aggs = [v for (bb, si), (loc, v) in se.assigns.items() if v[0] == "agg" and v[1] == "adt" and v[2] == adt]
    # aggregates built inside inlined private helpers show up in the result term
    from symex import walk as _walk

    terms = [se.ret] if se.ret is not None else []
    if se.ret is not None and se.ret[0] == "phi":
        terms += list(se.phi_inputs.get((se.ret[2], se.ret[3]), {}).values())
    for t in terms:
        for x in _walk(t):
            if x[0] == "agg" and x[1] == "adt" and x[2] == adt and x not in aggs:
                aggs.append(x)
    for v in aggs:
        found = True
        for i, op in enumerate(v[4]):
            c = util.canon(ctx, se, op)
            r = None
            if c[0] == "param" and c[1] in param_roles:
                r = param_roles[c[1]]
            elif extra:
                r = extra(c)
            if r is not None:
                roles[i] = r
    return roles if found else None


def srp_roles(ctx):
    """returns dict with field->role maps for the SRP typestate structs, or raises KeyError"""
    out = {}
    v = ctor_field_roles(ctx, "server::SrpVerifier::from_database_values", "server::SrpVerifier", {1: "U", 2: "v", 3: "salt"})
    out["SrpVerifier"] = v or {}
    inv = {r: i for i, r in (v or {}).items()}

    def proof_extra(c):
        if c[0] == "field" and c[1] == ("param", 1):
            return (v or {}).get(c[2])
        if c[0] == "try_ok" and util.is_call(c[1], "srp_internal::calculate_server_public_key"):
            a = c[1][2]
            if len(a) == 2 and a[0] == ("field", ("param", 1), inv.get("v")) and a[1] == ("param", 2):
                return "B"
            return "B?"
        return None

    p = ctor_field_roles(ctx, "server::SrpVerifier::with_specific_private_key", "server::SrpProof", {2: "b"}, proof_extra)
    out["SrpProof"] = p or {}
    return out


def inv(m):
    return {r: i for i, r in m.items()}
