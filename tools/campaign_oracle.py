#!/usr/bin/env python3
"""compile + unit-test oracle for the generated mutants: writes /tmp/own/camp/oracle.json {name: 'nocompile'|'testfail'|'survives'}"""
import json, os, subprocess, sys, concurrent.futures, shutil
M=json.load(open('/tmp/own/camp/all.json'))
W=int(sys.argv[1]) if len(sys.argv)>1 else 6
def setup(k):
    d='/tmp/own/camp/w%d'%k
    if not os.path.isdir(d):
        subprocess.run(['git','-C','/repo','worktree','add','--detach',d,'HEAD'],check=True,capture_output=True)
    return d
def run(args):
    k, ms = args
    d=setup(k)
    env=dict(os.environ, CARGO_TARGET_DIR='/tmp/own/camp/t%d'%k, CARGO_NET_OFFLINE='true')
    res={}
    for m in ms:
        subprocess.run(['git','checkout','-q','--','src'],cwd=d)
        f,old,new=m['edits'][0]
        p=os.path.join(d,f); s=open(p).read()
        if s.count(old)!=1:
            res[m['name']]='ambiguous'; continue
        open(p,'w').write(s.replace(old,new,1))
        feat=['--features','matrix-card'] if m.get('features') else []
        try:
            r=subprocess.run(['timeout','-k','5','150','cargo','test','--offline','--lib']+feat,cwd=d,env=env,capture_output=True,text=True,timeout=400)
        except subprocess.TimeoutExpired:
            res[m['name']]='testhang'; continue
        if r.returncode in (124,137):
            res[m['name']]='testhang'
        elif 'error' in r.stderr and 'could not compile' in r.stderr:
            res[m['name']]='nocompile'
        elif r.returncode!=0:
            res[m['name']]='testfail'
        else:
            res[m['name']]='survives'
    subprocess.run(['git','checkout','-q','--','src'],cwd=d)
    json.dump(res,open('/tmp/own/camp/oracle_%d.json'%k,'w'))
    return res
chunks=[(k, M[k::W]) for k in range(W)]
out={}
with concurrent.futures.ThreadPoolExecutor(W) as ex:
    for r in ex.map(run, chunks):
        out.update(r)
json.dump(out,open('/tmp/own/camp/oracle.json','w'),indent=0)
import collections
print(collections.Counter(out.values()))
