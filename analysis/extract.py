"""Run the fact extractor (driver/) over /repo's *current working tree* for a feature
configuration; facts are cached by a content hash of the tree so that the per-property
commands share one extraction, and any edit under /repo forces re-extraction."""
import fcntl
import glob
import hashlib
import json
import os
import shutil
import subprocess
import sys
import time
import uuid

VERIF = os.path.dirname(os.path.dirname(os.path.abspath(__file__)))
REPO = os.environ.get("WOWSRP_REPO", "/repo")
CACHE = os.path.join(VERIF, ".cache")
DRIVER = os.path.join(VERIF, "driver", "target", "debug", "wowsrp-facts")

ALL_FEATURES = ["srp-default-math", "tbc-header", "wrath-header", "integrity", "matrix-card"]
DEFAULT = ["srp-default-math", "tbc-header", "wrath-header", "integrity"]


def tree_hash(repo=None):
    repo = repo or REPO
    h = hashlib.sha256()
    files = [os.path.join(repo, "Cargo.toml"), os.path.join(repo, "Cargo.lock")]
    for root, dirs, fs in os.walk(os.path.join(repo, "src")):
        dirs.sort()
        for f in sorted(fs):
            files.append(os.path.join(root, f))
    for root, dirs, fs in os.walk(os.path.join(repo, "tests")):
        dirs.sort()
        for f in sorted(fs):
            files.append(os.path.join(root, f))
    for f in sorted(files):
        if not os.path.isfile(f):
            continue
        h.update(os.path.relpath(f, repo).encode())
        h.update(b"\0")
        with open(f, "rb") as fh:
            h.update(fh.read())
        h.update(b"\0")
    # the driver binary is part of the key: a rebuilt extractor re-extracts
    try:
        st = os.stat(DRIVER)
        h.update(("%d:%d" % (st.st_size, int(st.st_mtime))).encode())
    except OSError:
        pass
    return h.hexdigest()[:24]


def cfg_key(features, debug_assertions=True):
    return ("+".join(sorted(features)) or "none") + ("" if debug_assertions else "@nodebug")


def sysroot():
    return subprocess.check_output(["rustc", "+nightly", "--print", "sysroot"], text=True).strip()


def ensure_driver():
    if os.path.exists(DRIVER):
        return
    subprocess.check_call(["cargo", "build", "--offline"], cwd=os.path.join(VERIF, "driver"))


def extract(features, debug_assertions=True, repo=None, quiet=True):
    """returns (facts_path, info dict). Raises RuntimeError when the tree does not compile."""
    repo = repo or REPO
    ensure_driver()
    th = tree_hash(repo)
    key = cfg_key(features, debug_assertions)
    outdir = os.path.join(CACHE, "facts", th)
    os.makedirs(outdir, exist_ok=True)
    out = os.path.join(outdir, key + ".json")
    meta = out + ".meta"
    if os.path.exists(out) and os.path.exists(meta):
        return out, json.load(open(meta))
    # one extraction at a time per slot (cargo locks the target dir anyway)
    slot = os.environ.get("WOWSRP_SLOT", "0")
    tdir = os.path.join(CACHE, "target" + slot)
    os.makedirs(tdir, exist_ok=True)
    with open(os.path.join(CACHE, "lock" + slot), "w") as lk:
        fcntl.flock(lk, fcntl.LOCK_EX)
        if os.path.exists(out) and os.path.exists(meta):
            return out, json.load(open(meta))
        # cargo would skip the wrapper on a fresh fingerprint: remove the member's fingerprints
        for prof in glob.glob(os.path.join(tdir, "*", ".fingerprint", "wow_srp-*")):
            shutil.rmtree(prof, ignore_errors=True)
        nonce = uuid.uuid4().hex
        tmp = out + ".tmp." + nonce
        env = dict(os.environ)
        env.update(
            {
                "RUSTC_ICE": "0",
                "CARGO_NET_OFFLINE": "true",
                "LD_LIBRARY_PATH": os.path.join(sysroot(), "lib") + ":" + env.get("LD_LIBRARY_PATH", ""),
                "RUSTFLAGS": "-Zmir-opt-level=0 -Awarnings -Coverflow-checks=on"
                + ("" if debug_assertions else " -Cdebug-assertions=off"),
                "RUSTC_WORKSPACE_WRAPPER": DRIVER,
                "WOWSRP_FACTS_OUT": tmp,
                "WOWSRP_FACTS_NONCE": nonce,
                "CARGO_TARGET_DIR": tdir,
            }
        )
        env.pop("RUSTC_WRAPPER", None)
        cmd = ["cargo", "+nightly", "check", "--offline", "--lib", "--no-default-features"]
        if features:
            cmd += ["--features", ",".join(features)]
        t0 = time.time()
        p = subprocess.run(cmd, cwd=repo, env=env, stdout=subprocess.PIPE, stderr=subprocess.STDOUT, text=True)
        dt = time.time() - t0
        if p.returncode != 0 or not os.path.exists(tmp):
            if os.path.exists(tmp):
                os.remove(tmp)
            raise RuntimeError("extraction failed for features=%s:\n%s" % (features, p.stdout[-4000:]))
        with open(tmp) as f:
            d = json.load(f)
        if d.get("nonce") != nonce:
            os.remove(tmp)
            raise RuntimeError("stale fact file (nonce mismatch)")
        info = {
            "features": sorted(features),
            "debug_assertions": debug_assertions,
            "tree_hash": th,
            "bodies": len(d["bodies"]),
            "blocks": sum(len(b["body"]["blocks"]) for b in d["bodies"]),
            "adts": len(d["adts"]),
            "extract_s": round(dt, 2),
        }
        os.replace(tmp, out)
        with open(meta, "w") as f:
            json.dump(info, f)
        return out, info


def prune_cache(keep=80, min_age_s=3600):
    """drop old fact directories (disk is limited); never touch anything younger than an hour,
    other checks may be reading it concurrently"""
    d = os.path.join(CACHE, "facts")
    if not os.path.isdir(d):
        return
    now = time.time()
    ents = []
    for e in os.listdir(d):
        try:
            ents.append((os.path.getmtime(os.path.join(d, e)), e))
        except OSError:
            pass        # removed by a concurrent run
    ents.sort()
    for mt, e in ents[:-keep] if len(ents) > keep else []:
        if now - mt > min_age_s:
            shutil.rmtree(os.path.join(d, e), ignore_errors=True)
    for mt, e in ents:
        if now - mt > 24 * 3600:
            shutil.rmtree(os.path.join(d, e), ignore_errors=True)


def powerset_configs():
    out = []
    n = len(ALL_FEATURES)
    for m in range(1 << n):
        out.append([ALL_FEATURES[i] for i in range(n) if m >> i & 1])
    return out


if __name__ == "__main__":
    feats = sys.argv[1].split(",") if len(sys.argv) > 1 and sys.argv[1] else DEFAULT + ["matrix-card"]
    p, info = extract(feats)
    print(p, info)
