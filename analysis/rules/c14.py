"""C14 - peer-controlled bytes can never crash the server or the client.

Decides: in the crate-local call-graph closure of every publicly reachable function of the
peer-facing modules (server, client, key::PublicKey, the three header modules, normalized
strings) every MIR `Assert` (bounds, overflow, division/remainder by zero) and every call that
can panic (range indexing, clone/copy_from_slice, swap, step_by, unwrap/expect, big-integer
modpow / %) is an obligation.  Each is discharged by constant folding, interval reasoning with
dominating guards, iterator-length summaries, struct-field / parameter invariants (A7), the
Reduced32 typestate at the fixed-width copy sites (A8), or an entry of the justified table
below (reason + mechanically re-checked premise); calls outside the modelled/allow-listed set
are reported as UNDECIDED.  The two documented panics (invalid self-generated public key) are
excluded by the property."""
import cfg
import ranges
from ranges import INF, TYPE_RANGE
from rules import util, c03
from rules.util import strip, canon
from symex import show, walk, place_ty

EXPLANATION = __doc__
TRUSTED = ["rustc / extractor", "documented panic conditions of std / num-bigint / hmac / sha1 / rand APIs (allow-list in rules/c14.py)", "HMAC accepts keys of any length (Hmac::new_from_slice never fails)", "allocation failure and OS RNG failure are out of scope"]
NOT_DECIDED = ["panics inside dependencies other than their documented preconditions", "srp-fast-math (rug) preconditions: configuration cannot be built here"]
# floors guard against vacuity (anchors lost), not against legitimate refactorings that remove sites
FULL_FLOORS = {"entry-points": 1, "bounds": 60, "overflow": 4, "div-by-zero": 3, "range-index": 4, "copy-len": 1, "reduced32": 4, "unwrap": 4, "bigint-precondition": 3, "swap": 1}
DEFAULT_FEATURES = {"srp-default-math", "tbc-header", "wrath-header", "integrity"}


def floors_for(feats):
    """the instance counts confirmed by reading are those of the default feature set; reduced
    configurations (thorough tier) contain fewer functions: the core SRP obligations remain"""
    if DEFAULT_FEATURES <= set(feats):
        return FULL_FLOORS
    return {"entry-points": 1, "bounds": 20, "overflow": 2, "div-by-zero": 2, "range-index": 3, "copy-len": 1, "reduced32": 4, "bigint-precondition": 3}

PEER_MODULES = ("server", "client", "vanilla_header", "tbc_header", "wrath_header", "normalized_string")

# calls that do not panic for any argument (documented), by resolved name or prefix
NO_PANIC_EXACT = {
    "<D as digest::Digest>::chain_update", "<D as digest::Digest>::digest", "<D as digest::Digest>::finalize", "<D as digest::Digest>::new", "<D as digest::Digest>::update", "digest::FixedOutput::finalize_fixed",
    "<T as digest::Mac>::finalize", "<T as digest::Mac>::update", "<T as digest::Mac>::new_from_slice", "<T as digest::Mac>::chain_update",
    "<T as std::convert::Into<U>>::into", "<T as std::convert::TryInto<U>>::try_into", "std::convert::Into::into", "std::convert::AsRef::as_ref",
    "<num_bigint::BigInt as std::cmp::PartialEq>::eq", "num_bigint::BigInt::from_bytes_le", "num_bigint::BigInt::to_bytes_le", "num_bigint::BigInt::magnitude", "num_bigint::BigUint::to_bytes_le", "num_bigint::BigUint::from_bytes_le", "num_bigint::bigint::convert::<impl std::convert::From<num_bigint::BigUint> for num_bigint::BigInt>::from", "std::io::Read::by_ref", "std::io::Write::by_ref", "num_bigint::BigInt::sign", "<num_bigint::Sign as std::cmp::PartialEq>::eq", "<num_bigint::Sign as std::cmp::PartialEq>::ne", "num_bigint::BigInt::bits", "num_bigint::BigInt::is_zero", "<num_bigint::BigInt as num_traits::Zero>::is_zero",
    "<rand::prelude::ThreadRng as rand::RngCore>::fill_bytes", "<rand::prelude::ThreadRng as rand::RngCore>::next_u32", "<rand::prelude::ThreadRng as rand::RngCore>::next_u64", "rand::thread_rng", "rand::random", "rand::Rng::fill", "rand::Rng::gen",
    "<std::result::Result<T, E> as std::ops::Try>::branch",
    "<std::result::Result<T, F> as std::ops::FromResidual<std::result::Result<std::convert::Infallible, E>>>::from_residual",
    "<I as std::iter::IntoIterator>::into_iter", "core::slice::iter::<impl std::iter::IntoIterator for &'a mut [T]>::into_iter", "core::slice::iter::<impl std::iter::IntoIterator for &'a [T]>::into_iter",
    "std::iter::Iterator::take_while", "std::iter::Iterator::count", "std::iter::Iterator::map", "std::iter::Iterator::filter", "std::iter::Iterator::rev", "std::iter::Iterator::take", "std::iter::Iterator::chain", "std::iter::Iterator::all", "std::iter::Iterator::any", "std::iter::Iterator::position", "std::iter::Iterator::collect", "std::iter::Iterator::copied", "std::iter::Iterator::cloned", "std::iter::Iterator::fold", "std::iter::Iterator::last", "std::iter::Iterator::nth", "std::iter::Iterator::find", "std::iter::Iterator::by_ref",
    "core::slice::<impl [T]>::first", "core::slice::<impl [T]>::last", "core::slice::<impl [T]>::get", "core::slice::<impl [T]>::get_mut", "core::slice::<impl [T]>::split_first", "core::slice::<impl [T]>::split_first_mut", "core::slice::<impl [T]>::split_last", "core::slice::<impl [T]>::split_last_mut", "core::slice::<impl [T]>::starts_with", "core::slice::<impl [T]>::ends_with", "core::slice::<impl [T]>::contains", "core::slice::<impl [T]>::reverse", "core::slice::<impl [T]>::fill", "core::slice::<impl [T]>::to_vec", "core::slice::<impl [T]>::as_ptr",
    "std::option::Option::<T>::map", "std::option::Option::<T>::map_or", "std::option::Option::<T>::is_some", "std::option::Option::<T>::is_none", "std::option::Option::<T>::unwrap_or", "std::option::Option::<T>::unwrap_or_default", "std::option::Option::<T>::ok_or", "std::result::Result::<T, E>::map", "std::result::Result::<T, E>::map_err", "std::result::Result::<T, E>::is_ok", "std::result::Result::<T, E>::is_err", "std::result::Result::<T, E>::ok", "std::result::Result::<T, E>::and_then",
    "std::iter::Iterator::enumerate", "std::iter::Iterator::zip", "std::iter::Iterator::skip", "std::iter::Iterator::cycle", "std::iter::Iterator::for_each", "std::iter::Iterator::next",
    "core::slice::<impl [T]>::iter", "core::slice::<impl [T]>::iter_mut", "core::slice::<impl [T]>::len", "core::slice::<impl [T]>::is_empty",
    "core::str::<impl str>::chars", "core::str::<impl str>::is_empty", "core::str::<impl str>::len", "core::str::<impl str>::as_bytes", "core::str::<impl str>::bytes", "core::str::<impl str>::char_indices", "core::str::<impl str>::is_ascii", "core::slice::<impl [u8]>::is_ascii", "core::slice::<impl [u8]>::make_ascii_uppercase", "core::slice::ascii::<impl [u8]>::make_ascii_uppercase", "core::slice::ascii::<impl [u8]>::make_ascii_lowercase", "core::slice::ascii::<impl [u8]>::is_ascii", "core::slice::ascii::<impl [u8]>::eq_ignore_ascii_case", "core::slice::<impl [u8]>::to_ascii_uppercase", "core::slice::<impl [u8]>::eq_ignore_ascii_case", "core::str::<impl str>::to_ascii_uppercase", "core::str::<impl str>::make_ascii_uppercase", "core::num::<impl u8>::to_ascii_uppercase", "core::num::<impl u8>::is_ascii", "core::num::<impl u8>::is_ascii_control", "std::str::from_utf8", "core::str::from_utf8",
    "digest::CtOutput::<T>::into_bytes", "digest::generic_array::GenericArray::<T, N>::as_slice",
    "std::array::<impl [T; N]>::as_slice", "std::array::<impl [T; N]>::as_mut_slice",
    "std::array::<impl std::convert::AsMut<[T]> for [T; N]>::as_mut", "core::array::<impl std::convert::AsMut<[T]> for [T; N]>::as_mut",
    "std::string::String::as_str", "std::string::String::as_bytes", "<std::string::String as std::ops::Deref>::deref", "<std::string::String as std::convert::AsRef<str>>::as_ref",
    "std::slice::from_mut", "core::slice::from_mut", "std::slice::from_ref", "core::slice::from_ref",
    "std::iter::from_fn", "core::iter::from_fn", "std::iter::Iterator::take", "<std::iter::Take<I> as std::iter::Iterator>::for_each", "std::mem::drop", "core::mem::drop",
    "std::array::equality::<impl std::cmp::PartialEq<[U; N]> for [T; N]>::eq", "std::array::equality::<impl std::cmp::PartialEq<[U; N]> for [T; N]>::ne",
    "std::cmp::PartialEq::ne", "std::cmp::PartialEq::eq",
    "std::cmp::impls::<impl std::cmp::PartialEq<&B> for &A>::eq", "std::cmp::impls::<impl std::cmp::PartialEq<&B> for &A>::ne",
    "std::fmt::Formatter::<'a>::write_str", "std::io::Read::read_exact", "std::io::Write::write_all",
    "std::slice::<impl [T]>::to_vec", "std::vec::Vec::<T, A>::len",
    # growth panics only on capacity overflow (> isize::MAX bytes), unreachable before allocation failure (out of scope)
    "core::bool::<impl bool>::then", "core::bool::<impl bool>::then_some", "std::option::Option::<T>::ok_or_else", "std::option::Option::<T>::unwrap_or_else", "std::option::Option::<T>::map_or_else", "std::option::Option::<T>::and_then", "std::option::Option::<T>::filter", "std::option::Option::<T>::copied", "std::result::Result::<T, E>::map_or", "std::result::Result::<T, E>::unwrap_or", "std::result::Result::<T, E>::unwrap_or_else", "std::result::Result::<T, E>::or_else",
    "std::convert::num::ptr_try_from_impls::<impl std::convert::TryFrom<usize> for u8>::try_from", "std::convert::num::ptr_try_from_impls::<impl std::convert::TryFrom<usize> for u16>::try_from", "std::convert::num::ptr_try_from_impls::<impl std::convert::TryFrom<usize> for u32>::try_from", "std::convert::TryFrom::try_from",
    "std::ops::RangeInclusive::<Idx>::new", "std::ops::RangeInclusive::<Idx>::contains", "std::ops::Range::<Idx>::contains", "std::ops::RangeInclusive::<Idx>::start", "std::ops::RangeInclusive::<Idx>::end", "std::mem::replace", "core::mem::replace", "std::mem::take", "core::mem::take", "std::mem::swap", "core::mem::swap", "std::array::from_fn", "core::array::from_fn", "std::iter::ExactSizeIterator::len", "std::mem::size_of", "core::mem::size_of", "std::vec::Vec::<T>::new", "std::vec::Vec::<T, A>::extend_from_slice", "std::vec::Vec::<T, A>::push", "std::vec::Vec::<T, A>::as_slice", "std::vec::Vec::<T, A>::is_empty",
    "<digest::generic_array::GenericArray<T, N> as std::ops::Deref>::deref", "<std::vec::Vec<T, A> as std::ops::Deref>::deref", "<std::vec::Vec<T, A> as std::ops::DerefMut>::deref_mut",
    "std::clone::Clone::clone", "std::default::Default::default",
    # comparison / hashing / formatting plumbing of hand-written trait impls: total functions
    "std::cmp::Ordering::then_with", "std::cmp::Ordering::then", "std::cmp::Ordering::reverse", "std::cmp::Ordering::is_eq", "std::cmp::Ordering::is_ne", "std::cmp::Ordering::is_lt", "std::cmp::Ordering::is_gt", "std::cmp::Ordering::is_le", "std::cmp::Ordering::is_ge",
    "std::array::<impl std::cmp::Ord for [T; N]>::cmp", "std::array::<impl std::cmp::PartialOrd for [T; N]>::partial_cmp", "std::cmp::Ord::cmp", "std::cmp::PartialOrd::partial_cmp",
    "core::slice::cmp::<impl std::cmp::Ord for [T]>::cmp", "core::slice::cmp::<impl std::cmp::PartialOrd for [T]>::partial_cmp", "core::slice::cmp::<impl std::cmp::PartialEq<[U]> for [T]>::eq", "core::slice::cmp::<impl std::cmp::PartialEq<[U]> for [T]>::ne",
    "std::array::<impl std::hash::Hash for [T; N]>::hash", "std::hash::Hash::hash", "std::hash::Hasher::write", "std::hash::Hasher::write_u8", "std::hash::Hasher::write_usize",
    "std::fmt::Formatter::<'a>::debug_struct", "std::fmt::DebugStruct::<'a, 'b>::field", "std::fmt::DebugStruct::<'a, 'b>::finish", "std::fmt::DebugStruct::<'a, 'b>::finish_non_exhaustive",
    "std::fmt::Formatter::<'a>::debug_tuple", "std::fmt::DebugTuple::<'a, 'b>::field", "std::fmt::DebugTuple::<'a, 'b>::finish", "std::fmt::Formatter::<'a>::debug_list", "std::fmt::DebugList::<'a, 'b>::entries", "std::fmt::DebugList::<'a, 'b>::entry", "std::fmt::DebugList::<'a, 'b>::finish",
    "std::fmt::Formatter::<'a>::write_fmt", "std::fmt::Formatter::<'a>::alternate", "std::fmt::Debug::fmt", "std::fmt::Display::fmt",
    "<D as digest::Digest>::new_with_prefix", "<T as digest::Mac>::new", "<D as digest::Digest>::finalize_reset", "digest::FixedOutputReset::finalize_fixed_reset", "<D as digest::Digest>::reset",
    "core::slice::<impl [[T; N]]>::as_flattened", "core::slice::<impl [[T; N]]>::as_flattened_mut", "std::array::<impl [T; N]>::map", "std::array::<impl [T; N]>::each_ref", "std::array::<impl [T; N]>::each_mut",
    "std::iter::Iterator::try_for_each", "std::iter::Iterator::try_fold", "std::iter::Iterator::scan", "std::iter::Iterator::inspect", "std::iter::Iterator::peekable", "std::iter::Iterator::min", "std::iter::Iterator::max", "std::iter::Iterator::eq", "std::iter::Iterator::ne", "std::iter::Iterator::rposition", "std::iter::Iterator::flatten", "std::iter::Iterator::flat_map", "std::iter::Iterator::filter_map", "std::iter::Iterator::find_map", "std::iter::Iterator::skip_while", "std::iter::Iterator::map_while", "std::iter::Iterator::fuse",
    "std::char::convert::<impl std::convert::TryFrom<char> for u8>::try_from", "std::char::convert::<impl std::convert::From<u8> for char>::from", "std::char::convert::<impl std::convert::From<char> for u32>::from",
    "std::option::Option::<T>::transpose", "std::option::Option::<T>::zip", "std::option::Option::<T>::or", "std::option::Option::<T>::or_else", "std::option::Option::<T>::xor", "std::option::Option::<T>::take", "std::option::Option::<T>::is_some_and", "std::option::Option::<T>::is_none_or", "std::option::Option::<T>::as_ref", "std::option::Option::<T>::as_mut", "std::option::Option::<&T>::copied", "std::option::Option::<&T>::cloned",
    "std::result::Result::<T, E>::is_ok_and", "std::result::Result::<T, E>::is_err_and", "std::result::Result::<T, E>::err", "std::result::Result::<T, E>::as_ref", "std::result::Result::<T, E>::unwrap_or_default", "std::result::Result::<T, E>::map_or_else",
    "std::cmp::min", "std::cmp::max", "std::cmp::Ord::min", "std::cmp::Ord::max",
}
NO_PANIC_PREFIX = (
    "<&u8 as std::ops::BitXor", "<u8 as std::ops::BitXor", "<&u8 as std::ops::BitAnd", "<u8 as std::ops::BitAnd", "<&u8 as std::ops::BitOr", "<u8 as std::ops::BitOr", "<std::iter::Zip<", "<std::slice::ChunksExact<",
    "std::convert::num::<impl std::convert::From<", "core::convert::num::<impl std::convert::From<", "<std::iter::Map<", "<std::iter::TakeWhile<", "<std::iter::Rev<", "<std::iter::Take<", "<std::iter::Chain<", "<std::iter::Copied<", "<std::iter::Cloned<", "<std::slice::ChunksExact<", "<std::ops::Range<", "std::iter::range::<impl std::iter::Iterator for std::ops::Range<",
    "std::convert::num::ptr_try_from_impls::", "std::convert::num::<impl std::convert::TryFrom<", "core::convert::num::<impl std::convert::TryFrom<", "core::num::<impl u", "core::num::<impl i", "std::char::methods::<impl char>::", "<std::slice::Iter", "<std::slice::IterMut", "<std::iter::Enumerate<", "<std::iter::Zip<", "<std::iter::StepBy<", "<std::iter::Skip<",
    "num_bigint::bigint::addition::", "num_bigint::bigint::subtraction::", "num_bigint::bigint::multiplication::", "num_bigint::bigint::convert::",
    "std::cmp::impls::<impl std::cmp::Ord for ", "std::cmp::impls::<impl std::cmp::PartialOrd for ", "std::cmp::impls::<impl std::cmp::PartialEq for ", "std::hash::impls::<impl std::hash::Hash for ",
)
# methods of the prefix-allowed impls (integers, char, iterator adaptors) that DO have a documented
# panic condition: never covered by a prefix
PANICKING_METHODS = {
    "pow", "div_euclid", "rem_euclid", "ilog", "ilog2", "ilog10", "next_power_of_two", "next_multiple_of", "div_ceil", "isqrt",
    "from_str_radix", "abs", "strict_add", "strict_sub", "strict_mul", "strict_div", "strict_rem", "strict_neg", "strict_shl", "strict_shr", "strict_pow",
    "unchecked_add", "unchecked_sub", "unchecked_mul", "unchecked_shl", "unchecked_shr", "to_digit", "from_digit", "encode_utf8", "encode_utf16",
    "step_by", "sum", "product", "unwrap", "expect", "nth_back", "advance_by", "array_chunks", "windows", "chunks", "chunks_exact", "rchunks", "copy_from_slice", "clone_from_slice", "swap", "split_at", "split_at_mut", "rotate_left", "rotate_right", "copy_within", "select_nth_unstable",
}
DOCUMENTED_PANICS = {
    ("server::SrpVerifier::into_proof", "expect"): "documented: invalid self-generated public key (astronomically unlikely)",
    ("client::SrpClientChallenge::new", "expect"): "documented: invalid self-generated client public key",
}
COPY_SITES = ["bigint::Integer::to_padded_32_byte_array_le", "key::PublicKey::try_from_bigint", "key::PublicKey::client_try_from_bigint"]


def applicable(feats):
    return "srp-default-math" in feats


def entry_points(ctx):
    out = []
    for p, b in ctx.fb.bodies.items():
        if b.kind not in ("Fn", "AssocFn") or b.derived():
            continue
        if not (b.reachable() and b.is_pub() or "impl_trait" in b.d and b.d.get("impl_self_ty") is not None):
            continue
        mod = p.lstrip("<").split("::")[0]
        if mod in PEER_MODULES or p.startswith("key::PublicKey::") or p.startswith("<normalized_string::NormalizedString as"):
            if b.reachable() and b.is_pub() or p.startswith("<normalized_string::NormalizedString as"):
                out.append(p)
    return sorted(out)


def closure(ctx, roots):
    fb = ctx.fb
    seen = set()
    work = list(roots)
    while work:
        p = work.pop()
        if p in seen or p not in fb.bodies:
            continue
        seen.add(p)
        b = fb.bodies[p]
        for c in fb.closures_of(p) + fb.promoteds_of(p):
            work.append(c.path)
        for _, t in b.calls():
            r = t.get("resolved")
            if r == "<T as std::convert::Into<U>>::into":
                ra = [fb.ty(a["ty"]).s for a in t.get("resolved_args", []) if "ty" in a]
                if len(ra) == 2:
                    work.append("<%s as std::convert::From<%s>>::from" % (ra[1], ra[0]))
            if r and (t.get("resolved_local") or r in fb.bodies):
                work.append(r)
            elif t.get("callee") in fb.bodies:
                work.append(t["callee"])
    return seen


def operand_int_type(se, o):
    ty = se.operand_ty(o)
    return ty.s if ty is not None else None


def totality(ctx, rep, rule, root_pred, what):
    """Re-file this module's obligations for everything reachable from the entry points selected
    by root_pred under `rule` of another property: "for every input the value is F(input)" has
    "a value comes out for every input" as a necessary condition - a new panic path on some
    inputs (an assertion, an index, an unwrap) breaks the functional property for those inputs."""
    roots = [r for r in entry_points(ctx) if root_pred(r)]
    rep.check(bool(roots), rule, "crate", "entry-points", "%d entry points of %s" % (len(roots), what), "no entry point of %s found: anchor lost" % what)
    if roots:
        clo = closure(ctx, roots)
        check(ctx, util.Refile(rep, rule, None, lambda fn: fn in clo), roots=roots)


def check(ctx, rep, roots=None):
    fb = ctx.fb
    world = ranges.World(ctx)
    if roots is None:
        roots = entry_points(ctx)
        need = 90 if DEFAULT_FEATURES <= ctx.features else 40
        rep.check(len(roots) >= need, "entry-points", "crate", "enumerated", "%d publicly reachable functions of the peer-facing modules are entry points" % len(roots), "only %d entry points found (expected >= %d): anchor lost" % (len(roots), need))
    clo = closure(ctx, roots)
    rep.stats["closure"] = len(clo)
    r32_sinks = set(COPY_SITES) | {p for p in fb.bodies if p.endswith("as std::convert::From<bigint::Integer>>::from") and p.startswith("<key::")}
    # any other function that IS a fixed-width zero-padding copy of its big-integer parameter
    # (e.g. a shared helper the sites above delegate to) is a sink as well
    from rules import c01 as _c01
    r32_sinks |= {p for p in fb.bodies if _c01.padder_width(ctx, p) is not None}
    for p in sorted(clo):
        b = fb.bodies[p]
        if b.derived() or b.kind == "Promoted":
            continue
        pr = world.prover(p)
        if pr is None:
            rep.undecided("bounds", p, "body", "no symbolic model for this body")
            continue
        se = pr.se
        n_site = {}
        for bi in b.normal_blocks():
            t = b.blocks[bi]["term"]
            info = se.term_info.get(bi)
            if info is None:
                continue
            if t["k"] == "assert":
                kind = t["msg"]
                seq = n_site.get(kind, 0)
                n_site[kind] = seq + 1
                ops = info["msg_ops"]
                if kind == "BoundsCheck":
                    ln, ix = ops
                    role = "%s#%d" % (role_of(ix), seq)
                    ok, why = pr.prove_lt(ix, ln, bi)
                    rep.check(ok, "bounds", p, role, why, "index may be out of bounds: %s" % why, b.loc(bi))
                elif kind.startswith("Overflow:"):
                    op = kind.split(":")[1]
                    ty = operand_int_type(se, t["msg_ops"][0])
                    tr = TYPE_RANGE.get(ty)
                    role = "%s-%s#%d" % (op, role_of(ops[0]), seq)
                    if tr is None:
                        rep.undecided("overflow", p, role, "overflow check on type %s" % ty, b.loc(bi))
                        continue
                    ra, rb = pr.rng(ops[0], bi), pr.rng(ops[1], bi)
                    if op in ("Shl", "Shr"):
                        # the check is on the shift amount only: it must be below the bit width
                        bits = int(tr[1]).bit_length() + (1 if tr[0] < 0 else 0)
                        ok = rb[0] >= 0 and rb[1] < bits
                        rep.check(ok, "overflow", p, role, "shift amount in [%s,%s] < %d bits of %s" % (rb[0], rb[1], bits, ty), "shift overflow possible: amount in [%s,%s] is not provably below the %d bits of %s" % (rb[0], rb[1], bits, ty), b.loc(bi))
                        continue
                    if op == "Add":
                        hi, lo = ra[1] + rb[1], ra[0] + rb[0]
                    elif op == "Mul":
                        hi, lo = ra[1] * rb[1] if INF not in (ra[1], rb[1]) else INF, ra[0] * rb[0]
                    elif op == "Sub":
                        hi, lo = ra[1] - rb[0], ra[0] - rb[1]
                    else:
                        hi, lo = INF, -INF
                    ok = lo >= tr[0] and hi <= tr[1]
                    rep.check(ok, "overflow", p, role, "%s of [%s,%s] and [%s,%s] fits %s" % (op, ra[0], ra[1], rb[0], rb[1], ty), "arithmetic overflow possible: %s of [%s,%s] and [%s,%s] does not provably fit %s" % (op, ra[0], ra[1], rb[0], rb[1], ty), b.loc(bi))
                elif kind in ("RemainderByZero", "DivisionByZero"):
                    c = util.numnorm(info["cond"])
                    role = "%s#%d" % (kind, seq)
                    d = c[2] if c[0] == "binop" and c[1] == "Eq" else None
                    if c[0] == "int" and len(c) > 2 and c[2] == "bool":
                        # the zero test of a literal divisor, already evaluated
                        rep.check(c[1] == 0, "div-by-zero", p, role, "divisor is a non-zero literal", "division / remainder by a literal zero", b.loc(bi))
                    elif d is None:
                        rep.undecided("div-by-zero", p, role, "unrecognised zero test", b.loc(bi))
                    else:
                        other = c[3] if c[3][0] != "int" or c[3][1] != 0 else c[2]
                        dd = c[2] if c[3][:2] == ("int", 0) else c[3]
                        ok, why = pr.prove_nonzero(dd, bi)
                        rep.check(ok, "div-by-zero", p, role, "divisor " + why, "division / remainder by zero possible: " + why, b.loc(bi))
                else:
                    rep.undecided("bounds", p, "%s#%d" % (kind, seq), "unmodelled assertion kind %s" % kind, b.loc(bi))
            elif t["k"] == "call":
                call_obligation(ctx, rep, world, pr, p, b, bi, t, info, n_site, r32_sinks)
    reduced32(ctx, rep, r32_sinks, clo)


def role_of(t):
    t = util.numnorm(t)
    s = show(t, maxdepth=2)
    # stable, line-free description of the operand
    import re

    s = re.sub(r"bb\d+", "bb", s)
    return s[:60]


def call_obligation(ctx, rep, world, pr, p, b, bi, t, info, n_site, r32_sinks):
    fb = ctx.fb
    se = pr.se
    name = info["name"]
    if info.get("inlined") and name in fb.bodies:
        return  # obligations of the callee are checked in the callee's own body
    if name in fb.bodies:
        return
    if name == "wrath_header::inner_crypto::InnerCrypto::apply" and "rc4::Rc4::apply_keystream" in fb.bodies:
        return  # the term engine's name for Rc4::apply_keystream on the stream wrapper's cipher (a crate function, checked in its own body)
    short = name.split("::")[-1]
    seq = n_site.get(name, 0)
    n_site[name] = seq + 1
    args = info["args"]
    if short in ("index", "index_mut") and info.get("const_range"):
        lo_, hi_, n_ = info["const_range"]
        rep.ok("range-index", p, "%s#%d" % (short, seq), "constant range %d..%d within [u8; %d]" % (lo_, hi_, n_), b.loc(bi))
        return
    # ---- `s[i..]` on the text being validated, at the position of the byte just refused: C13's
    # byte-traversal rules decide that i is the position of an existing byte and that every
    # byte before it was accepted ASCII (so i is a character boundary)
    if short == "index" and name.endswith("for str>::index") and p == "normalized_string::NormalizedString::new::inner" and len(args) == 2 and strip(args[0]) == ("param", 1):
        rg = strip(args[1])
        if rg[0] == "agg" and rg[2] == "std::ops::RangeFrom":
            from framework import Report
            from rules import c13
            r13 = Report("C13", ctx.cfg)
            c13.check(ctx, r13)
            bad13 = [o for o in r13.obs if o.status != "ok" and o.rule in ("char-set", "first-offender", "length-gate", "normal-form")]
            bytes_mode = any(o.rule == "first-offender" and "byte" in (o.detail or "") for o in r13.obs if o.status == "ok") or any("s[i..]" in (getattr(o, "detail", "") or "") for o in r13.obs)
            rep.check(not bad13 and bytes_mode, "range-index", p, "%s#%d" % (short, seq), "s[i..] at the refused byte: a character boundary inside the text (C13 byte-traversal rules hold)", "str slice start is not provably a character boundary within the text: %s" % (bad13[0].key if bad13 else "not the byte-traversal form"), b.loc(bi))
            return
    # ---- range indexing
    if short in ("index", "index_mut") and len(args) == 2:
        rng = strip(args[1])
        base = args[0]
        if "locargs" in info and info["locargs"][0][0] == "ref":
            base = se.call_old.get((info["site"], 0)) or se.read(se.in_state.get(bi, {}), info["locargs"][0][1])
        role = "%s#%d" % (short, seq)
        if rng[0] == "agg" and rng[2] and rng[2].startswith("std::ops::Range"):
            kind = rng[2].split("::")[-1]
            ln = pr.len_range(base, bi)
            if p in r32_sinks:
                # the copy range [0, len(v)) of a fixed-width copy site: discharged by Reduced32
                rep.ok("range-index", p, role, "array[0..len(v)] with len(v) <= width by the Reduced32 precondition on every caller (rule reduced32)", b.loc(bi))
                return
            if kind == "RangeFull":
                rep.ok("range-index", p, role, "[..] cannot fail", b.loc(bi))
            elif kind == "RangeFrom":
                s = pr.rng(rng[4][0], bi)
                ok = s[1] <= ln[0]
                rep.check(ok, "range-index", p, role, "start in [%s,%s] <= len >= %s" % (s[0], s[1], ln[0]), "slice start may exceed the length: start in [%s,%s], length in [%s,%s]" % (s[0], s[1], ln[0], ln[1]), b.loc(bi))
            elif kind == "RangeTo":
                e = pr.rng(rng[4][0], bi)
                ok = e[1] <= ln[0]
                if not ok:
                    # relational: end is an expression of the length of another slice
                    ok = False
                rep.check(ok, "range-index", p, role, "end in [%s,%s] <= len %s" % (e[0], e[1], ln[0]), "slice end may exceed the length: end in [%s,%s], length in [%s,%s]" % (e[0], e[1], ln[0], ln[1]), b.loc(bi))
            elif kind == "Range":
                s, e = pr.rng(rng[4][0], bi), pr.rng(rng[4][1], bi)
                ok = s[1] <= e[0] and e[1] <= ln[0]
                rep.check(ok, "range-index", p, role, "[%s..%s] within len %s" % (s[1], e[1], ln[0]), "range may be invalid: start [%s,%s], end [%s,%s], length [%s,%s]" % (s[0], s[1], e[0], e[1], ln[0], ln[1]), b.loc(bi))
            else:
                rep.undecided("range-index", p, role, "unmodelled range kind %s" % kind, b.loc(bi))
        else:
            # Vec<u8>[usize] style indexing through Index::index
            ix = args[1]
            ln = pr.len_range(base, bi)
            r = pr.rng(ix, bi)
            ok = r[1] < ln[0]
            rep.check(ok, "range-index", p, role, "index [%s,%s] < len %s" % (r[0], r[1], ln[0]), "index may be out of bounds: [%s,%s] vs length [%s,%s]" % (r[0], r[1], ln[0], ln[1]), b.loc(bi))
        return
    if short in ("clone_from_slice", "copy_from_slice") and info.get("const_copy"):
        n_, srcv = info["const_copy"]
        ln = pr.len_range(srcv, bi)
        rep.check(ln == (n_, n_), "copy-len", p, "%s#%d" % (short, seq), "constant %d-byte destination range, source of length %s" % (n_, ln[0]), "copy_from_slice: destination has %d bytes, source length in [%s,%s]" % (n_, ln[0], ln[1]), b.loc(bi))
        return
    if short in ("split_at", "split_at_mut") and info.get("const_split"):
        k_, n_ = info["const_split"]
        rep.ok("range-index", p, "%s#%d" % (short, seq), "constant split point %d within %d bytes" % (k_, n_), b.loc(bi))
        return
    if short in ("split_at", "split_at_mut") and "slice" in name and len(args) == 2 and p in r32_sinks and util.numnorm(args[1])[0] == "len":
        # array.split_at_mut(len(v)) of a fixed-width copy site: like array[0..len(v)]
        rep.ok("range-index", p, "%s#%d" % (short, seq), "array.split_at_mut(len(v)) with len(v) <= width by the Reduced32 precondition on every caller (rule reduced32)", b.loc(bi))
        return
    if short in ("split_at", "split_at_mut") and "slice" in name and len(args) == 2:
        base = se.call_old.get((info["site"], 0)) if strip(args[0])[0] == "mutref" else args[0]
        ln = pr.len_range(base, bi) if base is not None else (0, INF)
        m = pr.rng(args[1], bi)
        rep.check(m[1] <= ln[0], "range-index", p, "%s#%d" % (short, seq), "split point in [%s,%s] <= len %s" % (m[0], m[1], ln[0]), "split point may exceed the length: mid in [%s,%s], length in [%s,%s]" % (m[0], m[1], ln[0], ln[1]), b.loc(bi))
        return
    if short in ("clone_from_slice", "copy_from_slice") and p not in r32_sinks:
        # equal lengths by construction: both sides have the same symbolic length
        dest = info["locargs"][0]
        dterm = strip(dest[1][1]) if dest[0] == "ref" and dest[1][0] == "deref" else None
        sd, ss = symlen(dterm) if dterm is not None else None, symlen(strip(args[1]))
        if sd is not None and sd == ss:
            rep.ok("copy-len", p, "%s#%d" % (short, seq), "destination and source both have length %s" % show(sd, maxdepth=3), b.loc(bi))
            return
    if short in ("clone_from_slice", "copy_from_slice"):
        role = "%s#%d" % (short, seq)
        if p in r32_sinks:
            # dest = array[0..len(v)], src = v: equal lengths by construction (checked by C01 padding shape)
            dest = info["locargs"][0]
            d = dest[1] if dest[0] == "ref" else None
            ok = False
            dd = strip(d[1]) if d is not None and d[0] == "deref" else None
            if dd is not None and (util.is_call(dd) and dd[1].endswith("index_mut") or dd[0] == "field" and dd[2] == 0 and util.is_call(dd[1]) and dd[1][1].split("::")[-1] == "split_at_mut"):
                e = None
                if dd[0] == "field":
                    e = util.numnorm(dd[1][2][1])       # the low part of array.split_at_mut(len(v))
                else:
                    r = dd[2][1]
                    if r[0] == "agg" and r[2] == "std::ops::Range" and r[4][0][:2] == ("int", 0):
                        e = util.numnorm(r[4][1])
                    elif r[0] == "agg" and r[2] == "std::ops::RangeTo":
                        e = util.numnorm(r[4][0])
                if e is not None:
                    src = strip(args[1])
                    while util.is_call(src) and (src[1] in util.IDENT_CALLS or src[1].endswith("::to_vec") or "deref" in src[1]):
                        src = strip(src[2][0])
                    el = e[1] if e[0] == "len" else None
                    while el is not None and util.is_call(el) and (el[1] in util.IDENT_CALLS or el[1].endswith("::to_vec") or "deref" in el[1]):
                        el = strip(el[2][0])
                    ok = el is not None and el == src
            rep.check(ok, "copy-len", p, role, "destination range 0..len(v) and source v have the same length by construction", "clone_from_slice lengths are not equal by construction", b.loc(bi))
        else:
            rep.undecided("copy-len", p, role, "slice copy with lengths not related by construction", b.loc(bi))
        return
    if short == "swap" and "slice" in name:
        base = se.call_old.get((info["site"], 0))
        ln = pr.len_range(base, bi) if base is not None else (0, INF)
        if ln == (0, INF) and "locargs" in info:
            la = info["locargs"][0]
            if la[0] == "ref":
                ty = None
                loc = la[1]
                pth = util.adt_path_of(ctx, se, strip(loc[1])) if loc[0] == "field" else None
                fs = fb.adt_fields(pth) if pth else None
                if fs and loc[2] < len(fs):
                    ty = fb.ty(fs[loc[2]]["ty"])
                    if ty.k == "array":
                        ln = (ty.len, ty.len)
        ra, rb = pr.rng(args[1], bi), pr.rng(args[2], bi)
        ok = ra[1] < ln[0] and rb[1] < ln[0]
        just = ""
        if not ok and p == "rc4::Rc4::key_scheduling_algorithm::{closure#1}":
            ok, just = ksa_premise(ctx)
        rep.check(ok, "swap", p, "swap#%d" % seq, "indices [%s,%s], [%s,%s] < len %s %s" % (ra[0], ra[1], rb[0], rb[1], ln[0], just), "swap index may be out of bounds: [%s,%s] / [%s,%s] vs length [%s,%s]" % (ra[0], ra[1], rb[0], rb[1], ln[0], ln[1]), b.loc(bi))
        return
    if short in ("chunks_exact", "chunks", "windows", "chunks_exact_mut", "chunks_mut", "rchunks", "rchunks_exact") and "slice" in name:
        ok, why = pr.prove_nonzero(args[1], bi)
        rep.check(ok, "step-by", p, "%s#%d" % (short, seq), "chunk size " + why, "%s(0) would panic: %s" % (short, why), b.loc(bi))
        return
    if short == "step_by":
        ok, why = pr.prove_nonzero(args[1], bi)
        rep.check(ok, "step-by", p, "step_by#%d" % seq, "step " + why, "step_by(0) would panic: " + why, b.loc(bi))
        return
    if short in ("unwrap", "expect"):
        role = "%s#%d" % (short, seq)
        src = strip(args[0])
        # the two documented panics: the *self-generated* public key turned out invalid
        if short == "expect" and util.is_call(src) and src[1] in ("srp_internal_client::calculate_client_public_key", "server::SrpVerifier::with_specific_private_key", "srp_internal::calculate_server_public_key"):
            own_key = util.fresh(ctx, canon(ctx, se, src[2][0]))[0] or util.is_call(strip(src[2][0]), "key::PrivateKey::randomized") or util.is_call(strip(src[2][1]) if len(src[2]) > 1 else ("x",), "key::PrivateKey::randomized") or (strip(src[2][0])[0] == "param" and p.startswith("client::SrpClientChallenge::")) or (len(src[2]) > 1 and strip(src[2][1])[0] == "param" and p.startswith("server::SrpVerifier::"))
            if own_key:
                rep.ok("unwrap", p, role, "excluded by the property: documented panic on an invalid self-generated public key", b.loc(bi))
                return
        if short == "expect" and util.is_call(src) and src[1] in ("key::PublicKey::client_try_from_bigint", "key::PublicKey::try_from_bigint") and p.startswith("client::SrpClientChallenge::") and any(util.is_call(x, "key::PrivateKey::randomized") for x in walk(strip(src[2][0]))):
            # the same documented panic with the helper that computed A looked through: the
            # validated value is built from the client's own fresh private key
            rep.ok("unwrap", p, role, "excluded by the property: documented panic on an invalid self-generated public key", b.loc(bi))
            return
        if util.is_call(src) and src[1] in util.MAC_NEW:
            rep.ok("unwrap", p, role, "justified: Hmac::new_from_slice accepts keys of any length (never Err)", b.loc(bi))
            return
        if util.is_call(src) and src[1].endswith("try_into"):
            # &[u8] -> [u8; N]: succeeds iff the slice length is N
            inner = src[2][0]
            ln = pr.len_range(inner, bi)
            dty = place_ty(fb, b, t["dest"])
            want = dty.len if dty is not None and dty.k == "array" else None
            ok = want is not None and ln == (want, want)
            rep.check(ok, "unwrap", p, role, "slice of length %s converted to [u8; %s]" % (ln[0], want), "try_into().unwrap(): source length [%s,%s] is not provably %s" % (ln[0], ln[1], want), b.loc(bi))
            return
        if util.is_call(src) and "TryFrom<" in src[1] and src[1].endswith("::try_from") and " for " in src[1] and len(src[2]) == 1:
            # uN::try_from(x): succeeds iff x fits uN
            tgt = src[1].split(" for ")[-1].split(">")[0]
            tr_ = TYPE_RANGE.get(tgt)
            if tr_ is not None:
                rx = pr.rng(src[2][0], bi)
                ok = rx[0] >= tr_[0] and rx[1] <= tr_[1]
                rep.check(ok, "unwrap", p, role, "%s::try_from of a value in [%s,%s] always fits" % (tgt, rx[0], rx[1]), "%s::try_from(..).unwrap(): the value, in [%s,%s], does not provably fit" % (tgt, rx[0], rx[1]), b.loc(bi))
                return
        if util.is_call(src) and src[1] in ("std::str::from_utf8", "core::str::from_utf8") and p == "<normalized_string::NormalizedString as std::convert::AsRef<str>>::as_ref":
            ok, why = ascii_premise(ctx)
            rep.check(ok, "unwrap", p, role, "justified: the stored bytes are ASCII (" + why + ")", "from_utf8(..).unwrap() on bytes that are not provably ASCII: " + why, b.loc(bi))
            return
        rep.undecided("unwrap", p, role, "unwrap/expect whose success is not established: %s" % show(src, maxdepth=3), b.loc(bi))
        return
    if name == "std::vec::Vec::<T>::with_capacity":
        # panics iff the capacity in bytes exceeds isize::MAX; decided for byte vectors
        ra = [fb.ty(a["ty"]).s for a in t.get("resolved_args", []) if "ty" in a]
        r = pr.rng(args[0], bi)
        ok = ra[:1] == ["u8"] and r[1] <= 2 ** 63 - 1
        rep.check(ok, "bounds", p, "with_capacity#%d" % seq, "capacity in [%s,%s] bytes <= isize::MAX" % r, "Vec::with_capacity: capacity [%s,%s] of %s elements is not provably <= isize::MAX bytes" % (r[0], r[1], ra[:1]), b.loc(bi))
        return
    if name in ("<std::option::Option<T> as std::cmp::PartialEq>::eq", "<std::option::Option<T> as std::cmp::PartialEq>::ne"):
        # comparing two Option<T>: what T's own comparison does; no panic for integers and references to them
        ra = [fb.ty(a["ty"]).s for a in t.get("resolved_args", []) if "ty" in a]
        if ra[:1] and ra[0].lstrip("&").replace("mut ", "") in ("u8", "u16", "u32", "u64", "usize", "i8", "i16", "i32", "i64", "bool", "char"):
            return
    if name == "std::vec::from_elem" and len(args) == 2:
        # vec![x; n]: panics iff n elements exceed isize::MAX bytes; decided for byte vectors
        ra = [fb.ty(a["ty"]).s for a in t.get("resolved_args", []) if "ty" in a]
        r = pr.rng(args[1], bi)
        ok = ra[:1] == ["u8"] and r[1] <= 2 ** 63 - 1
        rep.check(ok, "bounds", p, "vec-from-elem#%d" % seq, "vec![_; n] with n in [%s,%s] bytes <= isize::MAX" % r, "vec![_; n]: n in [%s,%s] of %s elements is not provably <= isize::MAX bytes" % (r[0], r[1], ra[:1]), b.loc(bi))
        return
    if name == "num_bigint::BigInt::modpow" or ("std::ops::Rem" in name and "num_bigint" in name):
        rep.ok("bigint-precondition", p, "%s#%d" % (short, seq), "wrapper body: preconditions are checked at the formula level (rule bigint-precondition on callers)", b.loc(bi))
        return
    if name in NO_PANIC_EXACT or (any(name.startswith(x) for x in NO_PANIC_PREFIX) and (short not in PANICKING_METHODS or (short in ("rotate_left", "rotate_right") and name.startswith("core::num::<impl")))):
        return
    if t.get("callee") in ("std::iter::Iterator::next", "std::ops::Deref::deref", "std::ops::DerefMut::deref_mut", "std::convert::From::from", "std::default::Default::default", "std::clone::Clone::clone"):
        return
    if t["target"] is None:
        dead, why_dead = pr.infeasible(bi)
        if dead:
            rep.ok("bounds", p, "diverging-call#%d" % seq, "unreachable: " + why_dead, b.loc(bi))
            return
        rep.violation("bounds", p, "diverging-call#%d" % seq, "explicit panic path: call to %s never returns" % name, b.loc(bi))
        return
    rep.undecided("bounds", p, "call:%s#%d" % (name[:60], seq), "call to %s is outside the modelled / allow-listed set" % name, b.loc(bi))


def symlen(x):
    """symbolic length of a slice-valued term, as a numnorm'ed expression, or None"""
    if x is None:
        return None
    x = strip(x)
    while True:
        if util.is_call(x) and (x[1] in util.IDENT_CALLS or "deref" in x[1].lower()):
            x = strip(x[2][0])
        elif x[0] == "after" and len(x) == 4:
            x = strip(x[3])         # a slice modified in place through `&mut [u8]` keeps its length
        else:
            break
    if x[0] == "field" and x[2] == 0 and util.is_call(x[1]) and x[1][1].split("::")[-1] in ("split_at", "split_at_mut"):
        return util.numnorm(x[1][2][1])
    if util.is_call(x) and x[1] in ("core::str::<impl str>::as_bytes", "std::string::String::as_bytes"):
        return ("len", util.numnorm(x[2][0]))
    if util.is_call(x) and (x[1].endswith("::index") or x[1].endswith("::index_mut")) and len(x[2]) == 2:
        r = strip(x[2][1])
        if r[0] == "agg" and r[2] == "std::ops::RangeTo":
            return util.numnorm(r[4][0])
        if r[0] == "agg" and r[2] == "std::ops::Range" and util.numnorm(r[4][0])[:2] == ("int", 0):
            return util.numnorm(r[4][1])
    if x[0] in ("param",):
        return ("len", x)
    return None


def ksa_premise(ctx):
    """closure#1 of the RC4 KSA is only driven by (0..256).zip(..): its first item component is < 256"""
    se = ctx.flat.run("rc4::Rc4::key_scheduling_algorithm")
    if se is None:
        return False, ""
    for i in se.term_info.values():
        if i.get("k") == "call" and i["name"] == "std::iter::Iterator::for_each":
            cl = i["locargs"][1]
            if cl[0] == "agg" and cl[2] and cl[2].endswith("{closure#1}"):
                it = strip(i["args"][0])
                if util.is_call(it, "std::iter::Iterator::zip"):
                    a = it[2][0]
                    if a[0] == "agg" and a[2] == "std::ops::Range" and tuple(x[:2] for x in a[4]) == (("int", 0), ("int", 256)):
                        return True, "(justified: i comes from (0..256).zip(..), j is u8)"
    return False, ""


def ascii_premise(ctx):
    """NormalizedString bytes are ASCII: the C13 character-set rule holds and the struct has a
    single non-derived constructor"""
    from framework import Report
    from rules import c13

    r = Report("C13", ctx.cfg)
    c13.check(ctx, r)
    bad = [o for o in r.obs if o.status != "ok" and o.rule in ("char-set", "normal-form", "who-may-construct", "length-gate")]
    return (not bad), ("C13 char-set / constructor rules hold" if not bad else "C13 rule failing: %s" % bad[0].key)


def reduced32(ctx, rep, sinks, clo):
    """A8: every caller of a fixed-width copy site passes a value reduced modulo a 32-byte modulus"""
    fb = ctx.fb
    seen_sites = 0
    for sink in sorted(sinks):
        callers = [(b, bi, t) for b, bi, t in util.callers_of(fb, sink)]
        # Into::into call sites resolve to the From impl
        if sink.endswith(">::from"):
            adt = sink[1:].split(" as ")[0]
            for b in fb.bodies.values():
                for bi, t in b.calls():
                    if t.get("resolved") == "<T as std::convert::Into<U>>::into":
                        ra = [fb.ty(a["ty"]).s for a in t.get("resolved_args", []) if "ty" in a]
                        if ra == ["bigint::Integer", adt]:
                            callers.append((b, bi, t))
        for b, bi, t in callers:
            if b.path not in clo and not b.path.startswith("srp_internal"):
                continue
            se = ctx.big.run(b.path)
            info = se.term_info.get(bi) if se is not None else None
            # in the big-integer view the wrapper is inlined: look the argument up by site
            arg = None
            if se is not None:
                for bb2, i2 in se.term_info.items():
                    if i2.get("site") == (b.path, bi):
                        arg = i2.get("locargs", i2["args"])[0]
                        if arg[0] == "ref":
                            arg = se.call_old.get(((b.path, bi), 0)) or se.read(se.in_state.get(bi, {}), arg[1])
            if arg is None:
                rep.undecided("reduced32", b.path, "->" + sink.split("::")[-2 if sink.endswith("from") else -1], "cannot read the argument of the fixed-width copy", b.loc(bi))
                continue
            f = c03.bigf(ctx, se, canon(ctx, se, arg))
            ok = False
            why = c03.show_f(f)[:120]
            if canon(ctx, se, arg) == ("param", 1) and b.path in sinks:
                # a copy site handing its own argument on: the obligation is on *its* callers
                seen_sites += 1
                rep.ok("reduced32", b.path, "->" + sink.replace("std::convert::From<bigint::Integer>", "From")[:70], "delegates its own (Reduced32) argument", b.loc(bi))
                continue
            if f[0] in ("modpow", "rem"):
                m = f[3] if f[0] == "modpow" else f[2]
                if m[0] == "int":
                    src = m[1]
                    if src[0] == "const" and len(src[1]) == 32:
                        ok = True
                        why = "value is reduced modulo the 32-byte constant N"
                    elif src[0] == "P":
                        ty = b.local_ty(src[1]).peel_refs()
                        fs = fb.adt_fields(ty.path) if ty.k == "adt" else None
                        w = fb.ty(fs[0]["ty"]).len if fs and len(fs) == 1 else (ty.len if ty.k == "array" else None)
                        ok = w == 32
                        why = "value is reduced modulo a 32-byte modulus parameter"
                    elif src[0] == "?":
                        # the modulus is a field of a parameter (`self.large_safe_prime` of a helper
                        # struct that carries the group): its width by type
                        mt = None
                        for t_ in walk(strip(canon(ctx, se, arg))):
                            if util.is_call(t_, "num_bigint::BigInt::modpow") and len(t_[2]) == 3:
                                m_ = strip(t_[2][2])
                                if util.is_call(m_, "num_bigint::BigInt::from_bytes_le"):
                                    mt = canon(ctx, se, m_[2][1])
                                break

                        def ty_of(t_):
                            t_ = strip(t_)
                            if t_[0] == "param":
                                return b.local_ty(t_[1])
                            if t_[0] == "field" and isinstance(t_[2], int):
                                bt = ty_of(t_[1])
                                bt = bt.peel_refs() if bt is not None else None
                                fs_ = fb.adt_fields(bt.path) if bt is not None and bt.k == "adt" else None
                                return fb.ty(fs_[t_[2]]["ty"]) if fs_ and t_[2] < len(fs_) else None
                            return None

                        ty = ty_of(mt) if mt is not None else None
                        ty = ty.peel_refs() if ty is not None else None
                        if ty is not None:
                            fs = fb.adt_fields(ty.path) if ty.k == "adt" else None
                            w = fb.ty(fs[0]["ty"]).len if fs and len(fs) == 1 else (ty.len if ty.k == "array" else None)
                            ok = w == 32
                            why = "value is reduced modulo a 32-byte modulus held in a field of a parameter"
            if ok:
                # a value below a 32-byte modulus fits only a copy site of at least 32 bytes
                from rules import c01 as _c01
                w_ = _c01.padder_width(ctx, sink)
                if w_ is None and sink.endswith(">::from"):
                    fs_ = fb.adt_fields(sink[1:].split(" as ")[0])
                    w_ = fb.ty(fs_[0]["ty"]).len if fs_ else None
                if w_ is not None and w_ < 32:
                    ok = False
                    why = "a value below a 32-byte modulus is copied into a %d-byte array" % w_
            seen_sites += 1
            rep.check(ok, "reduced32", b.path, "->" + sink.replace("std::convert::From<bigint::Integer>", "From")[:70], why, "a value that is not provably reduced modulo a 32-byte modulus is copied into a fixed 32-byte array: " + why, b.loc(bi))
    # big-integer preconditions (modpow: exponent >= 0, modulus != 0; %: divisor != 0) at the formula level
    for fn in ("srp_internal::calculate_password_verifier", "srp_internal::calculate_server_public_key", "srp_internal::calculate_S", "srp_internal_client::calculate_client_public_key", "srp_internal_client::calculate_client_S", "bigint::Integer::mod_large_safe_prime_is_zero"):
        se = ctx.big.run(fn)
        if se is None:
            continue
        terms = [strip(se.ret)]
        for i in se.term_info.values():
            if i.get("k") == "call":
                terms.append(strip(i["term"]))
        probs = []
        n = 0
        seen = set()
        for t in terms:
            for x in walk(t):
                if x in seen:
                    continue
                seen.add(x)
                if util.is_call(x, "num_bigint::BigInt::modpow"):
                    n += 1
                    e = c03.bigf(ctx, se, x[2][1])
                    m = c03.bigf(ctx, se, x[2][2])
                    if not nonneg(e):
                        probs.append("exponent %s may be negative" % c03.show_f(e))
                    if not nonzero_mod(fn, m):
                        probs.append("modulus %s may be zero" % c03.show_f(m))
                elif util.is_call(x) and "std::ops::Rem" in x[1] and "num_bigint" in x[1]:
                    n += 1
                    m = c03.bigf(ctx, se, x[2][1])
                    if not nonzero_mod(fn, m):
                        probs.append("divisor %s may be zero" % c03.show_f(m))
        if n:
            rep.check(not probs, "bigint-precondition", fn, "modpow-rem", "%d modpow/%% operations: exponents are sums/products of non-negative values, moduli are the built-in prime (server) / the announced prime (client: built-in group per the property)" % n, "; ".join(probs), se.body.loc())


def nonneg(f):
    k = f[0]
    if k in ("int", "small"):
        return True
    if k in ("add", "mul"):
        return all(nonneg(x) for x in f[1])
    if k in ("modpow", "rem"):
        return True
    return False


def nonzero_mod(fn, m):
    if m[0] == "int" and m[1][0] == "const":
        return any(m[1][1])
    if m[0] == "int" and m[1][0] == "P" and (fn.startswith("srp_internal_client::") or fn.startswith("bigint::")):
        # client: the announced prime; C14 restricts the client to the built-in group (non-zero)
        return True
    return False
