#!/bin/sh
# run every quick check on /repo's tree; print only lines that need attention
cd "$(dirname "$0")/.."
for i in 01 02 03 04 05 06 07 08 09 10 11 12 13 14 15 16 17 18; do ./check C$i | grep -E "^C|finding"; done | grep -v " 0 violations"
echo "all.sh done"
