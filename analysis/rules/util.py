"""Shared matchers for the rule modules: value identity (A3), whole-value equality (A2),
gates (A1), transcripts (A5), censuses (A4)."""
import cfg
from symex import walk, show

PARTIAL_EQ = ("std::cmp::PartialEq::eq", "std::cmp::PartialEq::ne")
RAW_TERMS = {}


# --------------------------------------------------------------------------- identity (A3)

def strip(t):
    """remove reference / dereference wrappers everywhere (value identity, not address)"""
    if not isinstance(t, tuple) or not t or not isinstance(t[0], str):
        return t
    k = t[0]
    if k in ("ref", "refv"):
        return strip(t[1])
    if k == "deref":
        return strip(t[1])
    if k == "call":
        return ("call", t[1], tuple(strip(a) for a in t[2]), t[3])
    if k == "agg":
        return ("agg", t[1], t[2], t[3], tuple(strip(a) for a in t[4]))
    if k in ("field", "cindex", "downcast"):
        return (k, strip(t[1])) + t[2:]
    if k == "index":
        return ("index", strip(t[1]), strip(t[2]))
    if k == "after":
        return ("after", strip(t[1]), t[2], strip(t[3]))
    if k == "binop":
        return ("binop", t[1], strip(t[2]), strip(t[3]))
    if k in ("unop", "cast"):
        return (k, t[1], strip(t[2])) + t[3:]
    if k in ("discr", "len"):
        return (k, strip(t[1]))
    if k == "upd":
        e = t[2]
        if e[0] == "i":
            e = ("i", strip(e[1]))
        return ("upd", strip(t[1]), e, strip(t[3]))
    if k == "repeat":
        return ("repeat", strip(t[1]), t[2])
    return t


def nosite(t):
    """drop call/phi site tags (for comparing pure expressions across sites)"""
    if not isinstance(t, tuple) or not t or not isinstance(t[0], str):
        return t
    k = t[0]
    if k == "call":
        return ("call", t[1], tuple(nosite(a) for a in t[2]))
    if k == "phi":
        return t[:4]
    return tuple(nosite(x) if isinstance(x, tuple) and x and isinstance(x[0], str) else (tuple(nosite(y) for y in x) if isinstance(x, tuple) else x) for x in t)


def single_field_struct(fb, path):
    a = fb.adts.get(path)
    if not a or a["kind"] != "Struct":
        return False
    return len(a["variants"][0]["fields"]) == 1


def adt_path_of(ctx, se, t):
    """ADT path of the value a (stripped) term denotes, for the shapes the rules meet"""
    fb = ctx.fb
    k = t[0]
    if k == "param":
        ty = se.body.local_ty(t[1]).peel_refs()
        return ty.path if ty.k == "adt" else None
    if k == "agg" and t[1] == "adt":
        return t[2]
    if k == "after":
        return adt_path_of(ctx, se, t[3])
    if k == "upd":
        return adt_path_of(ctx, se, t[1])
    if k in ("deref", "ref", "refv"):
        return adt_path_of(ctx, se, t[1])
    if k == "field":
        p = adt_path_of(ctx, se, t[1])
        fs = fb.adt_fields(p) if p else None
        if fs and t[2] < len(fs):
            ty = fb.ty(fs[t[2]]["ty"]).peel_refs()
            return ty.path if ty.k == "adt" else None
        return None
    if k == "call":
        info = se.site_info.get(t[3][:2]) if len(t) > 3 else None
        if info is not None:
            from symex import place_ty

            b = ctx.fb.body(t[3][0])
            if b is not None:
                ty = place_ty(fb, b, info["dest"])
                if ty is not None:
                    ty = ty.peel_refs()
                    return ty.path if ty.k == "adt" else None
    return None


def canon(ctx, se, t):
    """value identity normal form: no refs, and single-field structs are their field"""
    t = strip(t)
    return _unwrap(ctx, se, t)


def _unwrap(ctx, se, t):
    if not isinstance(t, tuple) or not t or not isinstance(t[0], str):
        return t
    k = t[0]
    if k == "agg":
        ops = tuple(_unwrap(ctx, se, a) for a in t[4])
        if t[1] == "adt" and len(ops) == 1 and single_field_struct(ctx.fb, t[2]):
            return ops[0]
        return ("agg", t[1], t[2], t[3], ops)
    if k == "field":
        # `?`: ((Try::branch(r) as Continue).0) is the Ok payload of r
        if t[2] == 0 and t[1][0] == "downcast" and is_call(t[1][1], suffix="as std::ops::Try>::branch"):
            return ("try_ok" if t[1][2] == 0 else "try_err", _unwrap(ctx, se, t[1][1][2][0]))
        b = _unwrap(ctx, se, t[1])
        if t[2] == 0:
            p = adt_path_of(ctx, se, t[1])
            if p and single_field_struct(ctx.fb, p):
                return b
        return ("field", b) + t[2:]
    if k == "call":
        return ("call", t[1], tuple(_unwrap(ctx, se, a) for a in t[2]), t[3])
    if k == "after":
        return ("after", _unwrap(ctx, se, t[1]), t[2], _unwrap(ctx, se, t[3]))
    if k == "upd":
        if t[2] == ("f", 0):
            p = adt_path_of(ctx, se, t[1])
            if p and single_field_struct(ctx.fb, p):
                return _unwrap(ctx, se, t[3])
        return ("upd", _unwrap(ctx, se, t[1]), t[2], _unwrap(ctx, se, t[3]))
    if k in ("cindex", "downcast"):
        return (k, _unwrap(ctx, se, t[1])) + t[2:]
    if k == "index":
        return ("index", _unwrap(ctx, se, t[1]), _unwrap(ctx, se, t[2]))
    if k == "binop":
        return ("binop", t[1], _unwrap(ctx, se, t[2]), _unwrap(ctx, se, t[3]))
    if k in ("unop", "cast"):
        return (k, t[1], _unwrap(ctx, se, t[2])) + t[3:]
    return t


def is_call(t, name=None, suffix=None):
    if not (isinstance(t, tuple) and t and t[0] == "call"):
        return False
    if name is not None and t[1] != name:
        return False
    if suffix is not None and not t[1].endswith(suffix):
        return False
    return True


# --------------------------------------------------------------------------- A2: whole value

def whole_value_type(fb, ty, depth=0):
    """(ok, description) - is `==` on this type a comparison of every byte of the value?"""
    if depth > 6:
        return False, "type too deep"
    k = ty.k
    if k == "ref":
        return whole_value_type(fb, ty.to, depth)
    if k == "int" or k == "bool" or k == "char":
        return True, ty.s
    if k == "array":
        ok, d = whole_value_type(fb, ty.elem, depth + 1)
        return (ok and ty.len is not None), "[%s; %s]" % (d, ty.len)
    if k == "adt":
        if not ty.d.get("local"):
            return False, "foreign type %s" % ty.s
        if "std::cmp::PartialEq" not in fb.derived_traits(ty.path):
            return False, "%s has a hand-written PartialEq" % ty.path
        a = fb.adts[ty.path]
        for v in a["variants"]:
            for f in v["fields"]:
                ok, d = whole_value_type(fb, fb.ty(f["ty"]), depth + 1)
                if not ok:
                    return False, "%s.%s: %s" % (ty.path, f["name"], d)
        return True, "derived PartialEq on %s (all fields whole)" % ty.path
    return False, "comparison on %s is not a recognised whole-value equality" % ty.s


_hetero_cache = {}


def hetero_eq(ctx, self_ty, rhs_ty):
    """`impl PartialEq<Rhs> for X` written by hand in the crate, X a one-field crate type:
    (True, why) when its `eq` is nothing but the whole-value `==` of that one field and the
    whole right-hand side, both of one type (and the impl keeps the default `ne`)"""
    key = (id(ctx), self_ty.s, rhs_ty.s)
    if key in _hetero_cache:
        return _hetero_cache[key]
    res = (False, "no hand-written PartialEq<%s> for %s that is one whole-value equality" % (rhs_ty.s, self_ty.s))
    _hetero_cache[key] = res
    fb = ctx.fb
    if self_ty.k != "adt" or not self_ty.d.get("local") or len(fb.adt_fields(self_ty.path) or []) != 1 or len(fb.adts[self_ty.path]["variants"]) != 1:
        return res
    cands = []
    for path, b in fb.bodies.items():
        if b.d.get("impl_trait") not in ("std::cmp::PartialEq", "core::cmp::PartialEq") or b.derived() or not path.startswith("<%s as " % self_ty.path):
            continue
        t1, t2 = b.local_ty(1), b.local_ty(2)
        if t1 is None or t2 is None or t1.peel_refs().s != self_ty.s or t2.peel_refs().s != rhs_ty.s:
            continue
        cands.append(path)
    if len(cands) != 1 or not cands[0].endswith("::eq"):
        return res      # none, or the impl also writes its own `ne`
    se = ctx.wrap.run(cands[0])
    if se is None or cfg.back_edges(se.body):
        return res
    cmps = compare_sites(ctx, se)
    if len(cmps) != 1 or cmps[0]["op"] != "eq" or strip(se.ret) != strip(cmps[0]["term"]):
        return res
    c = cmps[0]
    ops = [canon(ctx, se, a) for a in c["args"]]
    selfs = (("param", 1), ("field", ("param", 1), 0))
    if not ((ops[0] in selfs and ops[1] == ("param", 2)) or (ops[1] in selfs and ops[0] == ("param", 2))):
        return res
    ok, why = whole_value_type(fb, c["self_ty"])
    if not ok or c["rhs_ty"] is None or c["rhs_ty"].peel_refs().s != c["self_ty"].peel_refs().s or c["self_ty"].peel_refs().s != rhs_ty.s:
        return res
    res = (True, "%s: its one field == the whole right-hand side, %s" % (cands[0], why))
    _hetero_cache[key] = res
    return res


def whole_compare(ctx, c):
    """(ok, why): is the comparison site c (of compare_sites) an equality of every byte of both
    operands - one type on both sides whose `==` is whole, or a crate type against the type of
    its only field through a hand-written impl that is that field's whole `==`"""
    ok, why = whole_value_type(ctx.fb, c["self_ty"])
    if c["rhs_ty"] is None or c["rhs_ty"].s == c["self_ty"].s:
        return ok, why
    for a, b in ((c["self_ty"], c["rhs_ty"]), (c["rhs_ty"], c["self_ty"])):
        a, b = a.peel_refs(), b.peel_refs()
        if a.k == "adt":
            h = hetero_eq(ctx, a, b)
            if h[0]:
                return h
    return False, "operands of different types (%s, %s)" % (c["self_ty"].s, c["rhs_ty"].s)


def compare_sites(ctx, se):
    """all `==` / `!=` calls of a body: dict(bb, op, self_ty, args (terms), term)"""
    out = []
    for bb, t in se.body.calls():
        if t.get("callee") in PARTIAL_EQ:
            info = se.term_info.get(bb)
            if info is None:
                continue
            cargs = t.get("callee_args", [])
            sty = ctx.fb.ty(cargs[0]["ty"]) if cargs and "ty" in cargs[0] else None
            rty = ctx.fb.ty(cargs[1]["ty"]) if len(cargs) > 1 and "ty" in cargs[1] else None
            args = info["args"]
            def bare_local(a):
                """a place of the function left over as an operand (`&&_4`): walk, not into phis"""
                a = strip(a)
                if a[0] == "local":
                    return True
                if a[0] == "phi" or a[0] == "call":
                    return False
                return any(bare_local(y) for y in a[1:] if isinstance(y, tuple) and y and isinstance(y[0], str))

            if any(bare_local(a) for a in args):
                # operands handed on through references to locals (`&server_proof` given to a
                # helper that compares `a == b` on its `&Proof` parameters): the values they hold
                args = tuple(resolve_locals(se, bb, a) for a in args)
                if sty is not None and sty.k == "ref":
                    sty = sty.peel_refs()
                    rty = rty.peel_refs() if rty is not None else None
            elif sty is not None and sty.k == "ref" and (t.get("resolved") or "").startswith("std::cmp::impls::<impl std::cmp::PartialEq<&B> for &A>"):
                sty = sty.peel_refs()
                rty = rty.peel_refs() if rty is not None else None
            out.append({"bb": bb, "op": "eq" if t["callee"].endswith("::eq") else "ne", "self_ty": sty, "rhs_ty": rty, "args": args, "term": info["term"], "resolved": t.get("resolved")})
    out.extend(fold_equalities(ctx, se))
    return out


def fold_equalities(ctx, se):
    """`a.iter().zip(b.iter()).fold(0, |acc, (x, y)| acc | (x ^ y)) == 0` over two arrays of the
    same type: an equality of the whole arrays that looks at every byte (no early exit).
    Anything else (another accumulator, another start value, slices, prefixes) is not listed."""
    from rules import arith
    import ranges

    out = []
    seen = set()
    pr = None
    for (bi, si), (loc, v) in sorted(se.assigns.items()):
        v0 = strip(v)
        if not (v0[0] == "binop" and v0[1] in ("Eq", "Ne")) or v0 in seen:
            continue
        a, b = v0[2], v0[3]
        if a[:2] == ("int", 0):
            a, b = b, a
        if b[:2] != ("int", 0) or not (is_call(a) and a[1].endswith("::fold") and len(a[2]) == 3):
            continue
        it, init, cl = a[2]
        if init[:2] != ("int", 0) or not (cl[0] == "agg" and cl[1] == "closure" and not cl[4]):
            continue
        if not (is_call(it) and it[1].endswith("::zip") and all(is_call(x, "core::slice::<impl [T]>::iter") for x in it[2])):
            continue
        cse = ctx.flat.run(cl[2])
        if cse is None or cfg.back_edges(cse.body):
            continue
        env = {("param", 2): "acc", ("field", ("param", 3), 0): "x", ("field", ("param", 3), 1): "y"}
        n = arith.norm(cse.ret, env)
        if n != ("or", frozenset([("sym", "acc"), ("xor", frozenset([("sym", "x"), ("sym", "y")]))])):
            continue
        A, B = it[2][0][2][0], it[2][1][2][0]
        if pr is None:
            pr = ranges.World(ctx).prover(se.fn)
        ta = pr.type_of(strip(A)) if pr is not None else None
        tb = pr.type_of(strip(B)) if pr is not None else None
        if ta is None or tb is None:
            continue
        ta, tb = ta.peel_refs(), tb.peel_refs()
        if ta.k != "array" or ta.s != tb.s:
            continue
        seen.add(v0)
        out.append({"bb": bi, "op": "eq" if v0[1] == "Eq" else "ne", "self_ty": ta, "rhs_ty": tb, "args": (A, B), "term": v, "resolved": "or-fold of byte differences", "via": "or-fold"})
    return out


def bool_switches(se):
    """switches on a boolean-ish discriminant: (bb, discr term, false_target, true_target)"""
    out = []
    for bb, info in se.term_info.items():
        if info.get("k") == "switch":
            tg = info["targets"]
            if len(tg) == 1 and tg[0][0] == 0:
                out.append((bb, info["discr"], tg[0][1], info["otherwise"]))
    return out


def compare_gate(ctx, se, cmp):
    """for a comparison site find the switch that branches on its result; returns
    (switch_bb, eq_edge, ne_edge) or None.  `!` applied to the result flips polarity."""
    for bb, d, f_t, t_t in bool_switches(se):
        neg = False
        x = strip(d)
        while x[0] == "unop" and x[1] == "Not":
            neg = not neg
            x = x[2]
        if x == strip(cmp["term"]):
            is_eq_when_true = (cmp["op"] == "eq") != neg
            if is_eq_when_true:
                return bb, (bb, t_t), (bb, f_t)
            return bb, (bb, f_t), (bb, t_t)
    return None


# --------------------------------------------------------------------------- A4: censuses

def aggregates(fb, adt_path, include_derived=False):
    """every construction site of an ADT in the crate: (body, bb, si, stmt)"""
    out = []
    for b in fb.bodies.values():
        if b.derived() and not include_derived:
            continue
        for bi in b.normal_blocks():
            for si, s in enumerate(b.blocks[bi]["stmts"]):
                if s["k"] == "assign" and s["rv"]["k"] == "aggregate" and s["rv"].get("ak") == "adt" and s["rv"]["path"] == adt_path:
                    out.append((b, bi, si, s))
    return out


def blocks_constructing(body, adt_path, variant=None):
    out = []
    for bi in body.normal_blocks():
        for si, s in enumerate(body.blocks[bi]["stmts"]):
            if s["k"] == "assign" and s["rv"]["k"] == "aggregate" and s["rv"].get("ak") == "adt" and s["rv"]["path"] == adt_path:
                if variant is None or s["rv"]["vname"] == variant:
                    out.append((bi, si, s))
    return out


def callers_of(fb, callee_path):
    out = []
    for b in fb.bodies.values():
        for bi, t in b.calls():
            if t.get("resolved") == callee_path or t.get("callee") == callee_path:
                out.append((b, bi, t))
    return out


def call_graph_closure(fb, roots):
    """crate-local call-graph closure (bodies reachable through resolved calls, closures and
    promoteds of visited bodies included)"""
    seen = set()
    work = list(roots)
    while work:
        p = work.pop()
        if p in seen or p not in fb.bodies:
            continue
        seen.add(p)
        b = fb.bodies[p]
        for c in fb.closures_of(p) + fb.promoteds_of(p):
            work.append(c.path)
        for _, t in b.calls():
            r = t.get("resolved")
            if r and t.get("resolved_local"):
                work.append(r)
            elif t.get("callee_local") and t.get("callee"):
                work.append(t["callee"])
    return seen


def const_uses(fb, body, live=None):
    """paths of named constants a body mentions (through operands); `live`: only these blocks"""
    out = set()

    def op(o):
        if isinstance(o, dict) and o.get("k") == "const" and "def" in o and "promoted" not in o:
            out.add(o["def"])

    for bi_, bl in enumerate(body.blocks):
        if live is not None and bi_ not in live:
            continue
        for s in bl["stmts"]:
            if s["k"] == "assign":
                rv = s["rv"]
                for key in ("op", "a", "b"):
                    if key in rv:
                        op(rv[key])
                for o in rv.get("ops", []):
                    op(o)
        t = bl["term"]
        for o in t.get("args", []):
            op(o)
        if "discr" in t:
            op(t["discr"])
    return out


# --------------------------------------------------------------------------- A5: transcripts

DIGEST_NEW = ("<D as digest::Digest>::new",)
CHAIN_UPDATE = ("<D as digest::Digest>::chain_update",)
DIGEST_UPDATE = ("<D as digest::Digest>::update",)
DIGEST_FINAL = ("<D as digest::Digest>::finalize", "digest::FixedOutput::finalize_fixed", "<D as digest::Digest>::finalize_fixed")
FINAL_RESET = ("<D as digest::Digest>::finalize_reset", "digest::FixedOutputReset::finalize_fixed_reset")
MAC_NEW = ("<T as digest::Mac>::new_from_slice",)
MAC_UPDATE = ("<T as digest::Mac>::update",)
MAC_CHAIN = ("<T as digest::Mac>::chain_update",)
MAC_FINAL = ("<T as digest::Mac>::finalize",)
IDENT_CALLS = (
    "<T as std::convert::Into<U>>::into",
    "digest::CtOutput::<T>::into_bytes",
    "digest::generic_array::GenericArray::<T, N>::as_slice",
    "<digest::generic_array::GenericArray<T, N> as std::ops::Deref>::deref",
    "<[T; N] as std::convert::AsRef<[T]>>::as_ref",
    "core::array::<impl [T; N]>::as_slice",
    "std::array::<impl [T; N]>::as_slice",
    "std::array::<impl [T; N]>::as_mut_slice",
    "core::array::<impl [T; N]>::as_mut_slice",
    "core::array::<impl std::convert::AsRef<[T]> for [T; N]>::as_ref",
    "core::str::<impl str>::as_bytes",
    "std::clone::Clone::clone",
    "std::array::<impl std::convert::AsMut<[T]> for [T; N]>::as_mut",
    "core::array::<impl std::convert::AsMut<[T]> for [T; N]>::as_mut",
    "core::array::<impl core::convert::AsMut<[T]> for [T; N]>::as_mut",
)
UNWRAP = ("std::result::Result::<T, E>::unwrap", "std::option::Option::<T>::unwrap", "std::result::Result::<T, E>::expect", "std::option::Option::<T>::expect")


def digest_type_ok(ctx, t, want):
    """the resolved generic arguments of a digest call name the expected algorithm"""
    site = t[3][:2]
    b = ctx.fb.body(site[0])
    if b is None:
        return False
    term = b.blocks[site[1]]["term"]
    for key in ("callee_args", "resolved_args"):
        for a in term.get(key, []):
            if "ty" in a and want in ctx.fb.ty(a["ty"]).s:
                return True
    return False


WIDTH = {"u8": 1, "u16": 2, "u32": 4, "u64": 8, "u128": 16, "usize": 8}


def cb(b):
    """canonical form of a byte expression: constants are folded to ("const", bytes)"""
    if not isinstance(b, tuple) or not b:
        return b
    k = b[0]
    if k in ("le", "be") and isinstance(b[2], tuple) and b[2][0] == "int" and b[1] in WIDTH:
        return ("const", int(b[2][1]).to_bytes(WIDTH[b[1]], "little" if k == "le" else "big"))
    if k == "zeros" and isinstance(b[1], int):
        return ("const", bytes(b[1]))
    if k == "repeat" and isinstance(b[2], int) and cb(b[1])[0] == "int":
        return ("const", bytes([cb(b[1])[1]]) * b[2])
    if k == "arr":
        xs = tuple(cb(x) for x in b[1])
        if all(x[0] == "int" and 0 <= x[1] < 256 for x in xs):
            return ("const", bytes(x[1] for x in xs))
        return ("arr", xs)
    if k in ("H", "MD5"):
        return (k, _flat(cb(x) for x in b[1]))
    if k == "HMAC":
        return ("HMAC", cb(b[1]), _flat(cb(x) for x in b[2]))
    if k == "cat":
        return ("cat", _flat(cb(x) for x in b[1]))
    if k == "text":
        return ("text", cb(b[1]))
    if k in ("le", "be"):
        return (k, b[1], cb(b[2]))
    if k == "call":
        return ("call", b[1], tuple(cb(x) for x in b[2]))
    if k == "F":
        return ("F", cb(b[1]), b[2])
    return b


def _flat(xs):
    """a message assembled in a buffer and hashed in one call is the same transcript as the
    pieces fed one by one"""
    out = []
    for x in xs:
        if x[0] == "cat":
            out.extend(x[1])
        else:
            out.append(x)
    return tuple(out)


VEC_EMPTY = ("std::vec::Vec::<T>::new", "std::vec::Vec::<T>::with_capacity")
VEC_APPEND = ("std::vec::Vec::<T, A>::extend_from_slice",)


def byte_len(ctx, se, x):
    """number of bytes of a byte-array valued term, by its type, else None"""
    fb = ctx.fb
    x = strip(x)
    ty = None
    if x[0] == "param" and se is not None:
        ty = se.body.local_ty(x[1])
    elif x[0] == "field" and isinstance(x[2], int):
        inner = strip(x[1])
        ity = se.body.local_ty(inner[1]) if inner[0] == "param" and se is not None else None
        ity = ity.peel_refs() if ity is not None else None
        if ity is not None and ity.k == "adt" and ity.path in fb.adts:
            fs = fb.adt_fields(ity.path) or []
            if x[2] < len(fs):
                ty = fb.ty(fs[x[2]]["ty"])
    elif x[0] == "call" and len(x) > 3 and x[3] and x[3][0] in fb.bodies:
        b = fb.body(x[3][0])
        try:
            term = b.blocks[x[3][1]]["term"]
            from symex import place_ty
            ty = place_ty(fb, b, term["dest"]) if term.get("k") == "call" else None
        except Exception:
            ty = None
    elif x[0] == "bytes":
        return len(x[1])
    elif x[0] == "repeat" and isinstance(x[2], int):
        return x[2]
    elif x[0] == "agg" and x[1] == "array":
        return len(x[4])
    if ty is None:
        return None
    ty = peel_newtype(fb, ty.peel_refs())
    if ty is not None and ty.k == "array" and ty.elem is not None and ty.elem.s == "u8":
        return ty.len
    return None


def _filled_buffer(ctx, se, t, depth):
    writes = {}
    base = t
    while base[0] == "upd" and base[2][0] == "ci" and not (len(base[2]) > 2 and base[2][2]):
        writes.setdefault(base[2][1], base[3])
        base = strip(base[1])
    n = byte_len(ctx, se, base) if base[0] in ("repeat", "agg", "bytes") else None
    if n is None or any(not (0 <= j < n) for j in writes):
        return None
    elems = []
    for j in range(n):
        if j in writes:
            elems.append(strip(writes[j]))
        elif base[0] == "repeat":
            elems.append(strip(base[1]))
        elif base[0] == "agg":
            elems.append(strip(base[4][j]))
        else:
            elems.append(("int", base[1][j]))
    parts = []
    j = 0
    while j < n:
        e = elems[j]
        if e[0] == "cindex" and not e[3] and e[2] == 0:
            X = e[1]
            m = byte_len(ctx, se, X)
            if m is not None and j + m <= n and all(elems[j + i] == ("cindex", X, i, False) for i in range(m)):
                parts.append(bexpr(ctx, se, X, depth + 1))
                j += m
                continue
        if e[0] == "int":
            k2 = j
            while k2 < n and elems[k2][0] == "int":
                k2 += 1
            parts.append(("const", bytes(elems[i][1] & 0xFF for i in range(j, k2))))
            j = k2
            continue
        return None          # an element that is neither a constant nor part of a whole copied value
    return ("cat", tuple(parts))


def bexpr(ctx, se, t, depth=0):
    """byte-string expression of a (stripped, unwrapped) term"""
    if depth == 0:
        return cb(_bexpr(ctx, se, canon(ctx, se, t), 1))
    return _bexpr(ctx, se, t, depth)


def _bexpr(ctx, se, t, depth=0):
    k = t[0]
    if k == "param":
        return ("P", t[1])
    if k == "bytes":
        return ("const", t[1])
    if k == "int":
        return ("int", t[1])
    if k == "repeat":
        inner = bexpr(ctx, se, t[1], depth + 1)
        if inner == ("int", 0):
            return ("zeros", t[2])
        return ("repeat", inner, t[2])
    if k == "agg" and t[1] == "array":
        return ("arr", tuple(bexpr(ctx, se, x, depth + 1) for x in t[4]))
    if k == "field":
        return ("F", bexpr(ctx, se, t[1], depth + 1), t[2])
    if k == "upd" and t[2][0] == "ci":
        # a buffer filled element by element (`buf[..32].copy_from_slice(a); buf[32..].copy_from_slice(b)`,
        # `split_at_mut` halves): the concatenation of what was stored
        r = _filled_buffer(ctx, se, t, depth)
        if r is not None:
            return r
    if k == "after" and is_call(t[1]) and t[1][1] in VEC_APPEND and t[2] == 0:
        # buffer.extend_from_slice(x): the buffer's bytes followed by x's
        base = bexpr(ctx, se, strip(t[3]), depth + 1)
        if base[0] == "cat":
            return ("cat", base[1] + (bexpr(ctx, se, strip(t[1][2][1]), depth + 1),))
        return ("raw", "append to " + show(t[3], maxdepth=3))
    if k == "call" and t[1] in VEC_EMPTY:
        return ("cat", ())
    if k == "call":
        name = t[1]
        if name in IDENT_CALLS:
            return bexpr(ctx, se, t[2][0], depth + 1)
        if name in UNWRAP and is_call(t[2][0], suffix="try_into") :
            # <&[u8] as TryInto<[u8; N]>>::try_into(..).unwrap(): identity on the bytes when the
            # lengths agree (length agreement is a C14 obligation, checked there)
            return bexpr(ctx, se, t[2][0][2][0], depth + 1)
        if name == "<normalized_string::NormalizedString as std::convert::AsRef<str>>::as_ref":
            return ("text", bexpr(ctx, se, t[2][0], depth + 1))
        for w, tag in (("to_le_bytes", "le"), ("to_be_bytes", "be")):
            if name.startswith("core::num::<impl ") and name.endswith("::" + w):
                return (tag, name[len("core::num::<impl "):].split(">")[0], bexpr(ctx, se, t[2][0], depth + 1))
        if name == "std::array::<impl [T; N]>::map" and len(t[2]) == 2:
            # [a, b, c].map(f): the array of f(a), f(b), f(c)
            base, f = strip(t[2][0]), strip(t[2][1])
            if base[0] == "agg" and base[1] == "array":
                out = []
                for e in base[4]:
                    if f[0] == "fn":
                        v = ("call", f[1], (e,), t[3] if len(t) > 3 else ("?", -1))
                    else:
                        v = closure_value(ctx, f, (e,))
                    if v is None:
                        return ("raw", "array::map with " + show(f, maxdepth=2))
                    out.append(bexpr(ctx, se, strip(v), depth + 1))
                return ("arr", tuple(out))
        if name in ("core::slice::<impl [[T; N]]>::as_flattened", "core::slice::<impl [[T; N]]>::as_flattened_mut") and len(t[2]) == 1:
            inner = bexpr(ctx, se, strip(t[2][0]), depth + 1)
            if inner[0] == "arr":
                return ("cat", tuple(inner[1]))
            return ("raw", "as_flattened of " + show(t[2][0], maxdepth=2))
        d = parse_digest(ctx, se, t, depth + 1)
        if d is not None:
            return d
        if t[1] in ctx.fb.bodies:
            args = tuple(bexpr(ctx, se, a, depth + 1) for a in t[2])
            # a crate-local helper whose own result is a digest of its parameters: substitute
            ch = concat_helper(ctx, t[1])
            if ch is not None:
                kind, key, k = ch
                parts = cb(args[k - 1]) if k - 1 < len(args) else None
                if parts is not None and parts[0] == "arr":
                    if kind == "H":
                        return ("H", tuple(parts[1]))
                    return ("HMAC", bsubst(key, args), tuple(parts[1]))
            hb = helper_bexpr(ctx, t[1])
            if hb is not None:
                return bsubst(hb, args)
            return ("call", t[1], args)
    RAW_TERMS[show(t, maxdepth=4)] = t        # (for rules that need the term behind a raw leaf)
    return ("raw", show(t, maxdepth=4))


_FEEDER = {}


def feeder(ctx, fn):
    """a crate function whose whole effect is to feed one of its parameters to a digest / MAC it
    received by `&mut`: ("one", data param, mac param) for `mac.update(data)`, ("each", d, m) for
    `for x in data { mac.update(x) }` (every element, in order), else None"""
    key = (id(ctx.fb), fn)
    if key in _FEEDER:
        return _FEEDER[key]
    _FEEDER[key] = None
    se = ctx.flat.run(fn)
    if se is None:
        return None
    body = se.body
    calls = [(bb, i) for bb, i in sorted(se.term_info.items()) if i.get("k") == "call"]
    ups = [(bb, i) for bb, i in calls if i["name"] in DIGEST_UPDATE + MAC_UPDATE]
    if len(ups) != 1:
        return None
    ub, ui = ups[0]
    la = ui.get("locargs", ())
    if len(la) != 2 or la[0][0] != "ref":
        return None
    m = strip(la[0][1])
    if m[0] != "param":
        return None
    loops = for_loops(ctx, se)
    x = strip(ui["args"][1])
    if not loops:
        if len(calls) == 1 and x[0] == "param" and x[1] != m[1]:
            _FEEDER[key] = ("one", x[1], m[1])
    elif len(loops) == 1:
        lp = loops[0]
        src = strip(lp["init"] or ("?",))
        others = [i["name"] for bb, i in calls if i is not ui and not (i["name"].endswith("::into_iter") or i["name"].endswith("Iterator>::next") or i["name"].endswith("<impl [T]>::iter"))]
        idom = cfg.dominators(body)
        every = all(cfg.dominates(idom, ub, t_) for t_, h_ in cfg.back_edges(body))
        if src[0] == "param" and src[1] != m[1] and "slice::Iter<" in (lp["resolved"] or "") and not others and every and x == strip(("deref", lp["elem"])):
            _FEEDER[key] = ("each", src[1], m[1])
    return _FEEDER[key]


def _fold_feeds(ctx, se, h):
    """the elements of a constant array folded into a digest / MAC state, in order, when the
    term is `array.iter().fold(state, |st, part| st.chain_update(part))` (or `update` on the
    state and returning it); else None"""
    it = strip(h[2][0])
    if it[0] == "mutref" and len(h) > 3:
        o = se.call_old.get((h[3][:2], 0)) if se is not None else None
        it = strip(o) if o is not None else it
    while is_call(it) and (it[1] in IDENT_CALLS or it[1].endswith("into_iter") or it[1] in ("core::slice::<impl [T]>::iter", "std::iter::Iterator::copied", "std::iter::Iterator::cloned", "std::array::<impl [T; N]>::iter")) and len(it[2]) == 1:
        it = strip(it[2][0])
    if not (it[0] == "agg" and it[1] == "array"):
        return None
    cl = strip(h[2][2])
    ST, PART = ("fold-state",), ("fold-part",)
    v = closure_value(ctx, cl, (ST, PART))
    if v is None:
        return None
    v = strip(v)
    if not (is_call(v) and v[1] in CHAIN_UPDATE + MAC_CHAIN and len(v[2]) == 2 and strip(v[2][0]) == ST):
        return None
    a = strip(v[2][1])
    while a[0] in ("deref", "ref", "refv") or (is_call(a) and a[1] in IDENT_CALLS and len(a[2]) == 1):
        a = strip(a[1] if a[0] in ("deref", "ref", "refv") else a[2][0])
    if a != PART:
        return None
    elems = list(it[4])
    if se is not None and len(h) > 3:
        # `[&hash, key.as_le_bytes(), ..]`: references to locals of the function are read where
        # the fold runs
        elems = [canon(ctx, se, resolve_locals(se, h[3][1], e)) for e in elems]
    return elems


def _loop_feeds(ctx, se, h):
    """h is the digest / MAC state at the head of `for part in [a, b, c] { state.update(part) }`
    (a loop over an array literal, by value or through iter()): returns (the parts in order,
    the state before the loop), else None.  The loop must do nothing else to the state, feed on
    every iteration, and have no exit but the end of the list."""
    if se is None or not (h[0] == "phi" and len(h) == 5 and h[1] == se.fn and h[4] == ()):
        return None
    import cfg as _cfg
    from rules import algos as _algos
    head = h[2]
    lps = [lp for lp in for_loops(ctx, se) if lp["next_bb"] == head]
    if len(lps) != 1:
        return None
    lp = lps[0]
    it = strip(lp["init"]) if lp["init"] is not None else ("?",)
    while is_call(it) and (it[1] in IDENT_CALLS or it[1].endswith("into_iter") or it[1] in ("core::slice::<impl [T]>::iter", "std::iter::Iterator::copied", "std::iter::Iterator::cloned", "std::array::<impl [T; N]>::iter")) and len(it[2]) == 1:
        it = strip(it[2][0])
    if not (it[0] == "agg" and it[1] == "array"):
        return None
    if not (lp["resolved"] or "").startswith(("<std::array::IntoIter<", "<std::slice::Iter<", "<std::iter::Copied<", "<std::iter::Cloned<")):
        return None
    st = _algos.loop_state(se, head).get(h[3])
    if st is None:
        return None
    init, step = st
    step = strip(step)
    if not (step[0] == "after" and is_call(step[1]) and step[1][1] in DIGEST_UPDATE + MAC_UPDATE and step[2] == 0 and strip(step[3]) == h):
        return None
    a = strip(step[1][2][1])
    while a[0] in ("deref", "ref", "refv") or (is_call(a) and a[1] in IDENT_CALLS and len(a[2]) == 1):
        a = strip(a[1] if a[0] in ("deref", "ref", "refv") else a[2][0])
    if a != strip(lp["elem"]):
        return None
    body = se.body
    loop = set()
    for e in _cfg.back_edges(body):
        if e[1] == head:
            loop |= _cfg.natural_loop(body, e)
    exits = {(b_, s_) for b_ in loop for s_ in body.succs(b_) if s_ not in loop and body.blocks[s_]["term"]["k"] != "unreachable"}
    ub = step[1][3][1]
    idom = _cfg.dominators(body)
    if exits != {(lp["switch_bb"], lp["exit_bb"])} or not all(_cfg.dominates(idom, ub, t_) for t_, h_ in _cfg.back_edges(body) if h_ == head):
        return None
    ic = lp["init_call"]
    elems = [canon(ctx, se, resolve_locals(se, ic[3][1], e)) for e in it[4]] if ic is not None and len(ic) > 3 else list(it[4])
    return elems, init


def parse_digest(ctx, se, t, depth=0):
    """SHA-1 / HMAC-SHA1 / MD5 transcript of a finalisation term, or None"""
    name = t[1]
    if name in FINAL_RESET and len(t) > 3 and se is not None:
        # `h.finalize_reset()`: the digest of what h absorbed so far (h then starts afresh)
        old = se.call_old.get((t[3][:2], 0)) if t[3] and t[3][0] == se.fn else None
        if old is None:
            return ("raw", "finalize_reset on an untracked state")
        return parse_digest(ctx, se, ("call", DIGEST_FINAL[0], (canon(ctx, se, old),), t[3]), depth)
    if name in DIGEST_FINAL:
        inputs = []
        h = t[2][0]
        # MAC finalised through FixedOutput::finalize_fixed as well
        while True:
            if is_call(h) and h[1] in CHAIN_UPDATE:
                inputs.append(h[2][1])
                h = h[2][0]
            elif h[0] == "after" and is_call(h[1]) and h[1][1] in DIGEST_UPDATE + MAC_UPDATE and h[2] == 0:
                inputs.append(h[1][2][1])
                h = h[3]
            elif is_call(h) and h[1] in MAC_CHAIN:
                inputs.append(h[2][1])
                h = h[2][0]
            elif h[0] == "after" and is_call(h[1]) and h[1][1] in FINAL_RESET and h[2] == 0:
                # the state after finalize_reset() is the state `new()` creates
                h = ("call", DIGEST_NEW[0], (), h[1][3] if len(h[1]) > 3 else ("?", -1))
                break
            elif is_call(h) and h[1].endswith("::fold") and "Iterator" in h[1] and len(h[2]) == 3 and _fold_feeds(ctx, se, h) is not None:
                # parts.iter().fold(state, |st, part| st.chain_update(part)): the parts in order
                inputs.extend(reversed(_fold_feeds(ctx, se, h)))
                h = strip(h[2][1])
            elif h[0] == "phi" and _loop_feeds(ctx, se, h) is not None:
                # for part in [a, b, c] { state.update(part) }: the parts in order
                parts_, h0_ = _loop_feeds(ctx, se, h)
                inputs.extend(reversed(parts_))
                h = canon(ctx, se, h0_)
            elif is_call(h) and h[1] == "<D as digest::Digest>::new_with_prefix" and len(h[2]) == 1:
                # new_with_prefix(x) = new().chain_update(x)
                inputs.append(h[2][0])
                h = ("call", DIGEST_NEW[0], (), h[3] if len(h) > 3 else ("?", -1))
            elif h[0] == "after" and is_call(h[1]) and h[1][1] in ctx.fb.bodies and feeder(ctx, h[1][1]) is not None and h[2] == feeder(ctx, h[1][1])[2] - 1:
                # the state handed to a crate function that feeds it one of its arguments
                kind, dpar, mpar = feeder(ctx, h[1][1])
                data = h[1][2][dpar - 1] if dpar - 1 < len(h[1][2]) else ("?",)
                if kind == "one":
                    inputs.append(data)
                else:
                    dv = strip(data)
                    if dv[0] == "agg" and dv[1] == "array":
                        inputs.extend(reversed(dv[4]))      # (the list is reversed below)
                    else:
                        inputs.append(("unknown", "elements of " + show(dv, maxdepth=2)))
                h = h[3]
            else:
                break
        inputs.reverse()
        ins = tuple(bexpr(ctx, se, x, depth + 1) for x in inputs)
        if is_call(h) and h[1] in DIGEST_NEW:
            if not digest_type_ok(ctx, h, "Sha1"):
                return ("raw", "digest of unexpected type")
            return ("H", ins)
        if is_call(h) and h[1] in UNWRAP and is_call(h[2][0]) and h[2][0][1] in MAC_NEW:
            if not digest_type_ok(ctx, h[2][0], "hmac::HmacCore<") or not digest_type_ok(ctx, h[2][0], "Sha1"):
                return ("raw", "mac of unexpected type")
            return ("HMAC", bexpr(ctx, se, h[2][0][2][0], depth + 1), ins)
        return ("raw", "digest chain does not start at new(): %s" % show(h, maxdepth=3))
    if name in MAC_FINAL:
        return parse_digest(ctx, se, ("call", DIGEST_FINAL[0], t[2], t[3]), depth)
    if name == "<D as digest::Digest>::digest":
        if not digest_type_ok(ctx, t, "Sha1"):
            return ("raw", "one-shot digest of unexpected type")
        return ("H", (bexpr(ctx, se, t[2][0], depth + 1),))
    if name == "md5::Context::compute":
        inputs = []
        h = t[2][0]
        while h[0] == "after" and is_call(h[1], "md5::Context::consume") and h[2] == 0:
            inputs.append(h[1][2][1])
            h = h[3]
        inputs.reverse()
        if is_call(h, "md5::Context::new"):
            return ("MD5", tuple(bexpr(ctx, se, x, depth + 1) for x in inputs))
        return ("raw", "md5 chain")
    return None


def show_b(b):
    k = b[0]
    if k == "P":
        return "arg%d" % b[1]
    if k == "const":
        return "const:%s" % b[1].hex()
    if k == "H":
        return "SHA1[%s]" % " | ".join(show_b(x) for x in b[1])
    if k == "HMAC":
        return "HMAC-SHA1(key=%s; %s)" % (show_b(b[1]), " | ".join(show_b(x) for x in b[2]))
    if k == "MD5":
        return "MD5[%s]" % " | ".join(show_b(x) for x in b[1])
    if k == "text":
        return "text(%s)" % show_b(b[1])
    if k in ("le", "be"):
        return "%s_%s(%s)" % (k, b[1], show_b(b[2]))
    if k == "F":
        return "%s.%d" % (show_b(b[1]), b[2])
    if k == "arr":
        return "[%s]" % ", ".join(show_b(x) for x in b[1])
    if k == "call":
        return "%s(%s)" % (b[1], ", ".join(show_b(x) for x in b[2]))
    if k == "zeros":
        return "zeros(%s)" % b[1]
    if k == "int":
        return str(b[1])
    return str(b)


def P(n):
    return ("P", n)


def loc_of(body, bb=None):
    return body.loc(bb)


def type_mentions(fb, ty, adt_path, by_value_only=True, depth=0):
    """does the type contain the ADT (not behind a reference when by_value_only)?"""
    if ty is None or depth > 8:
        return False
    k = ty.k
    if k == "adt":
        if ty.path == adt_path:
            return True
        return any(type_mentions(fb, a, adt_path, by_value_only, depth + 1) for a in ty.targs())
    if k == "ref":
        return False if by_value_only else type_mentions(fb, ty.to, adt_path, by_value_only, depth + 1)
    if k == "tuple":
        return any(type_mentions(fb, e, adt_path, by_value_only, depth + 1) for e in ty.elems)
    if k in ("array", "slice"):
        return type_mentions(fb, ty.elem, adt_path, by_value_only, depth + 1)
    return False


# --------------------------------------------------------------------------- A9: FRESH

RNG_FILL = "<rand::prelude::ThreadRng as rand::RngCore>::fill_bytes"
RNG_FILL_GENERIC = ("rand::Rng::fill", "rand::Rng::try_fill", "<rand::prelude::ThreadRng as rand::RngCore>::try_fill_bytes")
RNG_NEXT = ("<rand::prelude::ThreadRng as rand::RngCore>::next_u32", "<rand::prelude::ThreadRng as rand::RngCore>::next_u64")
RNG_SRC = ("rand::thread_rng",)


def _rng_origin_ok(ctx, callterm, argidx=0):
    site = callterm[3][:2]
    se = ctx.deep._se.get(site[0]) or ctx.wrap._se.get(site[0]) or ctx.deep.run(site[0])
    if se is None:
        return False, "no body for %s" % site[0]
    old = se.call_old.get((site, argidx))
    if old is None:
        return False, "generator operand not tracked"
    # the generator object itself may have been advanced by earlier draws (also around a
    # loop): peel those; every origin must be a thread_rng() call of this invocation
    seen = set()
    work = [strip(old)]
    while work:
        o = work.pop()
        while o[0] == "after":
            o = strip(o[3])
        if o in seen:
            continue
        seen.add(o)
        if o[0] == "phi":
            ins = se.phi_inputs.get((o[2], o[3]))
            if not ins:
                return False, "generator origin unknown (phi)"
            work.extend(strip(v) for v in ins.values())
            continue
        if is_call(o) and o[1] in RNG_SRC:
            continue
        return False, "generator is %s, not a per-call thread_rng()" % show(o, maxdepth=3)
    return True, "thread_rng() in the same invocation"


def fresh(ctx, t, depth=0):
    """(ok, why): is the value a per-call, full-width, unmodified CSPRNG output?"""
    t = strip(t)
    k = t[0]
    if depth > 8:
        return False, "too deep"
    if k == "agg":
        if not t[4]:
            return False, "empty aggregate"
        whys = []
        for x in t[4]:
            ok, why = fresh(ctx, x, depth + 1)
            if not ok:
                return False, why
            whys.append(why)
        return True, whys[0]
    if k == "after":
        c = t[1]
        if is_call(c, RNG_FILL) and t[2] == 1:
            ok, why = _rng_origin_ok(ctx, c)
            return ok, ("whole buffer filled by ThreadRng::fill_bytes; " + why) if ok else why
        if is_call(c) and c[1] in RNG_FILL_GENERIC and t[2] == 1 and digest_type_ok(ctx, c, "rand::prelude::ThreadRng"):
            # Rng::fill(&mut thread_rng, &mut buf[..]) fills the whole byte slice from the same generator
            ok, why = _rng_origin_ok(ctx, c)
            return ok, ("whole buffer filled by ThreadRng (Rng::fill); " + why) if ok else why
        return False, "last writer is %s" % (c[1] if is_call(c) else show(c, maxdepth=2))
    if k == "call":
        if t[1] in RNG_NEXT:
            ok, why = _rng_origin_ok(ctx, t)
            return ok, ("ThreadRng::%s; %s" % (t[1].split("::")[-1], why)) if ok else why
        if t[1] == "rand::random":
            return True, "rand::random (thread_rng, full width of the type)"
        return False, "value comes from %s" % t[1]
    if k == "upd":
        return False, "partially overwritten value (%s)" % show(t, maxdepth=2)
    return False, "not a CSPRNG output: %s" % show(t, maxdepth=3)


def check_gate(rep, body, fn, eq_edge, ne_edge, accept_blocks, reject_blocks, what):
    """A1: accept blocks only behind the equal edge, reject blocks only behind the unequal edge"""
    bad = [bi for bi in accept_blocks if not cfg.must_pass_edge(body, eq_edge, bi)]
    rep.check(bool(accept_blocks) and not bad, "gate", fn, "accept-only-on-equal", "every path to %s crosses the equal edge bb%d->bb%d" % (what, eq_edge[0], eq_edge[1]),
              "a path reaches the construction of %s (bb%s) without crossing the equal edge of the proof comparison" % (what, bad), body.loc(bad[0]) if bad else body.loc())
    bad = [bi for bi in reject_blocks if not cfg.must_pass_edge(body, ne_edge, bi)]
    rep.check(bool(reject_blocks) and not bad, "gate", fn, "reject-only-on-unequal", "Err only behind the unequal edge", "Err is constructed on a path that does not cross the unequal edge (bb%s)" % bad, body.loc())


def calls_in(body, pred):
    return [bi for bi, t in body.calls() if pred(t)]


LEN_CALLS = ("core::slice::<impl [T]>::len", "core::str::<impl str>::len", "std::vec::Vec::<T, A>::len", "core::array::<impl [T; N]>::len")


def numnorm(t):
    """stripped term with constant casts folded and length calls as ("len", x)"""
    t = strip(t)
    k = t[0]
    if k == "cast" and t[1] == "IntToInt":
        inner = numnorm(t[2])
        if inner[0] == "int":
            return ("int", inner[1], t[3])
        return ("cast", t[1], inner, t[3])
    if k == "call" and t[1] in LEN_CALLS:
        return ("len", numnorm(t[2][0]))
    if k == "call" and len(t[2]) == 1 and (t[1].startswith("std::convert::num::<impl std::convert::From<u") or t[1].startswith("core::convert::num::<impl std::convert::From<u") or t[1] == "<T as std::convert::Into<U>>::into"):
        # lossless widening of a constant: u32::from(10_u8)
        inner = numnorm(t[2][0])
        if inner[0] == "int" and " for " in t[1]:
            return ("int", inner[1], t[1].split(" for ")[-1].split(">")[0])
        if " for " in t[1] and t[1].split(" for ")[-1].split(">")[0] in ("u16", "u32", "u64", "u128", "usize"):
            # `usize::from(x)`: x at the wider type
            return ("cast", "IntToInt", inner, t[1].split(" for ")[-1].split(">")[0])
    if k == "call" and t[1] in UNWRAP and t[2] and is_call(strip(t[2][0])) and "TryFrom<" in strip(t[2][0])[1] and strip(t[2][0])[1].endswith("::try_from") and " for " in strip(t[2][0])[1] and len(strip(t[2][0])[2]) == 1:
        # `uN::try_from(x).unwrap()` / `.expect(..)`: where it returns at all, x at the narrower type
        tf = strip(t[2][0])
        tgt = tf[1].split(" for ")[-1].split(">")[0]
        if tgt in ("u8", "u16", "u32", "u64", "usize"):
            inner = numnorm(tf[2][0])
            if inner[0] == "int":
                return ("int", inner[1], tgt)
            return ("cast", "IntToInt", inner, tgt)
    if k == "binop":
        return ("binop", t[1], numnorm(t[2]), numnorm(t[3]))
    if k == "unop":
        return ("unop", t[1], numnorm(t[2]))
    if k == "field" and t[2] == 0 and t[1][0] == "downcast" and t[1][2] == 0 and is_call(t[1][1]) and "TryFrom<" in t[1][1][1] and t[1][1][1].endswith("::try_from") and " for " in t[1][1][1]:
        # the Ok payload of `uN::try_from(x)`: x itself, at the narrower type (read on the Ok arm only)
        tgt = t[1][1][1].split(" for ")[-1].split(">")[0]
        if tgt in ("u8", "u16", "u32", "u64", "usize"):
            return ("cast", "IntToInt", numnorm(t[1][1][2][0]), tgt)
    if k == "field" and t[2] == 0 and t[1][0] == "downcast" and t[1][2] == 1 and is_call(strip(t[1][1])):
        # the Some payload of `opt.filter(pred)` is opt's own payload (filter only decides whether
        # there is one), and the Some payload of `res.ok()` is res's Ok payload
        o_ = strip(t[1][1])
        if o_[1] == "std::option::Option::<T>::filter" and len(o_[2]) == 2:
            return numnorm(("field", ("downcast", strip(o_[2][0]), 1), 0))
        if o_[1] == "std::result::Result::<T, E>::ok" and len(o_[2]) == 1:
            return numnorm(("field", ("downcast", strip(o_[2][0]), 0), 0))
    if k == "field":
        return ("field", numnorm(t[1])) + t[2:]
    return t


def int_test(d, unsigned=False):
    """A boolean term that compares something with an integer constant, in any spelling
    (`x < c`, `c > x`, `x <= c - 1`, `!(x >= c)`, and for unsigned x: `x != 0`, `x > 0`, `x >= 1`),
    as the interval it is true on: (subject, lo, hi) with d <=> lo <= subject <= hi and None for
    an open end; None when d is not of that form (or is two-sided and negated)."""
    x = numnorm(d)
    neg = False
    while x[0] == "unop" and x[1] == "Not":
        neg = not neg
        x = numnorm(x[2])
    if x[0] != "binop" or x[1] not in ("Lt", "Le", "Gt", "Ge", "Eq", "Ne"):
        return None
    op, a, b = x[1], x[2], x[3]
    if a[0] == "int" and b[0] != "int":
        a, b = b, a
        op = {"Lt": "Gt", "Le": "Ge", "Gt": "Lt", "Ge": "Le", "Eq": "Eq", "Ne": "Ne"}[op]
    if b[0] != "int" or a[0] == "int":
        return None
    c = b[1]
    if op == "Lt":
        lo, hi = None, c - 1
    elif op == "Le":
        lo, hi = None, c
    elif op == "Gt":
        lo, hi = c + 1, None
    elif op == "Ge":
        lo, hi = c, None
    elif op == "Eq":
        if unsigned and c == 0:
            lo, hi = None, 0
        else:
            lo, hi = c, c
    else:
        if unsigned and c == 0:
            lo, hi = 1, None
        else:
            return None
    if neg:
        if lo is None and hi is not None:
            lo, hi = hi + 1, None
        elif hi is None and lo is not None:
            lo, hi = None, lo - 1
        else:
            return None
    if unsigned and lo is not None and lo <= 0:
        lo = None
    if unsigned and hi is not None and hi < 0:
        return None
    if lo is None and hi is None:
        return None
    return (a, lo, hi)


def byte_predicate_true_set(d, is_subject):
    """d is a boolean term over one byte (the subterms is_subject accepts): the set of byte
    values for which it is true, by evaluating the term for each of the 256 values (constant
    folding only - nothing is run); None when some value does not fold to a boolean"""
    from symex import fold_consts
    d = strip(d)
    out = set()

    def sub(t, v):
        if not isinstance(t, tuple) or not t or not isinstance(t[0], str):
            return t
        if t[0] in ("index", "cindex", "field", "deref", "local", "param", "phi", "call", "after") and is_subject(t):
            return ("int", v, "u8")
        if t[0] in ("int", "bytes", "phi"):
            return t
        return tuple(sub(x, v) if isinstance(x, tuple) and x and isinstance(x[0], str) else (tuple(sub(y, v) for y in x) if isinstance(x, tuple) and x and isinstance(x[0], tuple) else x) for x in t)

    for v in range(256):
        r = fold_consts(sub(d, v))
        if r[0] == "unop" and r[1] == "Not":
            r = fold_consts(r)
        if not (r[0] == "int" and len(r) > 2 and r[2] == "bool"):
            return None
        if r[1]:
            out.add(v)
    return out


def eval_closure_at(ctx, cpath, value, ty="usize", param=2):
    """the value a loop-free closure returns when its argument (parameter `param`) is the constant
    `value`: every branch of the body is decided by folding its test at that value (nothing is
    run), the body restricted to the chosen arms is evaluated again, and its result folded.
    None when a test does not fold."""
    from symex import fold_consts
    import cfg as _cfg
    fb = ctx.fb
    base = ctx.flat.run(cpath)
    if base is None or _cfg.back_edges(base.body):
        return None

    def at(t):
        return fold_consts(map_term(strip(t), lambda x: ("int", value, ty) if x == ("param", param) else None))

    keep = {}
    for bb, info in base.term_info.items():
        if info.get("k") != "switch":
            continue
        d = at(info["discr"])
        if d[0] != "int":
            return None
        keep[bb] = dict(info["targets"]).get(d[1], info["otherwise"])
    vn = fb.pruned(cpath, "at%s" % value, keep) if keep else cpath
    vse = ctx.flat.run(vn) if vn else None
    if vse is None or any(i.get("k") == "switch" for i in vse.term_info.values()):
        return None
    return at(vse.ret)


def strip_int_conversions(t):
    """the integer under value-preserving-or-panicking conversions: `x as uN`,
    `uN::try_from(x).unwrap() / .expect(..)`, `uN::from(x)` / `x.into()` between integers.
    (`as` may truncate: callers use this where the value is compared as an index / position
    whose width they decide separately.)"""
    while True:
        t = strip(t)
        if t[0] == "cast" and t[1] == "IntToInt":
            t = t[2]
        elif is_call(t) and t[1] in UNWRAP and t[2] and is_call(strip(t[2][0])) and "TryFrom<" in strip(t[2][0])[1] and strip(t[2][0])[1].endswith("::try_from") and strip(t[2][0])[1].split(" for ")[-1].split(">")[0] in ("u8", "u16", "u32", "u64", "usize"):
            t = strip(t[2][0])[2][0]
        elif is_call(t) and len(t[2]) == 1 and (t[1].startswith("std::convert::num::<impl std::convert::From<u") or t[1].startswith("core::convert::num::<impl std::convert::From<u")):
            t = t[2][0]
        else:
            return t


# --------------------------------------------------------------------------- for-loops

def for_loops(ctx, se):
    """`for x in <iter>` loops of a body as MIR lowers them: into_iter / next / discriminant.
    Returns dicts: next_bb, iter_local, init (term given to into_iter, stripped), init_call,
    elem (term of the Some payload), body_bb (Some target), exit_bb (None target)."""
    body = se.body
    out = []
    for bb, t in body.calls():
        if t.get("callee") != "std::iter::Iterator::next":
            continue
        info = se.term_info.get(bb)
        if info is None:
            continue
        nxt = t["target"]
        sw = se.term_info.get(nxt)
        if not sw or sw.get("k") != "switch" or strip(sw["discr"])[0] != "discr":
            continue
        tg = dict(sw["targets"])
        if 1 not in tg or 0 not in tg:
            continue
        # the iterator object: pointee of the &mut argument
        a0 = info["locargs"][0] if "locargs" in info else None
        it_loc = a0[1] if a0 and a0[0] == "ref" else None
        init = None
        init_call = None
        if it_loc and it_loc[0] == "local":
            ph = se.in_state.get(bb, {}).get(it_loc)
            cand = []
            if ph is not None and ph[0] == "phi":
                cand = list(se.phi_inputs.get((ph[2], ph[3]), {}).values())
            elif ph is not None:
                cand = [ph]
            for c in cand:
                c = strip(c)
                if is_call(c) and c[1].endswith("into_iter"):
                    init_call = c
                    init = c[2][0]
                    if init[0] == "mutref" and len(c) > 3:
                        # `for x in data` on a re-borrowed `&mut [T]` (a parameter handed on to a
                        # helper that loops over it): the place that is borrowed
                        ii = se.term_info.get(c[3][1], {})
                        la = ii.get("locargs")
                        if la and la[0][0] == "ref" and strip(la[0][1])[0] == "param":
                            init = strip(la[0][1])
                            init_call = (c[0], c[1], (init,) + tuple(c[2][1:])) + tuple(c[3:])
        elem = ("field", ("downcast", info["term"], 1), 0)
        out.append({"next_bb": bb, "switch_bb": nxt, "iter_loc": it_loc, "init": init, "init_call": init_call, "elem": elem, "body_bb": tg[1], "exit_bb": tg[0], "resolved": t.get("resolved"),
                    "only_exit": loop_exits(body, bb) == {(nxt, tg[0])}})
    return out


def loop_exits(body, head):
    """the edges that leave the loop whose header is `head` (edges into `unreachable` blocks - the
    panic side of an assertion - left aside).  A `for` loop that runs all its rounds has exactly
    one: from the switch on `next()` to the None target; a `break` / `return` inside adds another."""
    import cfg as _cfg
    loop = set()
    for e in _cfg.back_edges(body):
        if e[1] == head:
            loop |= _cfg.natural_loop(body, e)
    return {(b_, s_) for b_ in loop for s_ in body.succs(b_) if s_ not in loop and body.blocks[s_]["term"]["k"] != "unreachable"}


def frame_of(ctx, path, param=1, depth=0):
    """A11: the set of top-level fields of the pointee of `param` that the function may
    modify (through direct stores or callees), or None for 'all of it'.  Empty set = read-only."""
    se = ctx.wrap.run(path)
    if se is None or depth > 6:
        return None
    eff = se.param_effects().get(param)
    if eff is None:
        return set()
    fields = set()
    t = eff
    while True:
        if t[0] == "upd" and t[2][0] == "f":
            fields.add(t[2][1])
            t = t[1]
            continue
        if t[0] == "after" and is_call(t[1]) and t[1][1] in ctx.fb.bodies:
            inner = frame_of(ctx, t[1][1], t[2] + 1, depth + 1)
            if inner is None:
                return None
            fields |= inner
            t = t[3]
            continue
        break
    if t != ("deref", ("param", param)):
        return None
    return fields


# --------------------------------------------------------------------------- digest helpers

_helper_cache = {}


def has_raw(b):
    if not isinstance(b, tuple):
        return False
    if b and b[0] == "raw":
        return True
    return any(has_raw(x) for x in b[1:] if isinstance(x, tuple)) or any(has_raw(y) for x in b[1:] if isinstance(x, tuple) for y in x if isinstance(y, tuple))


def is_digest_expr(b):
    return isinstance(b, tuple) and b and b[0] in ("H", "HMAC", "MD5")


def helper_bexpr(ctx, fn):
    """byte expression of a crate-local helper's result over its parameters, when the result is
    a digest (possibly nested) of them: such a helper is a transparent part of its caller's
    transcript"""
    key = (id(ctx), fn)
    if key in _helper_cache:
        return _helper_cache[key]
    _helper_cache[key] = None
    se = ctx.wrap.run(fn)
    res = None
    if se is not None and se.ret is not None and se.ret[0] != "phi":
        b = bexpr(ctx, se, se.ret)
        if is_digest_expr(b) and not has_raw(b):
            res = b
    _helper_cache[key] = res
    return res


def bsubst(b, args):
    if not isinstance(b, tuple) or not b:
        return b
    k = b[0]
    if k == "P":
        return args[b[1] - 1] if b[1] - 1 < len(args) else b
    if k in ("H", "MD5"):
        return (k, tuple(bsubst(x, args) for x in b[1]))
    if k == "HMAC":
        return ("HMAC", bsubst(b[1], args), tuple(bsubst(x, args) for x in b[2]))
    if k == "call":
        return ("call", b[1], tuple(bsubst(x, args) for x in b[2]))
    if k == "text":
        return ("text", bsubst(b[1], args))
    if k in ("le", "be"):
        return (k, b[1], bsubst(b[2], args))
    if k == "arr":
        return ("arr", tuple(bsubst(x, args) for x in b[1]))
    if k == "F":
        return ("F", bsubst(b[1], args), b[2])
    return b


def concat_helper(ctx, fn):
    """fn is `h = Sha1::new() | Hmac::new_from_slice(key).unwrap(); for p in parts { h.update(p) };
    h.finalize..()`  ->  ("H", None, parts_param) | ("HMAC", key bexpr, parts_param)"""
    key = (id(ctx), "concat", fn)
    if key in _helper_cache:
        return _helper_cache[key]
    _helper_cache[key] = None
    se = ctx.wrap.run(fn)
    if se is None or se.ret is None:
        return None
    r = strip(se.ret)
    while is_call(r) and (r[1] in IDENT_CALLS):
        r = strip(r[2][0])
    if not (is_call(r) and r[1] in DIGEST_FINAL + MAC_FINAL):
        return None
    h = r[2][0]
    if is_call(h) and h[1].endswith("::fold") and len(h[2]) == 3:
        # parts.iter().fold(h0, |h, p| h.chain_update(p)): every part fed in order
        it, i0, cl = strip(h[2][0]), strip(h[2][1]), h[2][2]
        while is_call(it) and it[1].split("::")[-1] in ("iter", "into_iter", "copied", "cloned"):
            it = strip(it[2][0])
        ok_cl = False
        if cl[0] == "agg" and cl[1] == "closure" and not cl[4]:
            cse = ctx.flat.run(cl[2])
            if cse is not None and not cfg.back_edges(cse.body):
                cr = strip(cse.ret)
                ok_cl = is_call(cr) and cr[1] in CHAIN_UPDATE + MAC_CHAIN and tuple(cr[2]) == (("param", 2), ("param", 3)) and sum(1 for i_ in cse.term_info.values() if i_.get("k") == "call") == 1
        if not ok_cl or it[0] != "param":
            return None
        res = None
        if is_call(i0) and i0[1] in DIGEST_NEW and digest_type_ok(ctx, i0, "Sha1"):
            res = ("H", None, it[1])
        elif is_call(i0) and i0[1] in UNWRAP and is_call(i0[2][0]) and i0[2][0][1] in MAC_NEW and digest_type_ok(ctx, i0[2][0], "hmac::HmacCore<"):
            res = ("HMAC", bexpr(ctx, se, i0[2][0][2][0]), it[1])
        _helper_cache[key] = res
        return res
    if h[0] != "phi" or h[1] != se.fn:
        return None
    loops = for_loops(ctx, se)
    if len(loops) != 1 or loops[0]["next_bb"] != h[2] or len(cfg.back_edges(se.body)) != 1:
        return None
    lp = loops[0]
    ins = list(se.phi_inputs.get((h[2], h[3]), {}).values())
    if len(ins) != 2:
        return None
    init = [v for v in ins if not any(x == h for x in walk(v))]
    step = [v for v in ins if any(x == h for x in walk(v))]
    if len(init) != 1 or len(step) != 1:
        return None
    st = step[0]
    if not (st[0] == "after" and is_call(st[1]) and st[1][1] in DIGEST_UPDATE + MAC_UPDATE and st[2] == 0 and st[3] == h):
        return None
    fed = strip(st[1][2][1])
    if fed != strip(lp["elem"]):
        return None
    src = strip(lp["init"]) if lp["init"] is not None else None
    while src is not None and is_call(src) and src[1].split("::")[-1] in ("iter", "into_iter"):
        src = strip(src[2][0])
    if src is None or src[0] != "param":
        return None
    i0 = strip(init[0])
    res = None
    if is_call(i0) and i0[1] in DIGEST_NEW and digest_type_ok(ctx, i0, "Sha1"):
        res = ("H", None, src[1])
    elif is_call(i0) and i0[1] in UNWRAP and is_call(i0[2][0]) and i0[2][0][1] in MAC_NEW and digest_type_ok(ctx, i0[2][0], "hmac::HmacCore<"):
        res = ("HMAC", bexpr(ctx, se, i0[2][0][2][0]), src[1])
    _helper_cache[key] = res
    return res


# --------------------------------------------------------------------------- verdict helpers

_verdict_cache = {}
BRANCH = "<std::result::Result<T, E> as std::ops::Try>::branch"


def verdict_helper(ctx, fn):
    """crate-local `fn(a, b) -> Result<(), E>` (or bool) whose outcome is decided by one
    whole-value equality of two of its parameters: returns dict(i, j, kind, err_fields) where
    err_fields maps an error field name to the parameter it carries; None otherwise"""
    key = (id(ctx), fn)
    if key in _verdict_cache:
        return _verdict_cache[key]
    _verdict_cache[key] = None
    b = ctx.fb.body(fn)
    if b is None or b.kind not in ("Fn", "AssocFn") or "output" not in b.d:
        return None
    out = ctx.fb.ty(b.d["output"])
    is_res = out.k == "adt" and out.path == "std::result::Result"
    is_bool = out.k == "bool"
    if not (is_res or is_bool):
        return None
    se = ctx.wrap.run(fn)
    if se is None:
        return None
    cmps = compare_sites(ctx, se)
    if len(cmps) != 1:
        return None
    c = cmps[0]
    ops = [canon(ctx, se, a) for a in c["args"]]
    if not all(o[0] == "param" for o in ops) or ops[0] == ops[1]:
        return None
    ok, why = whole_value_type(ctx.fb, c["self_ty"])
    if not ok or (c["rhs_ty"] is not None and c["rhs_ty"].s != c["self_ty"].s):
        return None
    res = {"i": ops[0][1], "j": ops[1][1], "kind": "result" if is_res else "bool", "err_fields": {}, "why": why}
    if is_bool:
        r = strip(se.ret)
        neg = False
        while r[0] == "unop" and r[1] == "Not":
            neg = not neg
            r = r[2]
        if r != strip(c["term"]) or ((c["op"] == "eq") == neg):
            return None
    else:
        g = compare_gate(ctx, se, c)
        if g is None:
            return None
        sw, eq_edge, ne_edge = g
        body = se.body
        oks = [bi for bi, _, _ in blocks_constructing(body, "std::result::Result", "Ok")]
        errs = blocks_constructing(body, "std::result::Result", "Err")
        if not oks or not errs:
            return None
        if not all(cfg.must_pass_edge(body, eq_edge, o) for o in oks):
            return None
        if not all(cfg.must_pass_edge(body, ne_edge, bi) for bi, _, _ in errs):
            return None
        # error payload: an aggregate whose fields are (canonically) the two parameters
        for (bi, si), (loc, v) in se.assigns.items():
            if v[0] == "agg" and v[1] == "adt" and v[2] != "std::result::Result" and ctx.fb.adts.get(v[2]):
                names = [f["name"] for f in ctx.fb.adt_fields(v[2])]
                for nme, op in zip(names, v[4]):
                    co = canon(ctx, se, op)
                    if co[0] == "param":
                        res["err_fields"][nme] = co[1]
                res["err_adt"] = v[2]
    _verdict_cache[key] = res
    return res


def proof_decisions(ctx, se):
    """every decision of a body that is a whole-value comparison of two values, made inline
    (`==` / `!=` + branch) or delegated to a verdict helper.  Each: dict(ops (canonical pair),
    whole (ok, why), bb, eq_edge, ne_edge, err_fields {name: canonical term} | None, via)"""
    out = []
    body = se.body
    for c in compare_sites(ctx, se):
        ok, why = whole_compare(ctx, c)
        same = True
        g = compare_gate(ctx, se, c)
        out.append({"ops": [canon(ctx, se, resolve_locals(se, c["bb"], a)) for a in c["args"]], "whole": (ok and same, why), "bb": c["bb"], "eq_edge": g[1] if g else None, "ne_edge": g[2] if g else None, "err_fields": None, "via": "inline", "term": c["term"], "op": c["op"]})
    inline_bbs = {d["bb"] for d in out}
    for bb, info in se.term_info.items():
        if info.get("k") != "call" or info["name"] not in ctx.fb.bodies or bb in inline_bbs:
            continue
        b_ = ctx.fb.bodies[info["name"]]
        if b_.derived() or b_.d.get("impl_trait") in ("std::cmp::PartialEq", "core::cmp::PartialEq"):
            continue  # `==` itself (a PartialEq impl) is an inline comparison, not a helper
        vh = verdict_helper(ctx, info["name"])
        if vh is None:
            continue
        a = info["args"]
        ops = [canon(ctx, se, a[vh["i"] - 1]), canon(ctx, se, a[vh["j"] - 1])]
        T = strip(info["term"])
        eq_edge = ne_edge = None
        for sb, si in se.term_info.items():
            if si.get("k") != "switch":
                continue
            d = strip(si["discr"])
            if vh["kind"] == "result":
                hit = d == ("discr", T) or (d[0] == "discr" and is_call(d[1], BRANCH) and strip(d[1][2][0]) == T)
                if hit:
                    tg = dict(si["targets"])
                    if 0 in tg:
                        eq_edge = (sb, tg[0])
                        ne_edge = (sb, tg.get(1, si["otherwise"]))
            else:
                neg = False
                while d[0] == "unop" and d[1] == "Not":
                    neg = not neg
                    d = d[2]
                if d == T and len(si["targets"]) == 1 and si["targets"][0][0] == 0:
                    t_true, t_false = si["otherwise"], si["targets"][0][1]
                    eq_edge, ne_edge = ((sb, t_false), (sb, t_true)) if neg else ((sb, t_true), (sb, t_false))
        ef = {n: canon(ctx, se, a[k - 1]) for n, k in vh["err_fields"].items()} if vh["kind"] == "result" else None
        out.append({"ops": ops, "whole": (True, vh["why"] + " (in %s)" % info["name"]), "bb": bb, "eq_edge": eq_edge, "ne_edge": ne_edge, "err_fields": ef, "via": info["name"], "term": info["term"], "op": "eq"})
    return out


# ----------------------------------------------------------------------------- value-level decisions

def map_term(t, f):
    """rebuild t bottom-up, applying f to every sub-term (f returns a replacement or None)"""
    if not isinstance(t, tuple) or not t or not isinstance(t[0], str):
        return t
    r = f(t)
    if r is not None:
        return r
    out = [t[0]]
    for x in t[1:]:
        if isinstance(x, tuple) and x and isinstance(x[0], str):
            out.append(map_term(x, f))
        elif isinstance(x, tuple):
            out.append(tuple(map_term(y, f) if isinstance(y, tuple) and y and isinstance(y[0], str) else y for y in x))
        else:
            out.append(x)
    return tuple(out)


def closure_value(ctx, cl, args=()):
    """value of calling the closure aggregate `cl` (captures substituted; `args` are the call
    arguments after the environment), or None when the body is not a straight-line value"""
    if not (cl[0] == "agg" and cl[1] == "closure"):
        return None
    cse = ctx.flat.run(cl[2])
    if cse is None or cfg.back_edges(cse.body):
        return None
    from symex import pure_body
    if not pure_body(cse):
        return None     # the closure also writes through a captured reference
    caps = cl[4]

    def f(t):
        if t[0] == "field" and isinstance(t[2], int) and t[1] in (("param", 1), ("deref", ("param", 1))) and t[2] < len(caps):
            return caps[t[2]]
        if t[0] == "param" and t[1] >= 2 and t[1] - 2 < len(args):
            return args[t[1] - 2]
        if t[0] == "param" and t[1] == 1:
            return ("closure-env",)
        return None

    from symex import fold_consts
    r = fold_consts(map_term(cse.ret, f))
    if any(x == ("closure-env",) or x[0] in ("phi", "param") and x[0] == "phi" for x in walk(r)):
        return None
    return r


def value_before_terminator(se, bb, loc):
    """value of a local at the terminator of block bb (the state at block entry updated by the
    block's own whole-local assignments)"""
    v = se.read(se.in_state.get(bb, {}), loc)
    for (bi, si), (l_, val) in sorted(se.assigns.items()):
        if bi == bb and l_ == loc:
            v = val
    return v


def resolve_locals(se, bb, t):
    """replace places of the enclosing function that a closure captured by reference
    (("local", n) left over after stripping the reference) by their value at block bb"""
    st = se.in_state.get(bb, {})
    # what the block's own statements assign before its terminator (`let h = payload; &h == p`
    # inside one match arm) comes after the state at block entry
    here = {}
    for (bi, si), (loc, v) in sorted(se.assigns.items()):
        if bi != bb:
            continue
        if loc[0] == "local":
            here[loc] = v
        else:
            root = loc
            while root[0] in ("field", "index", "cindex", "subslice", "downcast"):
                root = root[1]
            if root[0] == "local":
                here[root] = ("unknown", "partly overwritten in bb%d" % bb)

    def f(x):
        if x[0] == "local":
            if x in here:
                return strip(here[x])
            return strip(se.read(st, x))
        if x[0] == "phi":
            return x                 # the ("local", n) inside a phi names the phi, it is not a place
        return None

    return map_term(strip(t), f)


def value_select(ctx, se, t):
    """combinator spellings of `if c { Ok(x) } else { Err(e) }`:
    c.then(|| x).ok_or(e), c.then_some(x).ok_or(e), ...ok_or_else(|| e).
    Returns (c, x, e) or None."""
    t = strip(t)
    if not is_call(t):
        return None
    short = t[1].split("::")[-1]
    if t[1].startswith("std::option::Option::<T>::") and short in ("ok_or", "ok_or_else"):
        opt = strip(t[2][0])
        e = t[2][1] if short == "ok_or" else closure_value(ctx, t[2][1])
        if e is None or not is_call(opt) or not opt[1].startswith("core::bool::<impl bool>::"):
            return None
        s2 = opt[1].split("::")[-1]
        x = closure_value(ctx, opt[2][1]) if s2 == "then" else opt[2][1] if s2 == "then_some" else None
        if x is None:
            return None
        return opt[2][0], x, e
    return None


# ----------------------------------------------------------------------------- shared obligations

class Refile:
    """Reporter adapter: runs another property's rule and files the selected obligations
    (by rule name and by function) under a rule of the calling property.  Used where a clause
    of one property has, as a necessary condition, something another property's rule decides."""

    def __init__(self, rep, rule, keep_rules=None, fn_pred=None):
        self.rep, self.rule, self.keep, self.fn_pred = rep, rule, keep_rules, fn_pred
        self.stats = {}

    def _take(self, rule, fn):
        if self.keep is not None and rule not in self.keep:
            return False
        if self.fn_pred is not None and not self.fn_pred(fn or ""):
            return False
        return True

    def check(self, cond, rule, fn, role, a, b, loc=None):
        if self._take(rule, fn):
            return self.rep.check(cond, self.rule, fn, rule + ":" + role, a, b, loc)

    def violation(self, rule, fn, role, d, loc=None):
        if self._take(rule, fn):
            return self.rep.violation(self.rule, fn, rule + ":" + role, d, loc)

    def ok(self, rule, fn, role, d="", loc=None):
        if self._take(rule, fn):
            return self.rep.ok(self.rule, fn, rule + ":" + role, d, loc)

    def undecided(self, rule, fn, role, d, loc=None):
        if self._take(rule, fn):
            return self.rep.undecided(self.rule, fn, rule + ":" + role, d, loc)


def option_pipeline(ctx, se, t):
    """`Some(v0).filter(p).map(f)...`: returns (v0, [("guard", condition term) | ("value", term)])
    with every closure evaluated on the value flowing through (closures must be pure), or None.
    The result is Some(last value) exactly when every guard holds, evaluated in order - a
    `map` closure runs only if the guards before it held."""
    t = strip(t)
    chain = []
    while is_call(t) and t[1].startswith("std::option::Option::<T>::") and t[1].split("::")[-1] in ("filter", "map") and len(t[2]) == 2:
        mi = se.term_info.get(t[3][1], {})
        cl = mi["args"][1] if mi.get("k") == "call" and len(mi.get("args", ())) == 2 else t[2][1]
        chain.append((t[1].split("::")[-1], cl, t[3][1]))
        t = strip(t[2][0])
    if not (t[0] == "agg" and t[2] == "std::option::Option" and t[3] == 1 and len(t[4]) == 1) or not chain:
        return None
    chain.reverse()
    v = t[4][0]
    steps = []
    for kind, cl, bb in chain:
        if kind == "filter":
            c = closure_value(ctx, cl, (("refv", v),))
            if c is None:
                return None
            steps.append(("guard", resolve_locals(se, bb, c)))
        else:
            nv = closure_value(ctx, cl, (v,))
            if nv is None:
                return None
            v = resolve_locals(se, bb, nv)
            steps.append(("value", v))
    return t[4][0], steps


def unwrap_try(se, t, depth=0):
    """the value `x?` continues with when x is (a join of) Ok(y) and propagated errors: y.
    t = ((Try::branch(X) as Continue).0); X = Ok{y} or a phi whose only Ok input is Ok{y}."""
    if depth > 4:
        return t
    if t[0] == "field" and t[2] == 0 and t[1][0] == "downcast" and t[1][2] == 0 and is_call(t[1][1], BRANCH):
        x = t[1][1][2][0]
        oks = []
        if x[0] == "agg" and x[2] == "std::result::Result" and x[3] == 0:
            oks = [x[4][0]]
        elif x[0] == "phi" and x[1] == se.fn and (x[2], x[3]) in se.phi_inputs:
            for v in se.phi_inputs[(x[2], x[3])].values():
                if v[0] == "agg" and v[2] == "std::result::Result" and v[3] == 0:
                    oks.append(v[4][0])
                elif v[0] == "agg" and v[2] == "std::result::Result" and v[3] == 1:
                    continue
                elif is_call(v) and "FromResidual" in v[1]:
                    continue
                else:
                    return t
        if len(oks) == 1:
            return unwrap_try(se, oks[0], depth + 1)
    return t


# --------------------------------------------------------------------------- copies keep the value

def _eta(fb, t):
    """a copy spelled field by field is the value itself: T{x.0, x.1.clone(), ..} -> x"""
    t = strip(t)
    while is_call(t) and (t[1] in IDENT_CALLS or t[1].endswith(" as std::clone::Clone>::clone") or t[1].endswith("std::clone::Clone::clone") or "impl std::clone::Clone for" in t[1]) and len(t[2]) == 1:
        t = strip(t[2][0])
    if t[0] == "agg" and t[1] == "adt" and t[2] in fb.adts and (fb.adts[t[2]] or {}).get("kind") == "Struct":
        fs = fb.adt_fields(t[2]) or []
        parts = [_eta(fb, x) for x in t[4]]
        if parts and len(parts) == len(fs) and all(x[0] == "field" and x[2] == i for i, x in enumerate(parts)) and len({x[1] for x in parts}) == 1:
            return parts[0][1]
    if t[0] == "agg" and t[1] == "array" and t[4]:
        parts = [_eta(fb, x) for x in t[4]]
        if all(x[0] == "cindex" and x[2] == i and not x[3] for i, x in enumerate(parts)) and len({x[1] for x in parts}) == 1:
            return parts[0][1]
    return t


def clone_verdict(ctx, adt):
    """(body path, body, good, why) for the `Clone` impl of a local type, None when the type is not
    Clone.  good: derived, or a hand-written copy whose field i is (a copy of) field i."""
    fb = ctx.fb
    cache = ctx.__dict__.setdefault("_clone_verdicts", {})
    if adt in cache:
        return cache[adt]
    name = "<%s as std::clone::Clone>::clone" % adt
    b = fb.bodies.get(name)
    if b is None:
        cands = [p_ for p_ in fb.bodies if p_.startswith("<" + adt) and p_.endswith(" as std::clone::Clone>::clone")]
        b = fb.bodies.get(cands[0]) if len(cands) == 1 else None
        name = cands[0] if len(cands) == 1 else name
    if b is None:
        cache[adt] = None
        return None
    if b.derived():
        cache[adt] = (name, b, True, "derive(Clone): field-wise")
        return cache[adt]
    good = False
    why = "hand-written Clone not understood"
    nf = len(fb.adt_fields(adt) or [])
    for eng in ("wrap", "deep"):
        se = getattr(ctx, eng).run(name)
        if se is None:
            continue
        r = strip(se.ret)
        if _eta(fb, r) in (("param", 1), ("deref", ("param", 1))):
            good, why = True, "hand-written Clone copies every field to its own place"
            break
        if r[0] == "agg" and r[1] == "adt" and r[2] == adt and len(r[4]) == nf:
            bad = []
            for i, x in enumerate(r[4]):
                y = _eta(fb, x)
                if y != ("field", ("param", 1), i):
                    bad.append((i, show(x, maxdepth=3)))
            good = not bad
            why = "hand-written Clone copies every field to its own place" if good else "hand-written Clone gives field %s the value %s" % (fb.adt_fields(adt)[bad[0][0]]["name"], bad[0][1])
            if good:
                break
    if good:
        # an overridden `clone_from` is a second way to copy: afterwards *self must be the source,
        # field for field
        cf = name[:-len("clone")] + "clone_from"
        if cf in fb.bodies and not fb.bodies[cf].derived():
            ok_cf, why_cf = _clone_from_faithful(ctx, adt, cf, nf)
            if not ok_cf:
                good, why = False, "clone_from: " + why_cf
            else:
                why += "; clone_from leaves every field equal to the source's"
    cache[adt] = (name, b, good, why)
    return cache[adt]


def _clone_from_faithful(ctx, adt, cf, nf):
    fb = ctx.fb
    for eng in ("wrap", "deep"):
        se = getattr(ctx, eng).run(cf)
        if se is None:
            continue
        eff = se.param_effects().get(1)
        if eff is None:
            return False, "does not write *self"
        t = strip(eff)
        vals = {}
        while t[0] == "upd" and t[2][0] == "f":
            vals.setdefault(t[2][1], t[3])
            t = strip(t[1])
        whole = _eta(fb, t)
        if whole in (("param", 2), ("deref", ("param", 2))):
            base_ok = True
        elif t in (("deref", ("param", 1)), ("param", 1)):
            base_ok = len(vals) == nf
        elif t[0] == "agg" and t[1] == "adt" and t[2] == adt and len(t[4]) == nf:
            for i, x in enumerate(t[4]):
                vals.setdefault(i, x)
            base_ok = True
        else:
            base_ok = False
        if not base_ok:
            missing = [f["name"] for i, f in enumerate(fb.adt_fields(adt) or []) if i not in vals]
            last = "fields %s keep their old value" % missing if missing else "*self is %s" % show(t, maxdepth=3)
            continue_ = (False, last)
            bad = continue_
            if eng == "deep":
                return bad
            keep = bad
            continue
        bad = None
        for i, x in vals.items():
            y = _eta(fb, x)
            if y not in (("field", ("param", 2), i), ("field", ("deref", ("param", 2)), i)):
                bad = (False, "field %s becomes %s" % ((fb.adt_fields(adt) or [])[i]["name"], show(x, maxdepth=3)))
                break
        if bad is None:
            return True, ""
        if eng == "deep":
            return bad
        keep = bad
    return locals().get("keep", (False, "not analysable"))


def faithful_clones(ctx):
    """paths of the hand-written `Clone::clone` bodies of local types whose `clone()` is proved to
    be a field-for-field copy: constructing the type there creates no new state.  (Whether the
    whole impl - an overridden `clone_from` included - is faithful is the obligation
    clone_fidelity files under C03 / C12 / C13.)"""
    out = set()
    for adt in ctx.fb.adts:
        v = clone_verdict(ctx, adt)
        if v is not None and not v[1].derived() and (v[2] or v[3].startswith("clone_from:")):
            out.add(v[0])
    return out


def clone_fidelity(ctx, rep, rule, adts, role="clone"):
    """`Clone` of a value carrier: derived (field-wise by construction), or - when written by hand -
    an aggregate of the same type whose field i is (a clone of) field i of the original, under the
    engine that inlines the crate's own constructors and accessors.  A copy that permutes, resets
    or recomputes a field hands a different value to whoever uses the copy."""
    fb = ctx.fb
    for adt in adts:
        if adt not in fb.adts:
            continue
        v = clone_verdict(ctx, adt)
        if v is None:
            continue                      # the type is not Clone
        name, b, good, why = v
        if b.derived():
            rep.ok(rule, adt, role, why, b.loc())
            continue
        rep.check(good, rule, adt, role, why, "a copy of %s is not the same value: %s" % (adt, why), b.loc())


# --------------------------------------------------------------------------- hand-written Eq / Ord / Hash

def _impl_body(ctx, adt, trait, method):
    fb = ctx.fb
    name = "<%s as %s>::%s" % (adt, trait, method)
    if name in fb.bodies:
        return name
    c = [p_ for p_ in fb.bodies if p_.startswith("<" + adt) and p_.endswith(" as %s>::%s" % (trait, method))]
    return c[0] if len(c) == 1 else None


def _field_of(t, param):
    """i when t is (a reference to / a copy of) field i of parameter `param`"""
    t = strip(t)
    while t[0] in ("ref", "refv", "deref") or (is_call(t) and t[1] in IDENT_CALLS and len(t[2]) == 1):
        t = strip(t[1] if t[0] in ("ref", "refv", "deref") else t[2][0])
    if t[0] == "field" and isinstance(t[2], int) and strip(t[1]) in (("param", param), ("deref", ("param", param))):
        return t[2]
    return None


def cmp_chain(ctx, adt):
    """the fields a type's `Ord::cmp` compares, in lexicographic order: every field in declaration
    order for a derive; for a hand-written impl the chain `a.f.cmp(&b.f).then_with(|| a.g.cmp(&b.g))..`
    (also `then`, and tuples of fields compared as tuples).  None when there is no Ord impl or the
    body is not such a chain."""
    fb = ctx.fb
    nf = len(fb.adt_fields(adt) or [])
    if "std::cmp::Ord" in fb.derived_traits(adt):
        return list(range(nf))
    name = _impl_body(ctx, adt, "std::cmp::Ord", "cmp")
    if name is None:
        return None

    def parse(t, se):
        t = strip(t)
        if is_call(t) and t[1] in ("std::cmp::Ordering::then_with", "std::cmp::Ordering::then") and len(t[2]) == 2:
            a = parse(t[2][0], se)
            if a is None:
                return None
            if t[1].endswith("then_with"):
                cl = strip(t[2][1])
                v = closure_value(ctx, cl, ())
                if v is None:
                    return None
                v = resolve_locals(se, t[3][1], v) if len(t) > 3 else v
                b = parse(v, se)
            else:
                b = parse(t[2][1], se)
            return None if b is None else a + b
        if is_call(t) and len(t[2]) == 2 and (t[1] == "std::cmp::Ord::cmp" or " std::cmp::Ord for " in t[1] and t[1].endswith("::cmp") or t[1].endswith(" as std::cmp::Ord>::cmp")):
            x, y = strip(t[2][0]), strip(t[2][1])
            i, j = _field_of(x, 1), _field_of(y, 2)
            if i is not None and i == j:
                return [i]
            # (a.f, a.g).cmp(&(b.f, b.g))
            while x[0] in ("ref", "refv"):
                x = strip(x[1])
            while y[0] in ("ref", "refv"):
                y = strip(y[1])
            if x[0] == "agg" and x[1] == "tuple" and y[0] == "agg" and y[1] == "tuple" and len(x[4]) == len(y[4]):
                out = []
                for u, v_ in zip(x[4], y[4]):
                    i, j = _field_of(u, 1), _field_of(v_, 2)
                    if i is None or i != j:
                        return None
                    out.append(i)
                return out
        return None

    for eng in ("wrap", "pure"):
        se = getattr(ctx, eng).run(name)
        if se is None:
            continue
        r = parse(se.ret, se)
        if r is not None:
            return r
    return None


def partial_cmp_consistent(ctx, adt):
    """PartialOrd is derived together with Ord, or is `Some(self.cmp(other))`"""
    fb = ctx.fb
    dt = fb.derived_traits(adt)
    if "std::cmp::PartialOrd" in dt:
        return "std::cmp::Ord" in dt or None
    name = _impl_body(ctx, adt, "std::cmp::PartialOrd", "partial_cmp")
    if name is None:
        return None
    se = ctx.wrap.run(name)
    if se is None:
        return None
    r = strip(se.ret)
    if r[0] == "agg" and r[1] == "adt" and r[2] == "std::option::Option" and r[3] == 1:
        c = strip(r[4][0])
        if is_call(c) and c[1].endswith("::cmp") and len(c[2]) == 2 and strip(c[2][0]) == ("param", 1) and strip(c[2][1]) == ("param", 2):
            return True
    return None


def eq_fields(ctx, adt):
    """the set of fields whose equality makes two values `==`: all of them for a derive; for a
    hand-written `eq` the conjunction `a.f == b.f && a.g == b.g ..`.  None when not such a body."""
    fb = ctx.fb
    nf = len(fb.adt_fields(adt) or [])
    if "std::cmp::PartialEq" in fb.derived_traits(adt):
        return set(range(nf))
    name = _impl_body(ctx, adt, "std::cmp::PartialEq", "eq")
    if name is None:
        return None
    se = ctx.wrap.run(name)
    if se is None:
        return None
    body = se.body
    # a conjunction lowers to a chain of switches: every `false` edge ends in the value false,
    # the value true is reached only when every comparison said true
    sites = compare_sites(ctx, se)
    fields = set()
    for c in sites:
        if c["op"] != "eq":
            return None
        i, j = _field_of(c["args"][0], 1), _field_of(c["args"][1], 2)
        if i is None or i != j:
            return None
        fields.add(i)
    for (bi, si), (loc, v) in se.assigns.items():
        v = strip(v)
        if v[0] == "binop" and v[1] == "Eq":
            i, j = _field_of(v[2], 1), _field_of(v[3], 2)
            if i is None or i != j:
                return None
            fields.add(i)
    if not fields:
        return None
    # the result is true only on the path where all tests succeeded: verdict signs of each test
    for c in sites:
        sg = verdict_signs(ctx, se, c["term"])
        if sg is None or sg.get("unequal") not in (False,) or sg.get("equal") not in (True, None):
            return None
    return fields


def hash_fields(ctx, adt):
    """the fields fed to the hasher, in order (all for a derive), or None"""
    fb = ctx.fb
    nf = len(fb.adt_fields(adt) or [])
    if "std::hash::Hash" in fb.derived_traits(adt):
        return list(range(nf))
    name = _impl_body(ctx, adt, "std::hash::Hash", "hash")
    if name is None:
        return None
    se = ctx.wrap.run(name)
    if se is None or cfg.back_edges(se.body):
        return None
    out = []
    for bb, i in sorted(se.term_info.items()):
        if i.get("k") != "call":
            continue
        if i["name"].endswith("::hash") and len(i["args"]) == 2:
            f = _field_of(i["args"][0], 1)
            if f is None:
                return None
            out.append(f)
        elif "Hasher" in i["name"]:
            return None
    return out or None


# --------------------------------------------------------------------------- verdicts handed on

def verdict_signs(ctx, se, cmp):
    """How the outcome of the comparison `cmp` travels through the function when it is not tested
    where it is used: stored as a bool or as a variant of a field-less enum, joined, tested again
    later (`let check = ProofCheck::new(a, b); refresh(); check.is_accepted()`).
    Returns sign(block) -> +1 (the block is reached only when the operands were equal) / -1 (only
    when unequal) / None, computed switch by switch: the edges of the switch on the comparison
    itself are +1 / -1; a later switch on a phi (or on the discriminant of a phi) whose every input
    value comes from blocks of one sign gives its edges the sign of the value they select."""
    body = se.body
    g = compare_gate(ctx, se, cmp)
    if g is None:
        return lambda b: None
    edge_sign = {g[1]: 1, g[2]: -1}

    def sign(b):
        out = set()
        for e, sg in edge_sign.items():
            if cfg.must_pass_edge(body, e, b):
                out.add(sg)
        return out.pop() if len(out) == 1 else None

    def value_key(v):
        v = strip(v)
        if v[0] == "int":
            return int(v[1])
        if v[0] == "agg" and v[1] == "adt":
            if v[2] in ("std::option::Option", "std::result::Result"):
                return v[3]
            a = ctx.fb.adts.get(v[2])
            if a and a.get("kind") == "Enum" and isinstance(v[3], int) and v[3] < len(a["variants"]) and "discr" in a["variants"][v[3]]:
                return int(a["variants"][v[3]]["discr"])
        return None

    done = {g[0]}
    for _ in range(4):
        changed = False
        for sb, info in sorted(se.term_info.items()):
            if info.get("k") != "switch" or sb in done:
                continue
            d = strip(info["discr"])
            neg = False
            while d[0] == "unop" and d[1] == "Not":
                neg = not neg
                d = strip(d[2])
            x = strip(d[1]) if d[0] == "discr" else d
            if not (x[0] == "phi" and x[1] == se.fn and (x[2], x[3]) in se.phi_inputs):
                continue
            vals = {}
            ok = True
            for pb, v in se.phi_inputs[(x[2], x[3])].items():
                k = value_key(v)
                sg = sign(pb)
                if k is None or sg is None:
                    ok = False
                    break
                if neg and d[0] != "discr":
                    k = 1 - k
                vals.setdefault(k, set()).add(sg)
            if not ok or any(len(v_) != 1 for v_ in vals.values()):
                continue
            listed = set()
            for val, tgt in info["targets"]:
                listed.add(int(val))
                if int(val) in vals:
                    edge_sign[(sb, tgt)] = next(iter(vals[int(val)]))
            rest = {next(iter(s_)) for k_, s_ in vals.items() if k_ not in listed}
            if len(rest) == 1 and info["otherwise"] not in [t_ for _, t_ in info["targets"]]:
                edge_sign[(sb, info["otherwise"])] = rest.pop()
            done.add(sb)
            changed = True
        if not changed:
            break
    return sign


def scalar_kind(fb, ty):
    """"int" for an integer type and for a private one-field newtype around one (`KeyIndex(u8)`),
    else the type's own kind"""
    if ty is None:
        return None
    if ty.k == "adt" and ty.path in fb.adts:
        fs = fb.adt_fields(ty.path) or []
        if len(fs) == 1 and fb.ty(fs[0]["ty"]).k == "int":
            return "int"
    return ty.k


def unwrap_newtype_value(fb, v):
    """the integer inside `KeyIndex(0)`-like aggregate values of one-field local newtypes"""
    v = strip(v)
    while v[0] == "agg" and v[1] == "adt" and v[2] in fb.adts and len(v[4]) == 1 and len(fb.adt_fields(v[2]) or []) == 1:
        v = strip(v[4][0])
    return v


def peel_newtype(fb, ty):
    """the type inside private one-field newtypes (`HeaderKey([u8; 20])` -> `[u8; 20]`)"""
    for _ in range(3):
        if ty is not None and ty.k == "adt" and ty.path in fb.adts:
            fs = fb.adt_fields(ty.path) or []
            if len(fs) == 1:
                ty = fb.ty(fs[0]["ty"])
                continue
        break
    return ty
