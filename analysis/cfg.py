"""CFG helpers over extracted MIR bodies: RPO, dominators, edge-cut reachability, loops.

Only non-cleanup blocks are considered (unwind paths are not part of any rule here; panics
are handled as obligations by the C14 rule instead).
"""


def rpo(body):
    seen, order = set(), []

    def dfs(b):
        stack = [(b, iter(body.succs(b)))]
        seen.add(b)
        while stack:
            n, it = stack[-1]
            adv = False
            for s in it:
                if s not in seen and not body.blocks[s]["cleanup"]:
                    seen.add(s)
                    stack.append((s, iter(body.succs(s))))
                    adv = True
                    break
            if not adv:
                order.append(n)
                stack.pop()

    dfs(0)
    order.reverse()
    return order


def reachable(body, start=0, cut_edges=(), cut_blocks=()):
    """blocks reachable from `start` without using edges in cut_edges / entering cut_blocks.
    Where a spliced helper's return sites are correlated with the caller's test of the returned
    value (body.d["body"]["corr"], see facts._correlation) a path keeps the variant it returned."""
    cut_edges = set(cut_edges)
    cut_blocks = set(cut_blocks)
    if start in cut_blocks:
        return set()
    corr = body.d.get("body", {}).get("corr") if hasattr(body, "d") else None
    if corr:
        seen = {(start, (None,) * len(corr))}
        work = [(start, (None,) * len(corr))]
        out = {start}
        while work:
            n, tag = work.pop()
            tag = list(tag)
            for ci, c in enumerate(corr):
                if n in c["assign"]:
                    tag[ci] = c["assign"][n]
            for s_ in body.succs(n):
                if (n, s_) in cut_edges or s_ in cut_blocks or body.blocks[s_]["cleanup"]:
                    continue
                ok = True
                for ci, c in enumerate(corr):
                    if n == c["switch"] and tag[ci] is not None and c["succ"].get(tag[ci]) is not None and s_ != c["succ"][tag[ci]] and s_ in c["succ"].values():
                        ok = False
                if not ok:
                    continue
                st = (s_, tuple(tag))
                if st in seen:
                    continue
                seen.add(st)
                out.add(s_)
                work.append(st)
        return out
    seen = {start}
    work = [start]
    while work:
        n = work.pop()
        for s in body.succs(n):
            if (n, s) in cut_edges or s in cut_blocks or s in seen:
                continue
            if body.blocks[s]["cleanup"]:
                continue
            seen.add(s)
            work.append(s)
    return seen


def dominators(body):
    order = rpo(body)
    idx = {b: i for i, b in enumerate(order)}
    preds = body.preds()
    idom = {order[0]: order[0]}
    changed = True

    def inter(a, b):
        while a != b:
            while idx[a] > idx[b]:
                a = idom[a]
            while idx[b] > idx[a]:
                b = idom[b]
        return a

    while changed:
        changed = False
        for b in order[1:]:
            ps = [p for p in preds[b] if p in idom]
            if not ps:
                continue
            n = ps[0]
            for p in ps[1:]:
                n = inter(n, p)
            if idom.get(b) != n:
                idom[b] = n
                changed = True
    return idom


def dominates(idom, a, b):
    """a dominates b"""
    while True:
        if a == b:
            return True
        if b not in idom or idom[b] == b:
            return False
        b = idom[b]


def return_blocks(body):
    return [i for i in body.normal_blocks() if body.blocks[i]["term"]["k"] == "return"]


def back_edges(body):
    idom = dominators(body)
    out = []
    for b in idom:
        for s in body.succs(b):
            if s in idom and dominates(idom, s, b):
                out.append((b, s))
    return out


def natural_loop(body, back_edge):
    tail, head = back_edge
    preds = body.preds()
    loop = {head, tail}
    work = [tail]
    while work:
        n = work.pop()
        if n == head:
            continue
        for p in preds[n]:
            if p not in loop:
                loop.add(p)
                work.append(p)
    return loop


def must_pass_edge(body, edge, target_block):
    """True iff every entry->target_block path uses `edge` (target must be reachable at all)."""
    if target_block not in reachable(body):
        return False
    return target_block not in reachable(body, cut_edges=[edge])


def must_pass_block(body, via_block, target_block):
    if target_block not in reachable(body):
        return False
    if via_block == target_block:
        return True
    return target_block not in reachable(body, cut_blocks=[via_block])


def all_paths_to_return_pass(body, via_block):
    """every entry->return path contains via_block"""
    rets = return_blocks(body)
    r = reachable(body, cut_blocks=[via_block])
    return all(x not in r for x in rets) and any(x in reachable(body) for x in rets)


def diverging_blocks(body):
    """blocks from which no return is reachable (panic paths: call with no target etc.)"""
    rets = set(return_blocks(body))
    preds = body.preds()
    can = set(rets)
    work = list(rets)
    while work:
        n = work.pop()
        for p in preds[n]:
            if p not in can:
                can.add(p)
                work.append(p)
    return set(body.normal_blocks()) - can
