#!/usr/bin/env python3
"""Regenerates /verif/MANIFEST.json from the table below and the rule modules present."""
import json
import os
import sys

VERIF = os.path.dirname(os.path.dirname(os.path.abspath(__file__)))
sys.path.insert(0, os.path.join(VERIF, "analysis"))

TECH = {
    "C01": "MIR term reconstruction of the SRP-6 formulas + provenance (role) rules + padding-shape rule + the public-key reject-set rule of C04 (no honest key refused)",
    "C02": "must-pass-through gate with polarity on the MIR CFG + whole-value-equality typing + provenance + who-may-construct census + SHA-1 transcript extraction",
    "C03": "SHA-1 transcript extraction, big-integer term matching, who-may-call census in the client call-graph closure, constant table check, loop-idiom rule for zero stripping (lock-step loop semantics with loop-exit / every-iteration conditions), panic-obligation discharge over the SRP call-graph closure (totality)",
    "C04": "abstract evaluation of the byte-wise validity check to a reject set (product domain) + who-may-construct census + gate",
    "C05": "return-value provenance, must-write-on-all-paths (effect summary), FRESH-random summary, write-frame, transcript",
    "C06": "transcript extraction + sibling cross-check of argument roles over the three modules + gate/whole-value rules + panic-obligation discharge over the world-proof call-graph closure (totality)",
    "C07": "loop-body transfer-function reconstruction (term builder) + field-write census + traversal idiom",
    "C08": "as C07 + HMAC transcript and constant comparison of the two separately coded key derivations",
    "C09": "HMAC->RC4->drop wiring by provenance, direction-constant table, RC4 step-term matching (closure and loop forms, every round / every byte), field-write census, header-framing agreement of encoder and decoder (byte-term rules of C10)",
    "C10": "byte-term abstract interpretation of encoder/decoder + interval/known-bit reasoning on the threshold + keystream byte count",
    "C11": "who-may-call census (read_exact/write_all only), error-propagation rule, no-write-frame-before-fallible-I/O rule on the CFG, wire-layout byte terms, facade delegation by provenance",
    "C12": "type-closure census (ownership non-interference), item census (no statics/unsafe/interior mutability), rustc Send facts, split/clone/unsplit identity by provenance, unsplit gate, who-may-write census of the stored key the pair test compares; compile_fail witnesses",
    "C13": "char-set abstract interpretation of the accept path + dominating length gate + delegation and derive-order rules",
    "C14": "panic-obligation discharge over the peer-facing call-graph closure (intervals, dominating guards, field invariants, iterator lengths, Reduced32 typestate, justified table)",
    "C15": "FRESH-random dataflow summary per documented source + item census (no caches)",
    "C16": "transcript extraction, dominating length gate, wrapper result/argument provenance",
    "C17": "HMAC/SHA-1 transcript extraction with helper inlining; argument-order provenance",
    "C18": "offset-term matching against the printing order, dominating-guard rule for the round bound, MD5/RC4/HMAC transcript, argument/accessor role rules",
}
LEVEL_TEXT = {
    "C12": "All obligations of the ownership/frame argument are typing facts rustc itself establishes (no references/cells/statics/unsafe in the type closure, Send, derived Clone, move-only split) plus provenance identities checked on MIR; together they entail the property for every interleaving and schedule, hence 'proof' for the stated argument.",
}
DEFAULT_TEXT = "Static rule instances over the type-checked MIR of /repo decide the named clauses of the property for all inputs/histories (the clause list and the clauses left to trust are in DESIGN.md and in the evidence file); no code of the repository is executed. This is stronger than sampling for the decided clauses and says nothing about the undecided ones, hence 'other'."
NOTE = "Trusted: rustc type check/MIR construction and the extractor's faithfulness; documented contracts of sha1/hmac/md5/rand/num-bigint/std::io; the paper lemmas named in DESIGN.md for this property. srp-fast-math (GMP) cannot be built here and is not analysed."

NA = [
    {"property_id": "C19", "reason": "equality of the runtime results of two third-party big-integer libraries on all inputs is not visible in the shape of this repository's code, and the srp-fast-math configuration (rug/GMP) cannot even be type-checked in this sandbox (no m4, no gmp.h), so there is no resolved program to analyse; a layering lint would not be a necessary condition of the property (DESIGN.md §7)"},
]
PENDING_REASON = "not claimed yet in this revision: the static rule set for this property is still being built (see DESIGN.md §4); no check is registered rather than registering one that decides nothing"


def main():
    present = sorted(f[:-3].upper() for f in os.listdir(os.path.join(VERIF, "analysis", "rules")) if f.startswith("c") and f[1:3].isdigit() and f.endswith(".py"))
    checks = []
    for p in present:
        checks.append({
            "property_id": p,
            "quick_cmd": "./check %s --tier quick" % p,
            "thorough_cmd": "./check %s --tier thorough" % p,
            "evidence_file": "/verif/evidence/%s.json" % p,
            "replay_cmd_template": "./check %s --replay {path}" % p,
            "engine": "mir-rules",
            "level_claimed": {"category": "proof" if p == "C12" else "other", "text": LEVEL_TEXT.get(p, DEFAULT_TEXT), "design_ref": "DESIGN.md §4 %s" % p},
            "level_note": NOTE,
            "technique": "static analysis: " + TECH[p],
        })
    na = list(NA)
    for i in range(1, 19):
        p = "C%02d" % i
        if p not in present:
            na.append({"property_id": p, "reason": PENDING_REASON})
    na.sort(key=lambda x: x["property_id"])
    m = {
        "version": 1,
        "setup_cmd": "./setup.sh",
        "hooks": {
            "guard": "wow_srp_verif",
            "enable": "none needed: the checks read /repo's MIR through a rustc wrapper (RUSTC_WORKSPACE_WRAPPER); no source hooks exist",
            "baseline_off_cmd": "cd /repo && cargo test --workspace --no-fail-fast --offline",
            "source_commits": [],
            "add_only": True,
        },
        "engines": [
            {"name": "mir-rules", "path": "/verif/driver + /verif/analysis", "serves_properties": present, "kind_free_text": "rustc_private MIR fact extractor (Rust, nightly) + symbolic term builder / CFG rules / censuses (Python)"},
            {"name": "witness", "path": "/verif/witness", "serves_properties": ["C02", "C04", "C06", "C12", "C13"], "kind_free_text": "compile_fail / no_run doc-test witnesses type-checked by rustc (thorough tier)"},
        ],
        "checks": checks,
        "not_applicable": na,
        "notes": "All checks are static: they re-extract MIR facts from /repo's current working tree (cached by content hash) and evaluate rule instances; nothing of wow_srp is executed. Known findings: /verif/known_findings.json.",
    }
    with open(os.path.join(VERIF, "MANIFEST.json"), "w") as f:
        json.dump(m, f, indent=1)
    print("MANIFEST.json: %d checks, %d not applicable" % (len(checks), len(na)))


if __name__ == "__main__":
    main()
