"""Canonical-algorithm shape rules (A6): the loop nests of three small algorithms are
reconstructed as per-iteration transfer functions (phi inputs of the loop heads) and compared
with the reference algorithm.  What is decided is "the code is this algorithm"; that the
algorithm has the stated property (decimal digits / Lehmer-code permutation / draw without
replacement) is a trusted paper lemma named in the evidence.

  pin::pin_to_bytes            digits least-significant first by repeated % 10, / 10, reversed
  pin::remap_pin_grid          factorial-number-system decoding of the seed over [0..9]
  matrix_card::generate_coordinates   identity table, then per round: pick index seed % remaining,
                                      close the gap, seed /= remaining
"""
import cfg
from rules import util, arith
from rules.arith import S, I
from rules.util import strip
from symex import show, walk


def loop_state(se, head):
    """{root: (init term, step term)} for roots with a phi at the loop head `head` whose step
    really depends on the loop (mentions a phi of this loop or differs from init)"""
    body = se.body
    loops = [cfg.natural_loop(body, e) for e in cfg.back_edges(body) if e[1] == head]
    inside = set().union(*loops) if loops else set()
    out = {}
    for (bb, key), ins in se.phi_inputs.items():
        if bb != head:
            continue
        init = [v for p, v in ins.items() if p not in inside]
        step = [v for p, v in ins.items() if p in inside]
        if len(init) != 1 or len(step) != 1:
            continue
        if strip(init[0])[0] == "uninit":
            continue
        out[key] = (init[0], step[0])
    return out


def for_info(ctx, se):
    """for-loops keyed by head block: (elem term, range/iterator init term, loop dict)"""
    res = {}
    for lp in util.for_loops(ctx, se):
        src = strip(lp["init_call"][2][0]) if lp["init_call"] else None
        res[lp["next_bb"]] = (strip(lp["elem"]), src, lp)
    return res


def phi_of(se, head, key):
    return ("phi", se.fn, head, key, ())


def comm(e):
    if not isinstance(e, tuple):
        return e
    if e[0] in ("mul", "add") and len(e) == 3:
        return (e[0], frozenset([comm(e[1]), comm(e[2])]))
    return tuple(comm(x) if isinstance(x, tuple) and x and isinstance(x[0], str) else x for x in e)


def N(t, env):
    return comm(arith.norm(t, env, wide=("usize", "u64", "u32", "u16")))


def _runs_while_nonzero(sw, subject, loop):
    """the loop's one switch keeps the loop going exactly while the (unsigned) subject is not 0 -
    `x != 0`, `x > 0`, `x >= 1`, `!(x == 0)`, or the complementary test with the edges swapped"""
    tg = sw["targets"]
    if not (len(tg) == 1 and tg[0][0] == 0):
        return False
    it = util.int_test(sw["discr"], unsigned=True)
    if it is None or strip(it[0]) != strip(subject):
        return False
    if it[1:] == (1, None):
        return tg[0][1] not in loop and sw["otherwise"] in loop
    if it[1:] == (None, 0):
        return tg[0][1] in loop and sw["otherwise"] not in loop
    return False


# ------------------------------------------------------------------------------------ pin_to_bytes

def _prefix_reversed(rep, rule, fn, se, env, loop_plumbing=()):
    """out[0..i] is reversed in place and returned (env maps the position's term to "i")"""
    body = se.body
    # reverse out[0..i] and return out[0..i]
    calls = [se.term_info[b] for b in sorted(se.term_info) if se.term_info[b].get("k") == "call"]
    names = [c["name"].split("::")[-1] for c in calls]

    def is_view(t):
        """t (stripped) is the prefix out[0..i]: out[0..i] / out[..i] / out.split_at_mut(i).0"""
        if util.is_call(t) and t[1].endswith("::index_mut") and len(t[2]) == 2:
            r = strip(t[2][1])
            if r[0] == "agg" and r[2] == "std::ops::Range":
                return N(r[4][0], env) == I(0) and N(r[4][1], env) == S("i")
            if r[0] == "agg" and r[2] == "std::ops::RangeTo":
                return N(r[4][0], env) == S("i")
            return False
        if t[0] == "field" and t[2] == 0 and util.is_call(t[1]) and t[1][1].endswith("<impl [T]>::split_at_mut"):
            return N(t[1][2][1], env) == S("i")
        return False

    views = [c for c in calls if c["name"].endswith("::index_mut") or c["name"].endswith("<impl [T]>::split_at_mut")]
    revs = [c for c in calls if c["name"].endswith("<impl [T]>::reverse")]
    others = [c for c in calls if c not in views and c not in revs and c["name"] not in loop_plumbing]
    good = False
    if len(revs) == 1 and not others and 1 <= len(views) <= 2:
        la = revs[0]["locargs"][0]
        recv = strip(la[1][1]) if la[0] == "ref" and la[1][0] == "deref" else None
        # every view is of the output array, the reverse acts on a prefix view, a prefix view is returned
        on_out = all(strip(v["locargs"][0])[0] == "param" or v["locargs"][0] == ("ref", ("deref", ("param", 2)), True) for v in views)
        good = recv is not None and is_view(recv) and is_view(strip(se.ret)) and on_out
        # a view taken before the reverse and returned, or a fresh one of the same range afterwards
        good = good and all(is_view(strip(v["term"])) or is_view(("field", strip(v["term"]), 0)) for v in views)
    rep.check(good, rule, fn, "reverse", "out[0..i] is reversed (most significant digit first) and returned", "the digits are not reversed in place / the returned slice is not out[0..i]", body.loc())



def pin_to_bytes_slots(ctx, rep, rule, fn, se):
    """the digits written through the slots of the output array:
        for slot in out.iter_mut() { if pin == 0 { break } *slot = pin % 10; pin /= 10; i += 1 }
    Slot k is reached in iteration k, and i == k there (an iteration that does not break counts).
    The array has room for every digit of a u32 (at most 10), so the loop is left by the break
    exactly when the `while pin != 0` form is - and if the slots do run out, pin is 0 by then.
    Returns False when the function is not of this form (nothing is reported then)."""
    body = se.body
    loops = util.for_loops(ctx, se)
    if len(loops) != 1 or len(cfg.back_edges(body)) != 1 or "slice::IterMut" not in (loops[0]["resolved"] or ""):
        return False
    lp = loops[0]
    head = lp["next_bb"]
    ini = strip(lp["init"]) if lp["init"] is not None else ("?",)
    if not util.is_call(ini, "core::slice::<impl [T]>::iter_mut"):
        return False
    la = (se.term_info.get(ini[3][1], {}).get("locargs") or (("?",),))[0]
    t2 = body.local_ty(2)
    if la != ("ref", ("deref", ("param", 2)), True) or not (t2 is not None and t2.k == "ref" and t2.to is not None and t2.to.k == "array" and (t2.to.len or 0) >= 10):
        return False
    st = loop_state(se, head)
    elem = lp["elem"]
    pin = idx = slot = None
    for key, (init, step) in st.items():
        ph = phi_of(se, head, key)
        if strip(init) == ("param", 1):
            pin = (key, ph, step)
        elif strip(init)[:2] == ("int", 0) and key[0] == "local":
            idx = (key, ph, step)
        elif key[0] == "deref" and strip(key[1]) == strip(elem):
            slot = (key, ph, step)
    if not (pin and idx and slot):
        return False
    env = {pin[1]: "pin", idx[1]: "i"}
    got = {"pin": N(pin[2], env), "i": N(idx[2], env), "slot": N(slot[2], env)}
    want = {"pin": ("Div", S("pin"), I(10)), "i": comm(("add", S("i"), I(1))), "slot": ("trunc", "u8", ("rem", S("pin"), I(10)))}
    rep.check(got == want, rule, fn, "step", "per iteration: *slot = pin % 10; pin /= 10; i += 1 (slot k in iteration k, i == k)", "digit extraction step is %s" % {k: arith.show(v) if isinstance(v, tuple) else v for k, v in got.items()}, body.loc())
    loop = cfg.natural_loop(body, cfg.back_edges(body)[0])
    sws = [(bb, i_) for bb, i_ in se.term_info.items() if i_.get("k") == "switch" and bb in loop and bb != lp["switch_bb"]]
    good = False
    if len(sws) == 1:
        bb_t, sw = sws[0]
        idom = cfg.dominators(body)
        stores = [k for k, (loc, v) in se.assigns.items() if loc[0] == "deref" and strip(loc[1]) == strip(elem)]
        brk = [s_ for s_ in body.succs(bb_t) if s_ not in loop]
        exits = util.loop_exits(body, head)
        good = (_runs_while_nonzero(sw, pin[1], loop) and len(stores) == 1 and cfg.dominates(idom, bb_t, stores[0][0])
                and all(cfg.dominates(idom, stores[0][0], t_) for t_, h_ in cfg.back_edges(body))
                and len(brk) == 1 and exits == {(lp["switch_bb"], lp["exit_bb"]), (bb_t, brk[0])})
    rep.check(good, rule, fn, "exit", "the loop is left at the first slot reached with pin == 0, before anything is written there (all digits, no leading zero; ten slots suffice for a u32)", "the slot loop is not left exactly when the remaining pin is 0", body.loc())
    _prefix_reversed(rep, rule, fn, se, dict(env), loop_plumbing=("core::slice::<impl [T]>::iter_mut", "<I as std::iter::IntoIterator>::into_iter", "<std::slice::IterMut<'a, T> as std::iter::Iterator>::next"))
    return True


def pin_to_bytes_rule(ctx, rep, rule="digits"):
    fn = "pin::pin_to_bytes"
    se = ctx.wrap.run(fn)
    if se is None:
        rep.violation(rule, fn, "anchor", "function not found")
        return
    body = se.body
    be = cfg.back_edges(body)
    if len(be) != 1:
        rep.violation(rule, fn, "shape", "expected a single loop, found %d" % len(be), body.loc())
        return
    if pin_to_bytes_slots(ctx, rep, rule, fn, se):
        return
    head = be[0][1]
    st = loop_state(se, head)
    pin = idx = arr = None
    backfill = False
    for key, (init, step) in st.items():
        ph = phi_of(se, head, key)
        if strip(init) == ("param", 1):
            pin = (key, ph, step)
        elif strip(init)[:2] == ("int", 0):
            idx = (key, ph, step)
        elif util.numnorm(init) in (("int", 10, "usize"), ("len", ("param", 2))) or (util.is_call(strip(init)) and strip(init)[1].endswith("<impl [T]>::len") and strip(strip(init)[2][0]) == ("param", 2)):
            idx = (key, ph, step)
            backfill = True
        elif key == ("deref", ("param", 2)):
            arr = (key, ph, step)
    if pin and idx and arr and len(st) == 3 and backfill:
        return pin_to_bytes_backfill(ctx, rep, rule, fn, se, be, pin, idx, arr)
    if not (pin and idx and arr) or len(st) != 3:
        rep.violation(rule, fn, "shape", "loop state is not (remaining pin, position, output array): %s" % [show(k) for k in st], body.loc())
        return
    env = {pin[1]: "pin", idx[1]: "i", arr[1]: "out"}
    want = {
        "pin": ("Div", S("pin"), I(10)),
        "i": comm(("add", S("i"), I(1))),
        "out": ("upd", S("out"), S("i"), ("trunc", "u8", ("rem", S("pin"), I(10)))),
    }
    got = {"pin": N(pin[2], env), "i": N(idx[2], env), "out": N(arr[2], env)}
    good = got == want
    rep.check(good, rule, fn, "step", "per iteration: out[i] = pin % 10; pin /= 10; i += 1", "digit extraction step is %s" % {k: arith.show(v) if isinstance(v, tuple) else v for k, v in got.items()}, body.loc())
    # exit exactly when the remaining pin is 0
    sw = [(bb, i_) for bb, i_ in se.term_info.items() if i_.get("k") == "switch" and bb in cfg.natural_loop(body, be[0])]
    good = False
    if len(sw) == 1:
        good = _runs_while_nonzero(sw[0][1], pin[1], cfg.natural_loop(body, be[0]))
    rep.check(good, rule, fn, "exit", "loop runs while pin != 0 (all digits, no leading zero)", "loop exit test is not `pin != 0`", body.loc())
    _prefix_reversed(rep, rule, fn, se, env)


def pin_to_bytes_backfill(ctx, rep, rule, fn, se, be, pin, idx, arr):
    """the same digits written from the back: start = 10; while pin != 0 { start -= 1;
    out[start] = pin % 10; pin /= 10 }; return out[start..] - most significant digit first
    without a reversal (a u32 has at most 10 digits, so start never underflows: C14's matter)"""
    body = se.body
    env = {pin[1]: "pin", idx[1]: "i", arr[1]: "out"}
    i1 = ("sub", S("i"), I(1))
    got = {"pin": N(pin[2], env), "i": N(idx[2], env), "out": N(arr[2], env)}
    want = {"pin": ("Div", S("pin"), I(10)), "i": i1, "out": ("upd", S("out"), i1, ("trunc", "u8", ("rem", S("pin"), I(10))))}
    rep.check(got == want, rule, fn, "step", "per iteration: i -= 1; out[i] = pin % 10; pin /= 10 (filled from the back)", "digit extraction step is %s" % {k: arith.show(v) if isinstance(v, tuple) else v for k, v in got.items()}, body.loc())
    loop = cfg.natural_loop(body, be[0])
    sw = [(bb, i_) for bb, i_ in se.term_info.items() if i_.get("k") == "switch" and bb in loop]
    good = False
    if len(sw) == 1:
        good = _runs_while_nonzero(sw[0][1], pin[1], loop)
    rep.check(good, rule, fn, "exit", "loop runs while pin != 0 (all digits, no leading zero)", "loop exit test is not `pin != 0`", body.loc())
    calls = [se.term_info[b] for b in sorted(se.term_info) if se.term_info[b].get("k") == "call"]
    views = [c for c in calls if c["name"].endswith("::index_mut")]
    others = [c for c in calls if c not in views and not c["name"].endswith("<impl [T]>::len")]
    good = False
    r = strip(se.ret)
    if len(views) == 1 and not others and util.is_call(r) and r[1].endswith("::index_mut") and len(r[2]) == 2:
        rng = strip(r[2][1])
        on_out = views[0]["locargs"][0] == ("ref", ("deref", ("param", 2)), True) or strip(views[0]["locargs"][0])[0] == "param"
        good = on_out and rng[0] == "agg" and rng[2] == "std::ops::RangeFrom" and N(rng[4][0], env) == S("i")
    rep.check(good, rule, fn, "reverse", "out[i..] is returned: most significant digit first, exactly the digits written", "the returned slice is not out[start..] of the back-filled array", body.loc())


# ------------------------------------------------------------------------------------ shared draw loop

def countdown_pick(ctx, se):
    """The draw-without-replacement loop written once over slices (as a helper shared by the PIN
    grid and the matrix coordinates would have it), seen in its caller:
        remaining = table.len();
        for slot in picks.iter_mut() {
            idx = seed % remaining;  seed /= remaining;
            *slot = table[idx];  table.copy_within(idx + 1..remaining, idx);  remaining -= 1;
        }
    Returns the pieces (table / seed / picks start values, the loop) when the loop is exactly
    that - slot k then gets table_k[seed_k % (len - k)] - else None."""
    body = se.body
    loops = [lp for lp in util.for_loops(ctx, se) if "slice::IterMut" in (lp["resolved"] or "") and lp["init_call"] is not None]
    others = [lp for lp in util.for_loops(ctx, se) if lp not in loops]
    if len(loops) != 1:
        return None
    lp = loops[0]
    head = lp["next_bb"]
    ic = lp["init_call"]
    R_old = se.call_old.get((ic[3][:2], 0))
    ii = se.term_info.get(ic[3][1], {})
    la = (ii.get("locargs") or (("?",),))[0]
    R_loc = la[1] if la[0] == "ref" else None
    if R_old is None or R_loc is None:
        return None
    st = loop_state(se, head)
    elem = lp["elem"]
    rem = seed = table = None
    for key, (init, step) in st.items():
        ph = phi_of(se, head, key)
        n = N(step, {ph: "x"})
        if n == ("sub", S("x"), I(1)):
            rem = (key, ph, init)
    if rem is None:
        return None
    for key, (init, step) in st.items():
        ph = phi_of(se, head, key)
        if key == rem[0]:
            continue
        n = N(step, {ph: "seed", rem[1]: "n"})
        if n == ("Div", S("seed"), S("n")):
            seed = (key, ph, init)
    if seed is None:
        return None
    env = {seed[1]: "seed", rem[1]: "n"}
    pick = ("rem", S("seed"), S("n"))
    for key, (init, step) in st.items():
        ph = phi_of(se, head, key)
        ts = strip(step)
        if ts[0] == "after" and util.is_call(ts[1]) and ts[1][1].endswith("::copy_within") and ts[2] == 0 and ts[3] == ph:
            c = ts[1]
            r_ = strip(c[2][1])
            if r_[0] == "agg" and r_[2] == "std::ops::Range":
                env_t = dict(env)
                env_t[ph] = "T"
                lo, hi, dst = N(r_[4][0], env_t), N(r_[4][1], env_t), N(c[2][2], env_t)
                if lo == comm(("add", pick, I(1))) and hi == S("n") and dst == pick:
                    table = (key, ph, init)
    if table is None:
        return None
    env[table[1]] = "T"
    stores = [(k, v) for k, (loc, v) in se.assigns.items() if loc == ("deref", elem) or (loc[0] == "deref" and strip(loc[1]) == strip(elem))]
    if len(stores) != 1 or N(stores[0][1], env) != ("idx", S("T"), pick):
        return None
    # remaining starts as the length of the table as the loop finds it
    r0 = strip(rem[2])
    t0 = strip(table[2])
    len_ok = util.is_call(r0) and r0[1].endswith("<impl [T]>::len") or r0[0] == "int"
    if util.is_call(r0):
        a = strip(r0[2][0])
        while util.is_call(a) and (a[1] in util.IDENT_CALLS or "deref" in a[1].lower()) and len(a[2]) == 1:
            a = strip(a[2][0])
        len_ok = a == t0
    # nothing else leaves the loop or runs in it: the only calls are next / copy_within / index
    loop = set()
    for e in cfg.back_edges(body):
        if e[1] == head:
            loop |= cfg.natural_loop(body, e)
    exits = {s_ for b in loop for s_ in body.succs(b) if s_ not in loop and body.blocks[s_]["term"]["k"] != "unreachable"}
    return {"lp": lp, "head": head, "R_old": strip(R_old), "R_loc": R_loc, "seed0": strip(seed[2]), "T0": t0, "T_key": table[0], "rem0": r0, "len_ok": len_ok, "single_exit": len(exits) == 1, "others": others, "site": ic[3]}


# ------------------------------------------------------------------------------------ remap_pin_grid

def remap_pin_grid_rule(ctx, rep, rule="layout"):
    fn = "pin::remap_pin_grid"
    se = ctx.wrap.run(fn)
    if se is None:
        rep.violation(rule, fn, "anchor", "function not found")
        return
    body = se.body
    fi = for_info(ctx, se)
    if len(fi) == 0 and remap_from_fn(ctx, rep, rule, fn, se):
        return
    if len(fi) == 1 and not any(util.is_call(src, suffix="::enumerate") or util.is_call(src, suffix="::zip") for (_, src, _) in fi.values()):
        cp = countdown_pick(ctx, se)
        if cp is not None:
            # the shared draw loop over (digits [0..9], the 10 slots of the result): radix 10 - k
            t0 = cp["T0"]
            ten = t0[0] == "agg" and t0[1] == "array" and [x[1] for x in t0[4]] == list(range(10))
            rl = cp["R_loc"]
            while rl[0] == "deref" and rl[1][0] in ("ref", "refv"):
                rl = rl[1][1]
            rty = body.local_ty(rl[1]) if rl[0] == "local" else None
            slots = rty is not None and rty.k == "array" and rty.len == 10
            rem_ok = cp["len_ok"] or cp["rem0"][:2] == ("int", 10)
            rep.check(ten and slots and rem_ok and cp["single_exit"], rule, fn, "radices", "the shared draw loop over the digits [0..9] and the 10 slots of the result: radices 10, 9, ..., 1", "the draw loop is not run over the digits 0..9 and the ten slots of the result (digits %s, slots %s, countdown from the table length %s)" % (ten, slots, rem_ok), body.loc())
            s0 = cp["seed0"]
            while (util.is_call(s0) and (s0[1] in util.IDENT_CALLS or "convert::From<u32> for u64" in s0[1] or s0[1].endswith("Into<U>>::into")) and len(s0[2]) == 1) or s0[0] == "cast":
                s0 = strip(s0[2][0]) if util.is_call(s0) else strip(s0[2])
            rep.check(s0 == ("param", 1), rule, fn, "step", "r = seed % i; result[k] = digits[r]; seed /= i; digits[r+1..i] moved one place down (seed = the parameter, widened)", "the draw loop does not start from the seed parameter: %s" % show(cp["seed0"], maxdepth=3), body.loc())
            r = strip(se.ret)
            rep.check(r[0] == "after" and util.is_call(r[1]) and r[1][3] == cp["site"] and r[2] == 0, rule, fn, "result", "the array whose slots the loop filled is returned", "the returned array is not the generated layout", body.loc())
            return
    if len(fi) not in (1, 2):
        rep.violation(rule, fn, "shape", "expected the radix loop (and optionally an inner gap-closing loop), found %d loops" % len(fi), body.loc())
        return
    outer = inner = None
    for head, (elem, src, lp) in fi.items():
        if util.is_call(src) and src[1].endswith("::enumerate"):
            outer = (head, elem, src)
        elif src is not None and src[0] == "agg" and src[2] == "std::ops::Range":
            inner = (head, elem, src)
    zipped = None
    if not outer:
        # result.iter_mut().zip((1..=10).rev()) (either order): slot k with radix 10 - k
        from rules import loopsem
        for head, (elem, src, lp) in fi.items():
            if util.is_call(src) and src[1].endswith("::zip"):
                sem = loopsem.Sem(ctx, se, lambda base: (lambda n: 10))
                r_ = sem.item_at(src)
                if r_ is not None and r_[0][0] == "tup" and len(r_[0][1]) == 2 and r_[1](0) == 10:
                    its = r_[0][1]
                    for f_slot in (0, 1):
                        a_, b_ = its[f_slot], its[1 - f_slot]
                        if a_[0] == "loc" and a_[2] == (1, 0) and b_ == ("cnt", (-1, 10)):
                            tyl = body.local_ty(a_[1][1]) if a_[1][0] == "local" else None
                            if tyl is not None and tyl.k == "array" and tyl.len == 10:
                                zipped = (f_slot, a_[1])
                                outer = (head, elem, src)
    if not outer or (len(fi) == 2 and not inner):
        rep.violation(rule, fn, "shape", "loops are not `for (k, i) in (1..=10).rev().enumerate()` / `for j in 0..n`", body.loc())
        return
    oh, oelem, osrc = outer
    if zipped is None:
        rv = strip(osrc[2][0])
        rng_ok = util.is_call(rv) and rv[1].endswith("::rev") and util.is_call(strip(rv[2][0]), "std::ops::RangeInclusive::<Idx>::new")
        if rng_ok:
            a = [util.numnorm(x) for x in strip(rv[2][0])[2]]
            rng_ok = a[0][:2] == ("int", 1) and a[1][:2] == ("int", 10)
        rep.check(rng_ok, rule, fn, "radices", "radices i = 10, 9, ..., 1 with positions k = 0..9", "outer loop is not over (1..=10).rev().enumerate()", body.loc())
    else:
        rep.ok(rule, fn, "radices", "radices i = 10, 9, ..., 1 zipped with the slots k = 0..9 of the result array", body.loc())
    ost = loop_state(se, oh)
    seed = remapped = grid = None
    kterm = ("field", oelem, 0)
    iterm = ("field", oelem, 1)
    if zipped is not None:
        kterm = ("slot-position",)
        iterm = ("field", oelem, 1 - zipped[0])
    arrays = []
    for key, (init, step) in ost.items():
        ph = phi_of(se, oh, key)
        si = strip(init)
        if si == ("param", 1):
            seed = (key, ph, step)
        elif si[0] == "agg" and si[1] == "array" and [x[1] for x in si[4]] == list(range(10)):
            arrays.append((key, ph, step))
        elif si[0] == "bytes" and bytes(si[1]) == bytes(range(10)):
            arrays.append((key, ph, step))      # the same start grid as a named constant
    for key, ph, step in arrays:
        ss = strip(step)
        if ss[0] == "upd" and ss[1] == ph and ss[2][0] == "i" and strip(ss[2][1]) == kterm:
            remapped = (key, ph, step)
        else:
            grid = (key, ph, step)
    zip_store = None
    if zipped is not None:
        # the result array is written through the zipped slot: exactly one store, in the radix loop
        oloop = set()
        for e in cfg.back_edges(body):
            l_ = cfg.natural_loop(body, e)
            if oh in l_:
                oloop |= l_
        slot = ("field", oelem, zipped[0])
        stores = [(k_, v_) for k_, v_ in se.assigns.items() if v_[0][0] == "deref" and strip(v_[0][1]) == strip(slot)]
        if len(stores) == 1 and stores[0][0][0] in oloop and grid is not None:
            zip_store = stores[0][1][1]
            remapped = (zipped[1], ("slot-array",), None)
    if not (seed and remapped and grid):
        rep.violation(rule, fn, "shape", "state is not (seed, remaining digits [0..9], result [0..9])", body.loc())
        return
    env = {seed[1]: "seed", remapped[1]: "R", grid[1]: "G", kterm: "k", iterm: "i"}
    rem = ("rem", S("seed"), S("i"))
    if zip_store is not None:
        got = {"seed": N(seed[2], env), "R": ("upd", S("R"), S("k"), N(zip_store, env))}
    else:
        got = {"seed": N(seed[2], env), "R": N(remapped[2], env)}
    want = {"seed": ("Div", S("seed"), S("i")), "R": ("upd", S("R"), S("k"), ("idx", S("G"), rem))}
    # gap closing: remaining digits r+1..i move one place down (inner loop or copy_within)
    shift = None
    gstep = strip(grid[2])
    if inner is not None and gstep[0] == "phi" and gstep[2] == inner[0]:
        ih, ielem, isrc = inner
        ist = loop_state(se, ih)
        if grid[0] in ist:
            ginit, gs = ist[grid[0]]
            env2 = dict(env)
            env2[phi_of(se, ih, grid[0])] = "Gi"
            env2[ielem] = "j"
            ok = (N(gs, env2) == ("upd", S("Gi"), comm(("add", rem, S("j"))), ("idx", S("Gi"), comm(("add", ("add", rem, S("j")), I(1)))))
                  and N(ginit, env2) == S("G") and tuple(N(x, env2) for x in isrc[4]) == (I(0), ("sub", ("sub", S("i"), rem), I(1))))
            if not ok:
                # the same moves with the index running over the places themselves:
                # for j in r..i-1 { G[j] = G[j + 1] }
                ok = (N(gs, env2) == ("upd", S("Gi"), S("j"), ("idx", S("Gi"), comm(("add", S("j"), I(1)))))
                      and N(ginit, env2) == S("G") and tuple(N(x, env2) for x in isrc[4]) == (rem, ("sub", S("i"), I(1))))
            if ok:
                shift = ("shift", rem, S("i"))
    elif gstep[0] == "after" and util.is_call(gstep[1]) and gstep[1][1].endswith("::copy_within") and gstep[2] == 0 and gstep[3] == grid[1]:
        c = gstep[1]
        r_ = strip(c[2][1])
        if r_[0] == "agg" and r_[2] == "std::ops::Range":
            lo, hi, dst = N(r_[4][0], env), N(r_[4][1], env), N(c[2][2], env)
            if lo == comm(("add", rem, I(1))) and hi == S("i") and dst == rem:
                shift = ("shift", rem, S("i"))
    got["gap"] = shift
    want["gap"] = ("shift", rem, S("i"))
    good = got == want
    rep.check(good, rule, fn, "step", "r = seed % i; result[k] = digits[r]; seed /= i; digits[r+1..i] moved one place down", "layout generation step differs from the factorial-base decoding: %s" % {k: (arith.show(v) if isinstance(v, tuple) and v and isinstance(v[0], str) else str(v)) for k, v in got.items() if got[k] != want[k]}, body.loc())
    r = strip(se.ret)
    if zip_store is not None:
        # the array whose slots were zipped, as the loop left it
        src_call = [x for x in walk(osrc) if util.is_call(x) and x[1].endswith("<impl [T]>::iter_mut")]
        good = len(src_call) == 1 and r[0] == "after" and r[1][3] == src_call[0][3] and r[2] == 0
        rep.check(good, rule, fn, "result", "the permuted layout (the array whose slots the loop filled) is returned", "the returned array is not the generated layout", body.loc())
        return
    rep.check(r == remapped[1] or r == strip(remapped[1]), rule, fn, "result", "the permuted layout is returned", "the returned array is not the generated layout", body.loc())


def remap_from_fn(ctx, rep, rule, fn, se):
    """the layout produced front to back by core::array::from_fn(|k| ..) with a closure that
    carries (seed, remaining digits) in captured variables: call k is iteration k of the radix
    loop, with i = 10 - k.  Returns False when the body is not of that shape."""
    body = se.body
    r = strip(se.ret)
    if not (util.is_call(r) and r[1] in ("std::array::from_fn", "core::array::from_fn")):
        return False
    info = se.term_info.get(r[3][1], {})
    cl = info.get("locargs", info.get("args", (("?",),)))[0]
    n = [a.get("val") for a in body.blocks[r[3][1]]["term"].get("resolved_args", []) if "const" in a]
    if not (cl[0] == "agg" and cl[1] == "closure" and len(cl[4]) == 2 and n and n[0] == 10):
        return False
    st = se.in_state.get(r[3][1], {})
    roles = {}
    for k_, c in enumerate(cl[4]):
        if c[0] == "ref" and c[2] and c[1][0] == "local":
            v = strip(util.value_before_terminator(se, r[3][1], c[1]))
            if v == ("param", 1):
                roles["seed"] = k_
            elif v[0] == "agg" and v[1] == "array" and [x[1] for x in v[4]] == list(range(10)):
                roles["grid"] = k_
    rep.check(set(roles) == {"seed", "grid"}, rule, fn, "radices", "from_fn over k = 0..10 with the closure carrying (seed, digits [0..9]); radix i = 10 - k", "from_fn closure does not start from (the seed parameter, the digits 0..9)", body.loc())
    if set(roles) != {"seed", "grid"}:
        return True
    cse = ctx.wrap.run(cl[2])
    if cse is None:
        rep.violation(rule, fn, "shape", "closure body not analysable", body.loc())
        return True
    env1 = ("deref", ("param", 1)) if cse.body.local_ty(1).k == "ref" else ("param", 1)
    root = {k: ("deref", ("field", env1, v)) for k, v in roles.items()}
    fin = list(cse.final_states.values())
    if len(fin) != 1:
        rep.violation(rule, fn, "shape", "closure has several exits", cse.body.loc())
        return True
    seed_step = fin[0].get(root["seed"])
    grid_step = fin[0].get(root["grid"])
    env = {strip(root["seed"]): "seed", strip(root["grid"]): "G", ("param", 2): "k"}
    i_expr = ("sub", I(10), S("k"))
    rem = ("rem", S("seed"), i_expr)
    got = {"seed": N(seed_step, env) if seed_step is not None else None, "R": N(cse.ret, env)}
    want = {"seed": ("Div", S("seed"), i_expr), "R": ("idx", S("G"), rem)}
    shift = None
    cfi = for_info(ctx, cse)
    inner = [(h, e, s_) for h, (e, s_, lp) in cfi.items() if s_ is not None and s_[0] == "agg" and s_[2] == "std::ops::Range"]
    gstep = strip(grid_step) if grid_step is not None else ("?",)
    if len(inner) == 1 and gstep[0] == "phi" and gstep[2] == inner[0][0]:
        ih, ielem, isrc = inner[0]
        ist = loop_state(cse, ih)
        if root["grid"] in ist:
            ginit, gs = ist[root["grid"]]
            env2 = dict(env)
            env2[phi_of(cse, ih, root["grid"])] = "Gi"
            env2[ielem] = "j"
            ok = (N(gs, env2) == ("upd", S("Gi"), comm(("add", rem, S("j"))), ("idx", S("Gi"), comm(("add", ("add", rem, S("j")), I(1)))))
                  and N(ginit, env2) == S("G") and tuple(N(x, env2) for x in isrc[4]) == (I(0), ("sub", ("sub", i_expr, rem), I(1))))
            if ok:
                shift = ("shift", rem, i_expr)
    elif gstep[0] == "after" and util.is_call(gstep[1]) and gstep[1][1].endswith("::copy_within") and gstep[2] == 0:
        c = gstep[1]
        r_ = strip(c[2][1])
        if r_[0] == "agg" and r_[2] == "std::ops::Range":
            lo, hi, dst = N(r_[4][0], env), N(r_[4][1], env), N(c[2][2], env)
            if lo == comm(("add", rem, I(1))) and hi == i_expr and dst == rem:
                shift = ("shift", rem, i_expr)
    got["gap"] = shift
    want["gap"] = ("shift", rem, i_expr)
    want = {k_: comm(v) for k_, v in want.items()}
    good = got == want
    rep.check(good, rule, fn, "step", "call k: r = seed % (10-k); result[k] = digits[r]; seed /= (10-k); digits[r+1..10-k] moved one place down", "layout generation step differs from the factorial-base decoding: %s" % {k_: (arith.show(v) if isinstance(v, tuple) and v and isinstance(v[0], str) else str(v)) for k_, v in got.items() if got[k_] != want[k_]}, cse.body.loc())
    # nothing else is written by the closure, and the array it fills is what is returned
    extra = [k_ for k_ in fin[0] if k_[0] == "deref" and k_ not in root.values()]
    rep.check(not extra, rule, fn, "result", "the permuted layout (the from_fn array) is returned", "the closure writes other state: %s" % [show(k_) for k_ in extra], body.loc())
    return True


# ------------------------------------------------------------------------------------ generate_coordinates

def generate_coordinates_shared(ctx, rep, rule, fn, se, cp, init_l, size):
    """the draw written as the shared loop over (identity table, the challenge_count slots of
    the coordinate list): slot r gets table_r[seed_r % (size - r)]"""
    body = se.body
    ist = loop_state(se, init_l[0])
    tab = [(k, v) for k, v in ist.items() if util.is_call(strip(v[0]), "std::vec::from_elem")]
    good = False
    t_exit = None
    if len(tab) == 1:
        key, (init, step) = tab[0]
        env = {phi_of(se, init_l[0], key): "T", init_l[1]: "n"}
        i0 = strip(init)
        good = i0[2][0][:2] == ("int", 0) and N(i0[2][1], {}) == size and N(step, env) == ("upd", S("T"), S("n"), S("n"))
        t_exit = phi_of(se, init_l[0], key)
    rep.check(good, rule, fn, "identity-table", "table = [0, 1, ..., size-1]", "the index table is not initialised to the identity over all cells", body.loc())
    if not good:
        return
    t0 = cp["T0"]
    while t0[0] == "after" and util.is_call(t0[1]) and (t0[1][1].endswith("DerefMut>::deref_mut") or t0[1][1].endswith("::index_mut")):
        t0 = strip(t0[3])
    r0 = cp["R_old"]
    while r0[0] == "after" and util.is_call(r0[1]) and r0[1][1].endswith("DerefMut>::deref_mut"):
        r0 = strip(r0[3])
    picks_ok = util.is_call(r0, "std::vec::from_elem") and strip(r0[2][0])[:2] == ("int", 0) and N(r0[2][1], {}) == ("param", 3)
    table_ok = t0 == strip(t_exit) and cp["len_ok"]
    seed_ok = cp["seed0"] == ("param", 4)
    bad = {k: v for k, v in (("picks", picks_ok), ("table", table_ok), ("seed", seed_ok)) if not v}
    rep.check(not bad, rule, fn, "draw-without-replacement", "the shared draw loop: per slot r of the challenge_count coordinates, pick = seed % (size - r); coordinates[r] = table[pick]; table[pick+1..size-r] moved one place down; seed /= (size - r)", "coordinate selection differs from the draw-without-replacement scheme: %s" % sorted(bad), body.loc())
    rep.check(cp["single_exit"], rule, fn, "every-round", "every slot is filled: the draw loop has no other exit", "the draw loop can be left before all coordinates are drawn", body.loc())
    r = strip(se.ret)
    while r[0] == "after" and util.is_call(r[1]) and (r[1][1].endswith("DerefMut>::deref_mut") or r[1][1].endswith("for &'a mut [T]>::into_iter") or r[1][1].endswith("<impl [T]>::iter_mut")) and r[1][3] != cp["site"]:
        r = strip(r[3])
    root_ok = any(x == r0 for x in walk(r)) and any(util.is_call(x) and x[3] == cp["site"] for x in walk(r))
    rep.check(root_ok, rule, fn, "result", "the coordinate list the loop filled is returned", "the returned list is not the one the draw loop filled", body.loc())


EMPTY_VEC = ("std::vec::Vec::<T>::with_capacity", "std::vec::Vec::<T>::new", "alloc::vec::Vec::<T>::with_capacity", "alloc::vec::Vec::<T>::new")


def pushed_per_round(step, ph):
    """step = the loop-carried value of a Vec at the back edge, ph = its value at the head:
    the pushed value when step is exactly `ph` after one `push` (nothing else done to it)"""
    st = strip(step)
    if st[0] == "after" and util.is_call(st[1], "std::vec::Vec::<T, A>::push") and st[2] == 0 and st[3] == ph and len(st[1][2]) == 2:
        return st[1][2][1]
    return None


def generate_coordinates_rule(ctx, rep, rule="distinct"):
    fn = "matrix_card::generate_coordinates"
    se = ctx.wrap.run(fn)
    if se is None:
        rep.violation(rule, fn, "anchor", "function not found")
        return
    body = se.body
    fi = for_info(ctx, se)
    size = ("mul", frozenset([("param", 1), ("param", 2)]))
    init_l = rounds = gap = None
    for head, (elem, src, lp) in fi.items():
        if src is None or src[0] != "agg" or src[2] != "std::ops::Range":
            continue
        a, b = N(src[4][0], {}), N(src[4][1], {})
        if a == I(1) and b == size:
            init_l = (head, elem)
        elif a == I(0) and b == ("param", 3):
            rounds = (head, elem)
        else:
            gap = (head, elem, src)
    slots = None
    if not rounds:
        # `for (r, slot) in coordinates.iter_mut().enumerate()`: the rounds are the slots of the
        # coordinate list itself - r counts 0.. in step with the slots, all of them are visited
        # (the list is exclusively borrowed by the loop, nothing else can write it meanwhile)
        for head, (elem, src, lp) in fi.items():
            if util.is_call(src, "std::iter::Iterator::enumerate") and util.is_call(strip(src[2][0]), "core::slice::<impl [T]>::iter_mut") and (lp["resolved"] or "").startswith("<std::iter::Enumerate<I> as std::iter::Iterator>::next"):
                im = strip(src[2][0])
                old_ = se.call_old.get((im[3][:2], 0))
                la = (se.term_info.get(im[3][1], {}).get("locargs") or (("?",),))[0]
                if old_ is not None and util.is_call(strip(old_), "std::vec::from_elem") and la[0] == "ref" and la[1][0] == "local" and N(strip(old_)[2][1], {}) == ("param", 3):
                    slots = {"im": im, "old": strip(old_), "loc": la[1], "elem": elem}
                    rounds = (head, ("field", elem, 0))
    if not rounds:
        cp = countdown_pick(ctx, se)
        if cp is not None and init_l is not None:
            return generate_coordinates_shared(ctx, rep, rule, fn, se, cp, init_l, size)
        rep.violation(rule, fn, "shape", "no loop over the rounds `0..challenge_count`", body.loc())
        return
    # ---- identity table: zero-filled + table[n] = n loop, or (0..size).collect()
    table_init = None
    good = False
    if init_l is not None:
        ist = loop_state(se, init_l[0])
        tab = [(k, v) for k, v in ist.items() if util.is_call(strip(v[0]), "std::vec::from_elem")]
        if len(tab) == 1:
            key, (init, step) = tab[0]
            env = {phi_of(se, init_l[0], key): "T", init_l[1]: "n"}
            i0 = strip(init)
            good = i0[2][0][:2] == ("int", 0) and N(i0[2][1], {}) == size and N(step, env) == ("upd", S("T"), S("n"), S("n"))
            tkey = key
            table_init = phi_of(se, init_l[0], tkey)
    else:
        for bb_, info_ in se.term_info.items():
            if info_.get("k") == "call" and info_["name"].endswith("::collect") and info_["dest"][0] == "local":
                src = strip(info_["args"][0])
                if src[0] == "agg" and src[2] == "std::ops::Range" and N(src[4][0], {}) == I(0) and N(src[4][1], {}) == size:
                    out_ty = se.body.local_ty(info_["dest"][1])
                    if out_ty is not None and out_ty.s.startswith("std::vec::Vec<u8"):
                        good = True
                        tkey = info_["dest"]
                        table_init = info_["term"]
        if not good:
            # `for (n, cell) in table.iter_mut().enumerate() { *cell = n as u8 }` over the zero-filled
            # table of `size` cells: table[n] = n (size is a u8 product, so n as u8 is n)
            for head, (elem, src, lp) in fi.items():
                if util.is_call(src, "std::iter::Iterator::enumerate") and util.is_call(strip(src[2][0]), "core::slice::<impl [T]>::iter_mut") and (lp["resolved"] or "").startswith("<std::iter::Enumerate<I> as std::iter::Iterator>::next"):
                    im = strip(src[2][0])
                    old_ = se.call_old.get((im[3][:2], 0))
                    la = (se.term_info.get(im[3][1], {}).get("locargs") or (("?",),))[0]
                    if old_ is None or not (util.is_call(strip(old_), "std::vec::from_elem") and la[0] == "ref" and la[1][0] == "local"):
                        continue
                    o_ = strip(old_)
                    wr = [(loc_, v_) for (bi_, si_), (loc_, v_) in se.assigns.items() if loc_[0] == "deref" and strip(loc_[1])[:2] == ("field", elem)]
                    loop_ = set()
                    for e_ in cfg.back_edges(body):
                        if e_[1] == head:
                            loop_ |= cfg.natural_loop(body, e_)
                    exits_ = {s_ for b_ in loop_ for s_ in body.succs(b_) if s_ not in loop_ and body.blocks[s_]["term"]["k"] != "unreachable"}
                    if (o_[2][0][:2] == ("int", 0) and N(o_[2][1], {}) == size and len(wr) == 1 and strip(wr[0][0][1]) == ("field", elem, 1)
                            and strip(wr[0][1]) == ("cast", "IntToInt", ("field", elem, 0), "u8") and exits_ == {lp["exit_bb"]}):
                        good = True
                        tkey = la[1]
                        table_init = ("after", im, 0, old_)
        if not good:
            # a copy of a constant table [0, 1, .., 255]: every card has at most 255 cells (the
            # size is a u8), so the cells the draw can reach hold their own index
            for (bi_, si_), (loc_, v_) in se.assigns.items():
                vv = strip(v_)
                if loc_[0] == "local" and vv[0] == "bytes" and bytes(vv[1]) == bytes(range(256)):
                    lt_ = se.body.local_ty(loc_[1])
                    if lt_ is not None and lt_.k == "array" and lt_.len == 256:
                        good = True
                        tkey = loc_
                        table_init = v_
    rep.check(good, rule, fn, "identity-table", "table = [0, 1, ..., size-1]", "the index table is not initialised to the identity over all cells", body.loc())
    if not good:
        return
    # ---- rounds
    rst = loop_state(se, rounds[0])
    seed = coords = table = None
    for key, (init, step) in rst.items():
        ph = phi_of(se, rounds[0], key)
        si = strip(init)
        if si == ("param", 4):
            seed = (key, ph, step)
        elif key == tkey:
            table = (key, ph, init, step)
        elif util.is_call(si, "std::vec::from_elem"):
            coords = (key, ph, init, step)
        elif slots is None and util.is_call(si) and si[1] in EMPTY_VEC and pushed_per_round(step, ph) is not None:
            # an empty list that every round appends to, once and unconditionally (the value at the
            # back edge is `push` applied to the value at the head - a conditional push would be a
            # merge): before round r it holds r entries, so the push is the write of entry r, and
            # after the challenge_count rounds of `0..challenge_count` it holds challenge_count
            coords = (key, ph, ("call", "std::vec::from_elem", (("int", 0, "u8"), ("param", 3)), None), ("upd", ph, ("i", rounds[1]), pushed_per_round(step, ph)))
    if slots is not None:
        # the one store through the slot reference is the write of coordinates[r]
        sk = [k for k in rst if k[0] == "deref" and strip(k[1]) == ("field", slots["elem"], 1)]
        wr = [(loc, v) for (bi, si_), (loc, v) in se.assigns.items() if loc[0] == "deref" and strip(loc[1]) == ("field", slots["elem"], 1)]
        coords = None
        if len(sk) == 1 and len(wr) == 1:
            cph = ("coords-before-round",)
            coords = (slots["loc"], cph, slots["old"], ("upd", cph, ("i", rounds[1]), rst[sk[0]][1]))
    if not (seed and coords and table):
        rep.violation(rule, fn, "shape", "round state is not (seed, coordinates, table)", body.loc())
        return
    env = {seed[1]: "seed", coords[1]: "C", table[1]: "T", rounds[1]: "r"}
    if slots is not None and N(slots["old"][2][1], {}) == ("param", 3):
        # r < len(coordinates) = challenge_count, a u8: `r as u8` is r
        env[("cast", "IntToInt", rounds[1], "u8")] = "r"
    cnt = ("sub", size, S("r"))
    pick = ("rem", S("seed"), cnt)
    got = {
        "seed": N(seed[2], env),
        "C": N(coords[3], env),
        "C0": N(strip(coords[2])[2][1], {}),
        "T0": strip(table[2]),
    }
    want = {
        "seed": ("Div", S("seed"), cnt),
        "C": ("upd", S("C"), S("r"), ("idx", S("T"), pick)),
        "C0": ("param", 3),
        "T0": strip(table_init),
    }
    shift = None
    tstep = strip(table[3])
    if gap is not None and tstep[0] == "phi" and tstep[2] == gap[0]:
        gst = loop_state(se, gap[0])
        if tkey in gst:
            ginit, gs = gst[tkey]
            env2 = dict(env)
            env2[phi_of(se, gap[0], tkey)] = "Tg"
            env2[gap[1]] = "j"
            ok = (N(gs, env2) == ("upd", S("Tg"), S("j"), ("idx", S("Tg"), comm(("add", S("j"), I(1))))) and N(ginit, env2) == S("T")
                  and tuple(N(x, env2) for x in gap[2][4]) == (pick, ("sub", cnt, I(1))))
            if ok:
                shift = ("shift", pick, cnt)
    elif tstep[0] == "after" and util.is_call(tstep[1]) and tstep[1][1].endswith("::copy_within") and tstep[2] == 0 and tstep[3] == table[1]:
        c = tstep[1]
        r_ = strip(c[2][1])
        if r_[0] == "agg" and r_[2] == "std::ops::Range":
            lo, hi, dst = N(r_[4][0], env), N(r_[4][1], env), N(c[2][2], env)
            if lo == comm(("add", pick, I(1))) and hi == cnt and dst == pick:
                shift = ("shift", pick, cnt)
    # Vec::remove(pick): yields table[pick] and moves everything behind it one place down; the
    # table then holds exactly the size - r cells not drawn yet (one removal per round, no other
    # change of the table), so the cells moved are pick+1 .. size-r
    cstep = strip(coords[3])
    if shift is None and tstep[0] == "after" and util.is_call(tstep[1], "std::vec::Vec::<T, A>::remove") and tstep[2] == 0 and tstep[3] == table[1]:
        rm = tstep[1]
        if cstep[0] == "upd" and cstep[1] == coords[1] and cstep[2][0] == "i" and strip(cstep[3]) == rm:
            got["C"] = ("upd", S("C"), N(cstep[2][1], env), ("idx", S("T"), N(rm[2][1], env)))
            if N(rm[2][1], env) == pick:
                shift = ("shift", pick, cnt)
    got["gap"] = shift
    want["gap"] = ("shift", pick, cnt)
    bad = {k: got[k] for k in got if got[k] != want[k]}
    rep.check(not bad, rule, fn, "draw-without-replacement", "per round r: pick = seed % (size - r); coordinates[r] = table[pick]; table[pick+1..size-r] moved one place down; seed /= (size - r)", "coordinate selection differs from the draw-without-replacement scheme: %s" % {k: (arith.show(v) if isinstance(v, tuple) and v and isinstance(v[0], str) and v[0] != "phi" else str(v)[:120]) for k, v in bad.items()}, body.loc())
    # every round is unconditional: no extra exits from the rounds loop
    loop = set()
    for e in cfg.back_edges(body):
        if e[1] == rounds[0]:
            loop |= cfg.natural_loop(body, e)
    exits = set()
    for b in loop:
        for s_ in body.succs(b):
            if s_ not in loop and body.blocks[s_]["term"]["k"] != "unreachable":
                exits.add((b, s_))
    fi_r = [v for h, v in fi.items() if h == rounds[0]][0][2]
    good = exits == {(fi_r["switch_bb"], fi_r["exit_bb"])}
    rep.check(good, rule, fn, "no-early-exit", "the rounds loop is left only when all challenge_count rounds are drawn", "the rounds loop has additional exits %s (rounds may be skipped or filled differently)" % sorted(exits), body.loc())
    r = strip(se.ret)
    if slots is not None:
        # the list as the slot loop left it: the value the vector had before, after `iter_mut` at that site
        res_ok = r[0] == "after" and util.is_call(r[1]) and r[1][3] == slots["im"][3] and r[2] == 0 and strip(r[3]) == slots["old"]
    else:
        res_ok = r == coords[1]
    rep.check(res_ok, rule, fn, "result", "the drawn coordinates are returned", "the returned vector is not the coordinate list", body.loc())
