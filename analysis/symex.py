"""Symbolic term builder over extracted MIR (DESIGN §3: A3 provenance, A5 transcripts, A6 terms).

A forward symbolic evaluation of one MIR body over its non-cleanup CFG.  Values are immutable
terms (nested tuples); memory is a store root -> term where a root is a local or the pointee
of a pointer-valued term that is not a locally created reference.  Joins with differing
values create canonical phi symbols (fn, block, root), so loops converge after a few passes
and a loop body is expressed over the header's phi symbols (which is the per-iteration
transfer function the cipher rules need).  Calls to crate-local functions can be inlined
through memoised summaries (return term + effects on `&mut` parameters' pointees); library
calls stay opaque `call` terms that the rule modules interpret by resolved path.

Nothing is executed: this is a static evaluation of the program text as rustc lowered it.

Term grammar (tuples):
  ("param", n)                         value of argument local n at entry
  ("int", v, ty)                       integer / bool / char constant
  ("bytes", b, name|None)              constant byte array / str literal
  ("cdef", path)                       named constant whose value is not a byte array / int
  ("fn", path) ("zst", ty) ("uninit", n) ("unknown", why)
  ("ref", L, mut) ("deref", T) ("field", T, i) ("index", T, I) ("cindex", T, off, from_end)
  ("subslice", T, a, b, from_end) ("downcast", T, v)
  ("call", name, args, site)           site = (fn path, bb[, outer sites...])
  ("after", callterm, argidx, old)     pointee after being passed by &mut to a call
  ("binop", op, a, b) ("unop", op, a) ("cast", kind, t, ty) ("discr", t) ("len", t)
  ("agg", kind, name, variant, ops) ("repeat", t, n)
  ("upd", base, elem, v)               functional update; elem = ("f", i) | ("i", T) | ("ci", off, fe)
  ("phi", fn, bb, rootkey, site)
"""
import re

from cfg import rpo

MAX_PASSES = 60
REF_IDENTITY = (
    "std::array::<impl [T; N]>::as_mut_slice",
    "std::array::<impl [T; N]>::as_slice",
    "core::array::<impl [T; N]>::as_mut_slice",
    "core::array::<impl [T; N]>::as_slice",
    "std::slice::from_mut", "core::slice::from_mut", "std::slice::from_ref", "core::slice::from_ref",   # the one-element slice view of a place
    "std::array::<impl std::convert::AsMut<[T]> for [T; N]>::as_mut",
    "core::array::<impl std::convert::AsMut<[T]> for [T; N]>::as_mut",
    "std::array::<impl std::convert::AsRef<[T]> for [T; N]>::as_ref",
    "core::array::<impl std::convert::AsRef<[T]> for [T; N]>::as_ref",
    "<std::vec::Vec<T, A> as std::ops::Deref>::deref",
    "<std::vec::Vec<T, A> as std::ops::DerefMut>::deref_mut",
    "std::vec::Vec::<T, A>::as_slice", "std::vec::Vec::<T, A>::as_mut_slice",       # the same view, named
    "<digest::generic_array::GenericArray<T, N> as std::ops::Deref>::deref",
    "<digest::generic_array::GenericArray<T, N> as std::ops::DerefMut>::deref_mut",
    "std::io::Read::by_ref", "std::io::Write::by_ref",      # `&mut *self`: the reader / writer itself
)
# std wrappers that are their single field as far as values go
TRANSPARENT = ("std::num::Wrapping", "core::num::Wrapping")
IC_PATH = "wrath_header::inner_crypto::InnerCrypto"
IC_APPLY = IC_PATH + "::apply"
# the two by-value conversions between a `GenericArray<T, N>` and `[T; n]` (what `into()` resolves to)
GA_FROM = re.compile(r"^(digest::)?generic_array::impls::<impl (std|core)::convert::From<((digest::)?generic_array::GenericArray<T, .*>> for \[T; \d+\]|\[T; \d+\]> for (digest::)?generic_array::GenericArray<T, .*>)>::from$")
WRAPPING_OPS = {"Add": "wrapping_add", "Sub": "wrapping_sub", "Mul": "wrapping_mul"}
MAX_DEPTH = 10


def is_loc_shaped(t):
    return t[0] in ("param", "deref", "field", "index", "cindex", "subslice", "downcast", "local")


class Summary:
    def __init__(self, se):
        self.ret = se.ret
        self.effects = se.param_effects()
        self.ok = se.converged and not nested_param_writes(se)
        self.se = se


def nested_param_writes(se):
    """the body stores through a pointer that it reached through a parameter's pointee or
    through a by-value parameter's field (`**p = ..`, a captured `&mut`): such effects are not
    part of a summary (only `*param` is), so the body must not be inlined through one"""
    def projection_of_param(t):
        while t[0] in ("field", "deref", "downcast", "index", "cindex", "ref", "refv"):
            t = t[1]
        return t[0] == "param"

    for st in se.final_states.values():
        for k in st:
            if k[0] == "deref" and k[1][0] != "param" and projection_of_param(k[1]):
                return True
    return False


class Engine:
    """Shared context: fact base, inline policy, summary cache."""

    def __init__(self, fb, inline=None):
        self.fb = fb
        self.inline = inline or (lambda path, depth: False)
        self._summ = {}
        self._stack = []
        self._se = {}

    def run(self, path):
        """symbolic execution of a body, memoised"""
        if path not in self._se:
            b = self.fb.body(path)
            if b is None:
                return None
            se = SymExec(self, b)
            self._se[path] = se
            se.execute()
        return self._se[path]

    def deref_field(self, path):
        """i when the body `path` (a crate type's deref / deref_mut) returns a reference to field
        i of its receiver and does nothing else; else None"""
        memo = self.__dict__.setdefault("_deref_field", {})
        if path in memo:
            return memo[path]
        memo[path] = None
        b = self.fb.body(path)
        if b is not None and b.arg_count == 1 and not any(blk["term"]["k"] == "call" for blk in b.blocks if not blk["cleanup"]):
            se = SymExec(Engine(self.fb), b)
            se.execute()
            r = se.ret
            if r is not None and r[0] == "ref" and r[1][0] == "field" and r[1][1] == ("deref", ("param", 1)) and isinstance(r[1][2], int) and not se.param_effects():
                memo[path] = r[1][2]
        return memo[path]

    def summary(self, path):
        if path in self._summ:
            return self._summ[path]
        if path in self._stack or len(self._stack) >= MAX_DEPTH:
            return None
        b = self.fb.body(path)
        if b is None:
            return None
        self._stack.append(path)
        try:
            se = self.run(path)
            s = Summary(se)
        finally:
            self._stack.pop()
        self._summ[path] = s
        return s


def inline_all(path, depth):
    return True


def wrapper_policy(fb):
    """inline crate-local functions that are pure structure: no loops, no calls to non-local
    functions (transitively: local callees must qualify too)."""
    memo = {}

    def ok(path, depth=0, stack=()):
        if path in memo:
            return memo[path]
        b = fb.body(path)
        if b is None or path in stack:
            return False
        from cfg import back_edges

        res = True
        if back_edges(b):
            res = False
        else:
            for _, t in b.calls():
                callee = t.get("resolved") if t.get("resolved_local") else None
                if callee is None:
                    res = False
                    break
                if not ok(callee, depth + 1, stack + (path,)):
                    res = False
                    break
        memo[path] = res
        return res

    return lambda path, depth: ok(path)


def pure_policy(fb):
    """inline crate-local functions without loops and without `&mut` parameters"""
    memo = {}

    def ok(path, depth):
        if path in memo:
            return memo[path]
        b = fb.body(path)
        res = False
        if b is not None and "inputs" in b.d:
            from cfg import back_edges

            res = not back_edges(b) and not any(fb.ty(i).k == "ref" and fb.ty(i).d.get("mut") for i in b.d["inputs"])
        memo[path] = res
        return res

    return ok


class SymExec:
    def __init__(self, eng, body):
        self.eng = eng
        self.fb = eng.fb
        self.body = body
        self.fn = body.path
        self.in_state = {}
        self.out_state = {}
        self.phi_inputs = {}
        self.term_info = {}  # bb -> dict describing evaluated terminator
        self.assigns = {}  # (bb, si) -> (loc, value)
        self.ret = None
        self.ret_by_block = {}
        self.final_states = {}
        self.converged = False
        self.site_info = {}
        self.sticky = set()
        self.forced = {}
        self.passno = 0
        self.call_old = {}  # (site, argidx) -> pointee value of a `&mut` argument at the call
        self.unsized = {}   # reference term that was unsized from `&[T; N]` -> N

    # ------------------------------------------------------------------ store access
    def default(self, root):
        if root[0] == "local":
            n = root[1]
            if 1 <= n <= self.body.arg_count:
                return ("param", n)
            return ("uninit", n)
        return root  # ("deref", T): initial pointee value

    def split(self, loc):
        """loc -> (root, [elems]) with root = ("local", n) | ("deref", T)"""
        path = []
        while True:
            k = loc[0]
            if k in ("local", "deref"):
                break
            if k == "field":
                path.append(("f", loc[2]))
                loc = loc[1]
            elif k == "index":
                path.append(("i", loc[2]))
                loc = loc[1]
            elif k == "cindex":
                path.append(("ci", loc[2], loc[3]))
                loc = loc[1]
            elif k == "downcast":
                path.append(("dc", loc[2]))
                loc = loc[1]
            elif k == "subslice":
                path.append(("ss", loc[2], loc[3], loc[4]))
                loc = loc[1]
            else:
                # a value-shaped term used as a location (e.g. call result): treat as root
                loc = ("deref", ("ref", loc, False)) if False else loc
                break
        path.reverse()
        return loc, path

    def read(self, st, loc):
        root, path = self.split(loc)
        if root[0] in ("local", "deref"):
            v = st.get(root)
            if v is None:
                v = self.default(root)
        else:
            v = root
        cur = root
        for e in path:
            if e[0] == "ss":
                # `[a, b, rest @ ..] = array`: a sub-array of a fixed-size array is the array of its elements
                n = self.loc_array_len(cur) if cur is not None else None
                if n is not None:
                    lo, hi = e[1], (n - e[2] if e[3] else e[2])
                    if 0 <= lo <= hi <= n:
                        v = ("agg", "array", None, 0, tuple(proj_read(v, ("ci", i, False)) for i in range(lo, hi)))
                        cur = None
                        continue
            v = proj_read(v, e)
            cur = self._step_loc(cur, e)
        return v

    @staticmethod
    def _step_loc(cur, e):
        if cur is None:
            return None
        if e[0] == "f":
            return ("field", cur, e[1])
        if e[0] == "dc":
            return ("downcast", cur, e[1])
        return None

    def write(self, st, loc, val):
        root, path = self.split(loc)
        if root[0] not in ("local", "deref"):
            return  # writing into a temporary value: no store effect
        old = st.get(root)
        if old is None:
            old = self.default(root)
        st[root] = upd_path(old, path, val)

    # ------------------------------------------------------------------ evaluation
    def place_loc(self, st, p):
        loc = ("local", p["l"])
        cur_ty = self.body.local_ty(p["l"]) if p["p"] else None
        for e in p["p"]:
            if isinstance(e, dict) and "f" in e and e["f"] == 0 and cur_ty is not None and cur_ty.k == "adt" and (cur_ty.path in TRANSPARENT or cur_ty.path in self.fb.flatten):
                cur_ty = self.fb.ty(e["ty"]) if "ty" in e else None
                continue                # `.0` of a transparent wrapper is the value itself
                                        # (of a flattened holder: the fields are the holder's, see facts._compute_flatten)
            if e == "*":
                cur_ty = cur_ty.to if cur_ty is not None and cur_ty.k in ("ref", "rawptr") and getattr(cur_ty, "to", None) is not None else None
            elif isinstance(e, dict) and "f" in e:
                cur_ty = self.fb.ty(e["ty"]) if "ty" in e else None
            else:
                cur_ty = None
            if e == "*":
                v = self.read(st, loc)
                if v[0] in ("ref", "refv"):
                    loc = v[1]
                else:
                    loc = ("deref", v)
            elif "f" in e:
                loc = ("field", loc, e["f"])
            elif "i" in e:
                loc = ("index", loc, self.read(st, ("local", e["i"])))
            elif "ci" in e:
                loc = ("cindex", loc, e["ci"], e["fe"])
            elif "ss_from" in e:
                loc = ("subslice", loc, e["ss_from"], e["ss_to"], e["fe"])
            elif "dc" in e:
                loc = ("downcast", loc, e["dc"])
            else:
                loc = ("unknown", "proj:%s" % (e,))
        return loc

    def const_term(self, o):
        if "fn" in o:
            return ("fn", o["fn"])
        v = o.get("val", {})
        name = o.get("def")
        if "promoted" in o:
            # promoted constant: evaluate its body (a tiny MIR body of the same function)
            owner = o.get("promoted_of") or (self.fn if self.body.kind != "Promoted" else self.body.d.get("parent"))
            if o.get("promoted_of") is None and self.body.d.get("variant_of"):
                owner = self.body.d["variant_of"]
            pp = "%s::promoted[%d]" % (owner, o["promoted"])
            pse = self.eng.run(pp)
            if pse is not None and pse.ret is not None:
                r = pse.ret
                if r[0] == "ref" and pse.final_states:
                    # a promoted returns the address of its own temporary: take the value
                    fs = next(iter(pse.final_states.values()))
                    val = pse.read(fs, r[1])
                    for _ in range(4):          # `&&CONST`: the temporary holds the address of another
                        if val[0] == "ref" and val[1][0] == "local":
                            val = ("refv", pse.read(fs, val[1]))
                        elif val[0] == "refv" and val[1][0] == "ref" and val[1][1][0] == "local":
                            val = ("refv", ("refv", pse.read(fs, val[1][1])))
                        else:
                            break

                    def own_locals(x, depth=0):
                        """references to the promoted body's own temporaries inside the value (`Some(&0)`):
                        the values they hold"""
                        if not isinstance(x, tuple) or not x or not isinstance(x[0], str) or depth > 6:
                            return x
                        if x[0] == "ref" and isinstance(x[1], tuple) and x[1] and x[1][0] == "local":
                            return ("refv", own_locals(pse.read(fs, x[1]), depth + 1))
                        if x[0] == "agg":
                            return x[:4] + (tuple(own_locals(y, depth + 1) for y in x[4]),)
                        if x[0] == "refv":
                            return ("refv", own_locals(x[1], depth + 1))
                        return x
                    return ("refv", own_locals(val))
                return r
            return ("unknown", "promoted")
        ty = self.fb.ty(v["ty"]).s if "ty" in v else "?"
        if "int" in v:
            return ("int", int(v["int"]), ty)
        if "bytes" in v:
            t = ("bytes", bytes(v["bytes"]), name)
            if v.get("ck") == "ptr":
                return ("refv", t)
            if v.get("ck") == "slice":
                return ("refv", t)
            return t
        if v.get("ck") == "zst":
            return ("zst", ty)
        if name:
            return ("cdef", name)
        return ("unknown", "const:%s" % ty)

    def operand(self, st, o):
        k = o["k"]
        if k in ("copy", "move"):
            return self.read(st, self.place_loc(st, o["place"]))
        if k == "const":
            return self.const_term(o)
        return ("unknown", "operand")

    def rvalue(self, st, r):
        k = r["k"]
        if k == "use":
            return self.operand(st, r["op"])
        if k == "repeat":
            return ("repeat", self.operand(st, r["op"]), r["len"])
        if k == "ref" or k == "rawptr":
            return ("ref", self.place_loc(st, r["place"]), bool(r.get("mut")))
        if k == "cast":
            t = self.operand(st, r["op"])
            ck = r["ck"]
            if ck.startswith("PointerCoercion(Unsize") or ck.startswith("PointerCoercion(MutToConstPointer"):
                # array -> slice unsizing keeps the bytes; the length comes from the (static) type
                # of what is unsized and is remembered for `len()` on the resulting slice
                if ck.startswith("PointerCoercion(Unsize") and r["op"]["k"] in ("copy", "move"):
                    sty = place_ty(self.fb, self.body, r["op"]["place"])
                    sty = sty.peel_refs() if sty is not None else None
                    if sty is not None and sty.k == "array" and isinstance(sty.len, int):
                        self.unsized[t] = sty.len
                return t
            if ck == "Transmute" and r["op"]["k"] in ("copy", "move"):
                # `*boxed` as MIR spells it: `(boxed.0.0 as *const T)` dereferenced.  A place of type
                # Box<T> stands for its content here, so that pointer is a reference to the place
                pl = r["op"]["place"]
                if len(pl["p"]) == 2 and all(isinstance(e, dict) and e.get("f") == 0 for e in pl["p"]):
                    bty = place_ty(self.fb, self.body, {"l": pl["l"], "p": []})
                    if bty is not None and bty.k == "adt" and (bty.path or "").split("<")[0] in ("std::boxed::Box", "alloc::boxed::Box"):
                        return ("ref", self.place_loc(st, {"l": pl["l"], "p": []}), False)
            if ck in ("Transmute", "PtrToPtr", "Subtype"):
                return ("cast", ck, t, self.fb.ty(r["ty"]).s)
            if ck == "IntToInt" and t[0] == "int":
                return fold_consts(("cast", ck, t, self.fb.ty(r["ty"]).s))     # `i16::MAX as u32`
            return ("cast", ck, t, self.fb.ty(r["ty"]).s)
        if k == "binop":
            a_, b_ = self.operand(st, r["a"]), self.operand(st, r["b"])
            if a_[0] == "int" and b_[0] == "int":
                # arithmetic on two literals (`(1 << 15) - 1` written out): its value
                return fold_consts(("binop", r["op"], a_, b_))
            return ("binop", r["op"], a_, b_)
        if k == "unop":
            a = self.operand(st, r["a"])
            if r["op"] == "PtrMetadata":
                if a in self.unsized:
                    return ("int", self.unsized[a], "usize")
                if a[0] == "ref":
                    return ("len", ("refv", self.read(st, a[1])))
                return ("len", a)
            return ("unop", r["op"], a)
        if k == "discr":
            v = self.read(st, self.place_loc(st, r["place"]))
            if v[0] == "agg" and v[1] == "adt":
                return ("int", v[3], "discr")
            return ("discr", v)
        if k == "aggregate":
            ops = tuple(self.operand(st, o) for o in r["ops"])
            ak = r["ak"]
            if ak == "adt":
                if r["path"] in TRANSPARENT and len(ops) == 1:
                    return ops[0]       # `Wrapping(x)` is x: the type only selects wrapping operators
                if r["path"] in self.fb.flatten and len(ops) == 1:
                    inner = self.fb.flatten[r["path"]]
                    x = ops[0]
                    if x[0] == "agg" and x[1] == "adt" and x[2] == inner:
                        return ("agg", "adt", r["path"], r["variant"], x[4])
                    n_in = len(self.fb.adts[inner]["variants"][0]["fields"])
                    return ("agg", "adt", r["path"], r["variant"], tuple(proj_read(x, ("f", i)) for i in range(n_in)))
                return ("agg", "adt", r["path"], r["variant"], ops)
            if ak == "closure":
                return ("agg", "closure", r["path"], 0, ops)
            return ("agg", ak, None, 0, ops)
        return ("unknown", "rvalue:%s" % r.get("dbg", k)[:40])

    def operand_ty(self, o):
        if o["k"] in ("copy", "move"):
            return place_ty(self.fb, self.body, o["place"])
        v = o.get("val", {})
        if "ty" in v:
            return self.fb.ty(v["ty"])
        return None

    def do_call(self, st, bb, t):
        site = (self.fn, bb)
        self.site_info[site] = t
        args = tuple(self.operand(st, a) for a in t["args"])
        name = t.get("resolved") or t.get("callee")
        if name is None:
            f = self.operand(st, t["func"])
            name = "<indirect:%s>" % (f,)
        fir = t.get("fn_item_resolved")
        if fir and fir in self.fb.bodies and len(args) == 2 and args[1][0] in ("agg", "zst") and (args[1][0] == "zst" or args[1][1] == "tuple"):
            # `f(a, b)` on a function item handed in as `impl Fn*`: what runs is that function, on
            # the arguments of the tuple (the item itself carries no data)
            name = fir
            args = tuple(args[1][4]) if args[1][0] == "agg" else ()
            t = dict(t, resolved=fir, resolved_local=True, args=[None] * len(args), callee=fir)
        if name == "<T as std::convert::Into<U>>::into":
            ra = [self.fb.ty(a["ty"]).s for a in t.get("resolved_args", []) if "ty" in a]
            if len(ra) == 2:
                cand = "<%s as std::convert::From<%s>>::from" % (ra[1], ra[0])
                if cand in self.fb.bodies:
                    name = cand
                elif ra[1] == "num_bigint::BigInt" and ra[0] == "num_bigint::BigUint" and len(args) == 1 and args[0][0] == "call" and args[0][1] == "num_bigint::BigUint::from_bytes_le" and len(args[0][2]) == 1:
                    # `BigUint::from_bytes_le(v).into()`: the non-negative BigInt of those bytes, which
                    # num-bigint also spells `BigInt::from_bytes_le(Sign::Plus, v)` (zero included: both
                    # normalise an all-zero magnitude to NoSign) - one spelling for the rules
                    v = ("call", "num_bigint::BigInt::from_bytes_le", (("agg", "adt", "num_bigint::Sign", 2, ()), args[0][2][0]), site)
                    dest = self.place_loc(st, t["dest"])
                    self.write(st, dest, v)
                    return {"k": "call", "name": "num_bigint::BigInt::from_bytes_le", "args": v[2], "locargs": v[2], "term": v, "inlined": True, "ret": v, "site": site, "dest": dest}
                elif ra[1] == "num_bigint::BigInt" and ra[0] in ("u8", "u16", "u32", "u64", "usize"):
                    # `v.into()` where the crate used to write `BigInt::from(v)`: the blanket `Into`
                    # is that `From` impl, named as the direct call names it
                    name = "num_bigint::bigint::convert::<impl std::convert::From<%s> for num_bigint::BigInt>::from" % ra[0]
                    t = dict(t, resolved=name, callee=name)
        # `X::default()` where the crate names that very call `X::randomized()`: one spelling
        if name in getattr(self.fb, "named_as", {}) and self.fn != self.fb.named_as[name]:
            name = self.fb.named_as[name]
            t = dict(t, resolved=name, callee=name)
        # `<[u8; 20]>::from(generic_array)` / `GenericArray::from([u8; 20])`: the conversion `into()`
        # resolves to, named directly - the same bytes
        if GA_FROM.match(name) and len(args) == 1:
            name = "<T as std::convert::Into<U>>::into"
        # `x.magnitude().to_bytes_le()` is `x.to_bytes_le().1` (num-bigint: the little-endian bytes
        # of the magnitude, the sign left aside) - one spelling for the rules
        if name == "num_bigint::BigUint::to_bytes_le" and len(args) == 1:
            m_ = args[0]
            for _ in range(4):
                if m_[0] in ("ref", "refv") and isinstance(m_[1], tuple) and m_[1] and m_[1][0] in ("call", "ref", "refv"):
                    m_ = m_[1]
                elif m_[0] == "ref" and m_[1][0] == "deref" and m_[1][1][0] in ("call", "ref", "refv"):
                    m_ = m_[1][1]       # a re-borrow `&*r` of the reference the call returned
                elif m_[0] == "ref" and m_[1][0] == "local":
                    m_ = self.read(st, m_[1])
                else:
                    break
            if m_[0] == "call" and m_[1] == "num_bigint::BigInt::magnitude" and len(m_[2]) == 1:
                v = ("field", ("call", "num_bigint::BigInt::to_bytes_le", (m_[2][0],), site), 1)
                dest = self.place_loc(st, t["dest"])
                self.write(st, dest, v)
                return {"k": "call", "name": "num_bigint::BigInt::to_bytes_le", "args": (m_[2][0],), "locargs": (m_[2][0],), "term": v, "inlined": True, "ret": v, "site": site, "dest": dest}
        # `array.len()`: the slice was unsized from `&[T; N]` in this body - the constant N
        if name == "core::slice::<impl [T]>::len" and len(args) == 1 and args[0] in self.unsized:
            v = ("int", self.unsized[args[0]], "usize")
            dest = self.place_loc(st, t["dest"])
            self.write(st, dest, v)
            return {"k": "call", "name": name, "args": args, "locargs": args, "term": v, "inlined": True, "ret": v, "site": site, "dest": dest}
        # size_of::<primitive integer>() is a constant
        if name in ("std::mem::size_of", "core::mem::size_of") and not args:
            ra = [self.fb.ty(a["ty"]).s for a in t.get("resolved_args", []) if "ty" in a]
            w = {"u8": 1, "i8": 1, "u16": 2, "i16": 2, "u32": 4, "i32": 4, "u64": 8, "i64": 8, "u128": 16, "i128": 16}.get(ra[0]) if len(ra) == 1 else None
            if w is not None:
                v = ("int", w, "usize")
                dest = self.place_loc(st, t["dest"])
                self.write(st, dest, v)
                return {"k": "call", "name": name, "args": args, "locargs": args, "term": v, "inlined": True, "ret": v, "site": site, "dest": dest}
        # a crate type's own `Deref` / `DerefMut` that hands out one of its fields (`impl Deref for
        # Wrapper { fn deref(&self) -> &Inner { &self.0 } }`): a projection of the argument
        if (name.endswith(" as std::ops::Deref>::deref") or name.endswith(" as std::ops::DerefMut>::deref_mut")) and name in self.fb.bodies and len(args) == 1 and args[0][0] == "ref":
            fi = self.eng.deref_field(name)
            if fi is not None:
                r = ("ref", ("field", args[0][1], fi), args[0][2])
                dest = self.place_loc(st, t["dest"])
                self.write(st, dest, r)
                return {"k": "call", "name": name, "args": args, "locargs": args, "term": r, "inlined": True, "ret": r, "site": site, "dest": dest}
        # the keystream applied directly to the cipher inside the one-field stream wrapper, where
        # the pinned tree's forwarding method `InnerCrypto::apply` no longer exists: the same
        # operation under the name the rules know (apply(x, d) is by definition
        # x.<cipher>.apply_keystream(d))
        if name == "rc4::Rc4::apply_keystream" and IC_APPLY not in self.fb.bodies and len(args) == 2 and args[0][0] == "ref" and args[0][1][0] == "field" and args[0][1][2] == 0:
            wty = self.loc_ty(args[0][1][1])
            if wty is not None and wty.k == "adt" and wty.path == IC_PATH and len(self.fb.adt_fields(IC_PATH) or []) == 1:
                name = IC_APPLY
                args = (("ref", args[0][1][1], args[0][2]),) + tuple(args[1:])
                t = dict(t, resolved=IC_APPLY, callee=IC_APPLY, resolved_local=False)
        # reference-to-reference identities of std: the result points into the argument's pointee
        if name in REF_IDENTITY and len(args) == 1 and args[0][0] == "ref":
            dest = self.place_loc(st, t["dest"])
            self.write(st, dest, args[0])
            return {"k": "call", "name": name, "args": args, "locargs": args, "term": args[0], "inlined": True, "ret": args[0], "site": site, "dest": dest}
        # arr.split_at_mut(k) / split_at(k) with a constant point on a fixed-size array: the two
        # sub-slice locations [0, k) and [k, n)
        if name in ("core::slice::<impl [T]>::split_at_mut", "core::slice::<impl [T]>::split_at") and len(args) == 2 and args[0][0] == "ref":
            k_ = const_int(fold_consts(args[1]))
            base_loc = args[0][1]
            lo0 = 0
            n_ = self.loc_array_len(base_loc)
            if n_ is None and base_loc[0] == "subslice" and base_loc[4] is False and isinstance(base_loc[2], int) and isinstance(base_loc[3], int):
                # a part of a part
                lo0, n_, base_loc = base_loc[2], base_loc[3] - base_loc[2], base_loc[1]
            if k_ is not None and n_ is not None and 0 <= k_ <= n_:
                r0 = ("ref", ("subslice", base_loc, lo0, lo0 + k_, False), args[0][2])
                r1 = ("ref", ("subslice", base_loc, lo0 + k_, lo0 + n_, False), args[0][2])
                v = ("agg", "tuple", None, 0, (r0, r1))
                dest = self.place_loc(st, t["dest"])
                self.write(st, dest, v)
                snap = (("refv", self.read(st, args[0][1])), args[1])
                return {"k": "call", "name": name, "args": snap, "locargs": args, "term": v, "inlined": True, "ret": v, "site": site, "dest": dest, "const_range": (lo0, lo0 + k_, n_), "const_split": (k_, n_)}
        # dest[a..b].copy_from_slice(src) with constant bounds: element-wise stores
        if name.split("::")[-1] in ("copy_from_slice", "clone_from_slice") and len(args) == 2 and args[0][0] == "ref" and args[0][1][0] == "subslice" and args[0][1][4] is False and isinstance(args[0][1][2], int) and isinstance(args[0][1][3], int):
            base, a_, b_ = args[0][1][1], args[0][1][2], args[0][1][3]
            srcv = self.read(st, args[1][1]) if args[1][0] in ("ref", "refv") else args[1]
            for k_ in range(b_ - a_):
                self.write(st, ("cindex", base, a_ + k_, False), proj_read(srcv, ("ci", k_, False)))
            dest = self.place_loc(st, t["dest"])
            self.write(st, dest, ("zst", "()"))
            snap = (("mutref", 0), ("refv", srcv))
            return {"k": "call", "name": name, "args": snap, "locargs": args, "term": ("zst", "()"), "inlined": True, "ret": ("zst", "()"), "site": site, "dest": dest, "const_copy": (b_ - a_, srcv)}
        # whole_array.copy_from_slice(&other_array) with equal, type-level lengths: an assignment
        if name.split("::")[-1] in ("copy_from_slice", "clone_from_slice") and len(args) == 2 and args[0][0] == "ref" and args[0][1][0] in ("local", "field"):
            n_d = self.loc_array_len(args[0][1])
            srcv = self.read(st, args[1][1]) if args[1][0] in ("ref", "refv") else args[1]
            n_s = self.value_array_len(st, args[1])
            if n_d is not None and n_d == n_s:
                self.write(st, args[0][1], srcv)
                dest = self.place_loc(st, t["dest"])
                self.write(st, dest, ("zst", "()"))
                return {"k": "call", "name": name, "args": (("mutref", 0), ("refv", srcv)), "locargs": args, "term": ("zst", "()"), "inlined": True, "ret": ("zst", "()"), "site": site, "dest": dest, "const_copy": (n_d, srcv)}
        # Vec / slice / array element access by a plain usize index: a projection of the argument
        if name.endswith("::index_mut") or name.endswith("::index"):
            ra = [self.fb.ty(a["ty"]).s for a in t.get("resolved_args", []) if "ty" in a]
            # arr[a..b] / arr[..b] / arr[a..] with constant bounds on a fixed-size array: a sub-slice location
            if len(args) == 2 and args[0][0] == "ref" and name.startswith("std::array::<impl") and args[1][0] == "agg" and args[1][2] in ("std::ops::Range", "std::ops::RangeTo", "std::ops::RangeFrom"):
                aty = self.operand_ty(t["args"][0])
                n_ = aty.to.len if aty is not None and aty.k == "ref" and aty.to is not None and aty.to.k == "array" else None
                ops_ = [const_int(fold_consts(x)) for x in args[1][4]]      # (`2 * WORD..3 * WORD` folds to constants)
                lo_ = hi_ = None
                if args[1][2] == "std::ops::Range" and len(ops_) == 2:
                    lo_, hi_ = ops_
                elif args[1][2] == "std::ops::RangeTo" and len(ops_) == 1:
                    lo_, hi_ = 0, ops_[0]
                elif args[1][2] == "std::ops::RangeFrom" and len(ops_) == 1:
                    lo_, hi_ = ops_[0], n_
                if n_ is not None and lo_ is not None and hi_ is not None and 0 <= lo_ <= hi_ <= n_:
                    dest = self.place_loc(st, t["dest"])
                    r = ("ref", ("subslice", args[0][1], lo_, hi_, False), args[0][2])
                    self.write(st, dest, r)
                    snap = (("refv", self.read(st, args[0][1])), args[1])
                    return {"k": "call", "name": name, "args": snap, "locargs": args, "term": r, "inlined": True, "ret": r, "site": site, "dest": dest, "const_range": (lo_, hi_, n_)}
            if len(args) == 2 and args[0][0] == "ref" and "std::ops::RangeFull" in ra:
                # x[..]: the whole thing
                dest = self.place_loc(st, t["dest"])
                self.write(st, dest, args[0])
                return {"k": "call", "name": name, "args": args, "locargs": args, "term": args[0], "inlined": True, "ret": args[0], "site": site, "dest": dest}
            if len(args) == 2 and args[0][0] == "ref" and "usize" in ra and not any("Range" in x for x in ra) and (name.startswith("<std::vec::Vec<") or name.startswith("core::slice::index::<impl") or name.startswith("std::array::<impl")):
                dest = self.place_loc(st, t["dest"])
                r = ("ref", ("index", args[0][1], args[1]), args[0][2])
                self.write(st, dest, r)
                snap = (("refv", self.read(st, args[0][1])), args[1])
                return {"k": "call", "name": name, "args": snap, "locargs": args, "term": r, "inlined": True, "ret": r, "site": site, "dest": dest, "elem_access": True}
        # operators of core::num::Wrapping<uN>: the wrapping operation on the (transparent) values
        if "std::num::Wrapping<" in name or "core::num::Wrapping<" in name:
            import re as _re
            mt = _re.match(r"<(?:&)?(?:std|core)::num::Wrapping<(u8|u16|u32|u64|usize)> as (?:std|core)::ops::(Add|Sub|Mul)(Assign)?(?:<[^>]*>)?>::(\w+)$", name)
            if mt and len(args) == 2:
                ity, op, assign = mt.group(1), mt.group(2), mt.group(3)
                fn_ = "core::num::<impl %s>::%s" % (ity, WRAPPING_OPS[op])
                if assign and args[0][0] == "ref":
                    old_ = self.read(st, args[0][1])
                    rhs = args[1][1] if args[1][0] == "refv" else (self.read(st, args[1][1]) if args[1][0] == "ref" else args[1])
                    val = ("call", fn_, (old_, rhs), site)
                    self.write(st, args[0][1], val)
                    self.assigns[(bb, len(self.body.blocks[bb]["stmts"]))] = (args[0][1], val)
                    dest = self.place_loc(st, t["dest"])
                    self.write(st, dest, ("zst", "()"))
                    return {"k": "call", "name": fn_, "args": (old_, rhs), "locargs": args, "term": ("zst", "()"), "inlined": True, "ret": ("zst", "()"), "site": site, "dest": dest}
                if not assign:
                    a_ = args[0][1] if args[0][0] == "refv" else (self.read(st, args[0][1]) if args[0][0] == "ref" else args[0])
                    b_ = args[1][1] if args[1][0] == "refv" else (self.read(st, args[1][1]) if args[1][0] == "ref" else args[1])
                    val = ("call", fn_, (a_, b_), site)
                    dest = self.place_loc(st, t["dest"])
                    self.write(st, dest, val)
                    return {"k": "call", "name": fn_, "args": (a_, b_), "locargs": args, "term": val, "inlined": True, "ret": val, "site": site, "dest": dest}
        # `?` on a value whose variant is known (a spliced helper's `Ok(v)` / `Err(e)`): exact
        if name.endswith(" as std::ops::Try>::branch") and len(args) == 1 and args[0][0] == "agg" and args[0][1] == "adt" and args[0][2] in ("std::result::Result", "std::option::Option"):
            x = args[0]
            is_res = x[2] == "std::result::Result"
            good = (x[3] == 0) if is_res else (x[3] == 1)
            if good:
                v = ("agg", "adt", "std::ops::ControlFlow", 0, (x[4][0],))
            else:
                v = ("agg", "adt", "std::ops::ControlFlow", 1, (("agg", "adt", x[2], x[3], x[4]),))
            dest = self.place_loc(st, t["dest"])
            self.write(st, dest, v)
            return {"k": "call", "name": name, "args": args, "locargs": args, "term": v, "inlined": True, "ret": v, "site": site, "dest": dest}
        # mem::replace(&mut x, v) / mem::take(&mut x) / mem::swap(&mut a, &mut b): exact
        if name in ("std::mem::replace", "core::mem::replace") and len(args) == 2 and args[0][0] == "ref":
            old = self.read(st, args[0][1])
            self.write(st, args[0][1], args[1])
            # the store is a store like any other: recorded at the terminator's position
            self.assigns[(bb, len(self.body.blocks[bb]["stmts"]))] = (args[0][1], args[1])
            dest = self.place_loc(st, t["dest"])
            self.write(st, dest, old)
            return {"k": "call", "name": name, "args": (("mutref", 0), args[1]), "locargs": args, "term": old, "inlined": True, "ret": old, "site": site, "dest": dest}
        if name in ("std::mem::take", "core::mem::take") and len(args) == 1 and args[0][0] == "ref":
            old = self.read(st, args[0][1])
            self.write(st, args[0][1], ("call", "std::default::Default::default", (), site))
            dest = self.place_loc(st, t["dest"])
            self.write(st, dest, old)
            return {"k": "call", "name": name, "args": (("mutref", 0),), "locargs": args, "term": old, "inlined": True, "ret": old, "site": site, "dest": dest}
        if name in ("std::mem::swap", "core::mem::swap") and len(args) == 2 and args[0][0] == "ref" and args[1][0] == "ref":
            a_, b_ = self.read(st, args[0][1]), self.read(st, args[1][1])
            self.write(st, args[0][1], b_)
            self.write(st, args[1][1], a_)
            dest = self.place_loc(st, t["dest"])
            self.write(st, dest, ("zst", "()"))
            return {"k": "call", "name": name, "args": (("mutref", 0), ("mutref", 1)), "locargs": args, "term": ("zst", "()"), "inlined": True, "ret": ("zst", "()"), "site": site, "dest": dest}
        # core::array::from_fn(|i| f(i)): the array [f(0), f(1), .. f(N-1)] when f is a pure closure
        if name in ("std::array::from_fn", "core::array::from_fn") and len(args) == 1 and args[0][0] == "agg" and args[0][1] == "closure":
            n_ = None
            for a_ in t.get("resolved_args", []):
                if "const" in a_ and a_.get("val") is not None:
                    n_ = int(a_["val"])
            elems = self.from_fn_elems(st, args[0], n_, site) if n_ is not None and n_ <= 512 else None
            if elems is not None:
                v = ("agg", "array", None, 0, tuple(elems))
                dest = self.place_loc(st, t["dest"])
                self.write(st, dest, v)
                return {"k": "call", "name": name, "args": args, "locargs": args, "term": v, "inlined": True, "ret": v, "site": site, "dest": dest, "from_fn": (args[0][2], n_)}
        local = (bool(t.get("resolved_local")) or name in self.fb.bodies) and name in self.fb.bodies
        if local and "::{closure#" in name and (t.get("callee") or "").split("::")[-1] in ("call", "call_mut", "call_once") and len(args) == 2 and args[1][0] == "agg" and args[1][1] == "tuple":
            # `f(a, b, c)` on a closure value: Fn::call(&f, (a, b, c)) resolved to the closure body,
            # whose parameters are (environment, a, b, c) - the argument tuple is spread
            args = (args[0],) + tuple(args[1][4])
        dest = self.place_loc(st, t["dest"])
        # in the recorded call term a reference argument is snapshotted to the pointee's value
        # at the call (hash inputs, comparison operands ... are about bytes, not addresses)
        # (a `&mut` argument is recorded as ("mutref", i): its old pointee is carried once, by
        # the ("after", call, i, old) effect term, which keeps chained updates linear in size)
        snap = tuple(
            ((("mutref", i) if a[2] else ("refv", self.read(st, a[1]))) if a[0] == "ref" else a)
            for i, a in enumerate(args)
        )
        callterm = ("call", name, snap, site)
        # ---- crate-local callee: inline through its summary when the policy allows
        if local and self.eng.inline(name, len(self.eng._stack)):
            summ = self.eng.summary(name)
            if summ is not None and summ.ok and summ.ret is not None:
                sub = Subst(self, st, args, site)
                # effects first need old values; compute all substituted values before writing
                ret = sub.value(summ.ret)
                effs = []
                for pi, val in summ.effects.items():
                    a = args[pi - 1] if pi - 1 < len(args) else None
                    if a is None:
                        continue
                    L = a[1] if a[0] in ("ref", "refv") else ("deref", a)
                    effs.append((L, sub.value(val)))
                for L, v in effs:
                    self.write(st, L, v)
                self.write(st, dest, ret)
                return {"k": "call", "name": name, "args": args, "term": callterm, "inlined": True, "ret": ret, "site": site, "dest": dest}
        # ---- opaque call: result is the call term; &mut arguments' pointees are clobbered.
        # The call term of this site now denotes a new value (loop iterations): forget
        # pointee roots that were derived from the previous value of the same site.
        for root in [r for r in st if r[0] == "deref" and mentions_site(r[1], site)]:
            del st[root]
        for i, a in enumerate(t["args"]):
            ty = self.operand_ty(a) if a is not None else None
            v = args[i]
            is_mut_ref = (ty is not None and ty.k == "ref" and ty.d.get("mut")) or (a is None and v[0] == "ref" and len(v) > 2 and v[2])
            if is_mut_ref:
                L = v[1] if v[0] == "ref" else ("deref", v)
                old = self.read(st, L)
                self.call_old[(site, i)] = old
                self.write(st, L, ("after", callterm, i, old))
            elif v[0] == "agg":
                for sub in walk(v):
                    if sub[0] == "ref" and sub[2]:
                        L = sub[1]
                        oldL = self.read(st, L)
                        # a closure that captured `&mut r` where r is itself a `&mut T` (a reference
                        # parameter used inside the closure) can write *r: that pointee is clobbered too
                        for _ in range(3):
                            lty = self.loc_ty(L)
                            if lty is None or lty.k != "ref" or not lty.d.get("mut"):
                                break
                            P = oldL[1] if oldL[0] == "ref" else ("deref", oldL)
                            oldP = self.read(st, P)
                            self.write(st, P, ("after", callterm, i, oldP))
                            L, oldL = P, oldP
                        L = sub[1]
                        self.write(st, L, ("after", callterm, i, self.read(st, L)))
        self.write(st, dest, callterm)
        return {"k": "call", "name": name, "args": snap, "locargs": args, "term": callterm, "inlined": False, "ret": callterm, "site": site, "dest": dest}

    def from_fn_elems(self, st, cl, n, site):
        """values f(0) .. f(n-1) of a closure aggregate `cl` that neither mutates its captures
        nor loops; branches on the index are decided per index (pruned variants)"""
        path = cl[2]
        b = self.fb.body(path)
        if b is None or path in self.eng._stack:
            return None
        by_ref = b.local_ty(1) is not None and b.local_ty(1).k == "ref"
        env = ("refv", cl) if by_ref else cl
        base = self.eng.summary(path)
        if base is None or not base.ok or base.ret is None or base.effects or not pure_body(base.se):
            return None
        out = []
        for i in range(n):
            args = (env, ("int", i, "usize"))
            summ = base
            if any(x[0] == "phi" for x in walk(base.ret)):
                # decide the switches of the body for this index
                keep = {}
                sub = Subst(self, st, args, site)
                for bb, info in base.se.term_info.items():
                    if info.get("k") != "switch":
                        continue
                    d = fold_consts(sub.value(info["discr"]))
                    if d[0] != "int":
                        return None
                    tg = dict(info["targets"])
                    keep[bb] = tg.get(d[1], info["otherwise"])
                vn = self.fb.pruned(path, "at%d" % i, keep)
                summ = self.eng.summary(vn) if vn else None
                if summ is None or not summ.ok or summ.ret is None or summ.effects or not pure_body(summ.se) or any(x[0] == "phi" for x in walk(summ.ret)):
                    return None
            out.append(fold_consts(Subst(self, st, args, site).value(summ.ret)))
        return out

    def loc_array_len(self, loc):
        """length of the fixed-size array stored at a location (by type), else None"""
        ty = self.loc_ty(loc)
        if ty is not None and ty.k == "array":
            return ty.len
        return None

    def loc_ty(self, loc):
        if loc[0] == "local":
            return self.body.local_ty(loc[1])
        if loc[0] == "deref":
            t = self.term_ty(loc[1])
            return t.to if t is not None and t.k == "ref" else None
        if loc[0] == "field":
            t = self.loc_ty(loc[1])
            if t is not None and t.k == "adt":
                fs = self.fb.adt_fields(t.path)
                if fs and loc[2] < len(fs):
                    return self.fb.ty(fs[loc[2]]["ty"])
            if t is not None and t.k == "tuple":
                es = t.elems
                return es[loc[2]] if loc[2] < len(es) else None
        return None

    def term_ty(self, t):
        if t[0] == "param":
            return self.body.local_ty(t[1])
        return None

    def value_array_len(self, st, a):
        if a[0] == "ref":
            return self.loc_array_len(a[1])
        v = a[1] if a[0] == "refv" else a
        if v[0] == "agg" and v[1] == "array":
            return len(v[4])
        if v[0] == "repeat" and isinstance(v[2], int):
            return v[2]
        if v[0] == "after":
            return self.value_array_len(st, ("refv", v[3]))
        if v[0] == "upd":
            return self.value_array_len(st, ("refv", v[1]))
        return None

    def exec_block(self, bb, st):
        blk = self.body.blocks[bb]
        for si, s in enumerate(blk["stmts"]):
            if s["k"] == "assign":
                v = self.rvalue(st, s["rv"])
                loc = self.place_loc(st, s["place"])
                self.write(st, loc, v)
                self.assigns[(bb, si)] = (loc, v)
            elif s["k"] == "setdiscr":
                loc = self.place_loc(st, s["place"])
                self.write(st, loc, ("unknown", "setdiscr"))
        t = blk["term"]
        k = t["k"]
        info = {"k": k}
        if k == "call":
            info = self.do_call(st, bb, t)
        elif k == "switch":
            info["discr"] = self.operand(st, t["discr"])
            info["targets"] = [(int(v), b) for v, b in t["targets"]]
            info["otherwise"] = t["otherwise"]
            # a test of a value that is a constant here (the variant of an enum value built a few
            # statements earlier - a looked-through helper matching on its by-value argument):
            # only the edge it selects carries a state
            self.dead_edges = {e for e in self.dead_edges if e[0] != bb}
            dv = fold_consts(info["discr"])
            while dv[0] == "cast" and dv[1] == "IntToInt":
                dv = dv[2]
            if dv[0] == "int" and len(dv) > 2 and dv[2] == "discr":
                taken = dict(info["targets"]).get(dv[1], info["otherwise"])
                for s_ in set([b_ for _, b_ in info["targets"]] + [info["otherwise"]]):
                    if s_ != taken:
                        self.dead_edges.add((bb, s_))
                info["taken"] = taken
        elif k == "assert":
            info["cond"] = self.operand(st, t["cond"])
            info["expected"] = t["expected"]
            info["msg"] = t["msg"]
            info["msg_ops"] = [self.operand(st, o) for o in t["msg_ops"]]
        elif k == "drop":
            pass
        elif k == "return":
            self.ret_by_block[bb] = self.read(st, ("local", 0))
            self.final_states[bb] = dict(st)
        self.term_info[bb] = info
        return st

    def join(self, bb, preds_out):
        if len(preds_out) == 1 and not any(b == bb for (b, _k) in self.sticky):
            return dict(preds_out[0][1])
        keys = set()
        for _, s in preds_out:
            keys.update(s.keys())
        out = {}
        for key in keys:
            vals = []
            for p, s in preds_out:
                v = s.get(key)
                if v is None:
                    v = self.default(key)
                vals.append((p, v))
            first = vals[0][1]
            ph = ("phi", self.fn, bb, key, ())
            if (bb, key) in self.forced:
                out[key] = self.forced[(bb, key)]
                continue
            if (bb, key) not in self.sticky and all(v == first for _, v in vals[1:]) and first != ph:
                out[key] = first
            else:
                # after many passes make phis sticky (monotone from then on: guaranteed convergence)
                if self.passno > 12:
                    self.sticky.add((bb, key))
                out[key] = ph
                self.phi_inputs[(bb, key)] = dict(vals)
        return out

    def execute(self):
        """fixpoint, then elimination of redundant phis (phi cycles whose only outside input
        is one value - Braun et al.), repeated until none is left"""
        for rnd in range(24):
            self._fixpoint()
            red = self._redundant_phis()
            if not red:
                break
            self.forced.update(red)
            self.in_state, self.out_state, self.phi_inputs = {}, {}, {}
            self.term_info, self.assigns, self.ret_by_block, self.final_states = {}, {}, {}, {}
            self.site_info, self.call_old, self.sticky = {}, {}, set()
        self._finish()
        return self

    def _redundant_phis(self):
        """phis that merge a single value: (a) trivial - all operands other than the phi itself
        are one term X; (b) a cycle of phis whose only outside operand is one term X"""
        out = {}
        for (bb, key), ins in self.phi_inputs.items():
            if bb == "ret":
                continue
            me = ("phi", self.fn, bb, key, ())
            others = {v for v in ins.values() if v != me}
            if len(others) == 1:
                x = next(iter(others))
                if not any(y == me for y in walk(x)):
                    out[(bb, key)] = x
                    continue
            leaves = set()
            seen = {me}
            work = list(ins.values())
            ok = True
            while work:
                v = work.pop()
                if v in seen:
                    continue
                seen.add(v)
                if v[0] == "phi" and len(v) == 5 and v[1] == self.fn and (v[2], v[3]) in self.phi_inputs and v[4] == ():
                    work.extend(self.phi_inputs[(v[2], v[3])].values())
                else:
                    leaves.add(v)
                    if len(leaves) > 1:
                        ok = False
                        break
            if ok and len(leaves) == 1:
                leaf = next(iter(leaves))
                if not any(x == me for x in walk(leaf)):
                    out[(bb, key)] = leaf
        # a replacement must not mention a phi that is itself replaced in this round
        gone = {("phi", self.fn, bb, key, ()) for (bb, key) in out}
        return {k: v for k, v in out.items() if not any(x in gone for x in walk(v))} or ({k: v for k, v in list(out.items())[:1]} if out else {})

    def _fixpoint(self):
        self.dead_edges = set()
        order = rpo(self.body)
        preds = self.body.preds()
        self.converged = False
        for it in range(MAX_PASSES):
            self.passno = it
            changed = False
            for bb in order:
                if bb == 0:
                    ins = {}
                else:
                    po = [(p, self.out_state[p]) for p in preds[bb] if p in self.out_state and (p, bb) not in self.dead_edges]
                    if not po:
                        continue
                    ins = self.join(bb, po)
                if bb in self.in_state and self.in_state[bb] == ins and bb in self.out_state:
                    continue
                changed = True
                self.in_state[bb] = ins
                self.out_state[bb] = self.exec_block(bb, dict(ins))
            if not changed:
                self.converged = True
                break

    def _finish(self):
        rets = list(self.ret_by_block.items())
        if len(rets) == 1:
            self.ret = rets[0][1]
        elif len(rets) > 1:
            vals = {v for _, v in rets}
            if len(vals) == 1:
                self.ret = rets[0][1]
            else:
                self.ret = ("phi", self.fn, "ret", ("local", 0), ())
                self.phi_inputs[("ret", ("local", 0))] = dict(rets)
        return self

    def param_effects(self):
        """{param index: final pointee value} for pointees of reference parameters that were
        written (directly or by callee effect) on the way to return."""
        eff = {}
        fs = list(self.final_states.items())
        for pi in range(1, self.body.arg_count + 1):
            root = ("deref", ("param", pi))
            vals = []
            for bb, st in fs:
                vals.append(st.get(root, root))
            if not vals:
                continue
            if all(v == root for v in vals):
                continue
            if all(v == vals[0] for v in vals):
                eff[pi] = vals[0]
            else:
                eff[pi] = ("phi", self.fn, "ret", root, ())
                self.phi_inputs[("ret", root)] = {bb: v for (bb, _), v in zip(fs, vals)}
        return eff


# ---------------------------------------------------------------------- term helpers

def walk(t):
    yield t
    if isinstance(t, tuple):
        for x in t[1:]:
            if isinstance(x, tuple):
                if x and isinstance(x[0], str):
                    yield from walk(x)
                else:
                    for y in x:
                        if isinstance(y, tuple) and y and isinstance(y[0], str):
                            yield from walk(y)


def pure_body(se):
    """no store through any pointer (captured references included) and no loop: the body only
    computes its result"""
    import cfg as _cfg

    if _cfg.back_edges(se.body):
        return False
    for st in se.final_states.values():
        if any(k[0] == "deref" for k in st):
            return False
    for (bi, si), (loc, v) in se.assigns.items():
        root = loc
        while root[0] in ("field", "index", "cindex", "subslice", "downcast"):
            root = root[1]
        if root[0] != "local":
            return False
    return True


_BITS = {"u8": 8, "u16": 16, "u32": 32, "u64": 64, "usize": 64, "u128": 128}


def fold_consts(t):
    """fold integer arithmetic on constants (unsigned types; a checked operation that would
    overflow is left alone)"""
    if not isinstance(t, tuple) or not t or not isinstance(t[0], str):
        return t
    k = t[0]
    if k == "binop":
        a, b = fold_consts(t[2]), fold_consts(t[3])
        op = t[1]
        if a[0] == "int" and b[0] == "int":
            ty = a[2] if len(a) > 2 else None
            bits = _BITS.get(ty)
            base = op.replace("WithOverflow", "").replace("Unchecked", "")
            x, y = a[1], b[1]
            r = None
            if base == "Add":
                r = x + y
            elif base == "Sub":
                r = x - y
            elif base == "Mul":
                r = x * y
            elif base == "Div" and y:
                r = x // y
            elif base == "Rem" and y:
                r = x % y
            elif base == "BitAnd":
                r = x & y
            elif base == "BitOr":
                r = x | y
            elif base == "BitXor":
                r = x ^ y
            elif base == "Shl" and bits and 0 <= y < bits:
                r = (x << y) & ((1 << bits) - 1)
            elif base == "Shr" and bits and 0 <= y < bits:
                r = x >> y
            elif base in ("Lt", "Le", "Gt", "Ge", "Eq", "Ne"):
                r = int({"Lt": x < y, "Le": x <= y, "Gt": x > y, "Ge": x >= y, "Eq": x == y, "Ne": x != y}[base])
                return ("int", r, "bool")
            if r is not None and bits and 0 <= r < (1 << bits):
                if op.endswith("WithOverflow"):
                    return ("agg", "tuple", None, None, (("int", r, ty), ("int", 0, "bool")))
                return ("int", r, ty)
        return ("binop", op, a, b)
    if k == "field":
        inner = fold_consts(t[1])
        if inner[0] == "agg" and inner[1] == "tuple" and isinstance(t[2], int) and t[2] < len(inner[4]):
            return inner[4][t[2]]
        return ("field", inner) + t[2:]
    if k == "cast":
        inner = fold_consts(t[2])
        if inner[0] == "int" and t[1] == "IntToInt" and t[3] in _BITS and inner[1] >= 0:
            return ("int", inner[1] & ((1 << _BITS[t[3]]) - 1), t[3])
        return ("cast", t[1], inner) + t[3:]
    if k == "unop":
        inner = fold_consts(t[2])
        if t[1] == "Not" and inner[0] == "int" and len(inner) > 2 and inner[2] == "bool":
            return ("int", 1 - inner[1], "bool")
        return ("unop", t[1], inner)
    if k == "index":
        return ("index", fold_consts(t[1]), fold_consts(t[2]))
    if k == "call":
        return ("call", t[1], tuple(fold_consts(a) for a in t[2]), t[3])
    if k == "agg":
        return ("agg", t[1], t[2], t[3], tuple(fold_consts(a) for a in t[4]))
    if k == "deref":
        inner = fold_consts(t[1])
        if inner[0] == "refv" or (inner[0] == "ref" and inner[1][0] == "agg"):
            return inner[1]     # the pointee of a reference to a value is that value
        return ("deref", inner)
    if k in ("ref", "refv"):
        return (k, fold_consts(t[1])) + t[2:]
    return t


def const_int(t):
    """integer value of a constant term (through integer casts), else None"""
    while t[0] == "cast" and t[1] == "IntToInt":
        t = t[2]
    if t[0] == "int":
        return t[1]
    return None


def mentions_site(t, site):
    for x in walk(t):
        if x[0] == "call" and x[3] == site:
            return True
    return False


def proj_read(v, e):
    k = e[0]
    if k == "f":
        i = e[1]
        if v[0] == "agg" and v[1] in ("adt", "tuple", "closure") and i < len(v[4]):
            return v[4][i]
        if v[0] == "upd":
            if v[2] == e:
                return v[3]
            if v[2][0] == "f":
                return proj_read(v[1], e)
            if v[2][0] == "dc":
                return ("field", v, i)
        return ("field", v, i)
    if k == "dc":
        return ("downcast", v, e[1]) if not (v[0] == "agg" and v[1] == "adt") else v
    if k == "i":
        idx = e[1]
        if idx[0] == "int":
            return proj_read(v, ("ci", idx[1], False))
        if v[0] == "upd" and v[2] == e:
            return v[3]
        if v[0] == "repeat":
            return v[1]
        return ("index", v, idx)
    if k == "ci":
        off, fe = e[1], e[2]
        if not fe:
            if v[0] == "agg" and v[1] == "array" and off < len(v[4]):
                return v[4][off]
            if v[0] == "bytes" and off < len(v[1]):
                return ("int", v[1][off], "u8")
            if v[0] == "repeat":
                return v[1]
            if v[0] == "upd":
                u = v[2]
                if u[0] == "ci" and not u[2]:
                    if u[1] == off:
                        return v[3]
                    return proj_read(v[1], e)
                if u[0] == "i" and u[1][0] == "int":
                    if u[1][1] == off:
                        return v[3]
                    return proj_read(v[1], e)
        return ("cindex", v, off, fe)
    if k == "ss":
        if not e[3] and isinstance(e[1], int) and isinstance(e[2], int) and 0 <= e[1] <= e[2] and e[2] - e[1] <= 64 and v[0] in ("agg", "upd", "repeat", "bytes"):
            # constant sub-range of a value whose elements are known one by one
            return ("agg", "array", None, 0, tuple(proj_read(v, ("ci", i, False)) for i in range(e[1], e[2])))
        return ("subslice", v, e[1], e[2], e[3])
    return ("unknown", "proj")


def upd_path(old, path, val):
    if not path:
        return val
    e = path[0]
    if e[0] == "ss" and not e[3] and len(path) == 1 and isinstance(e[1], int) and isinstance(e[2], int) and 0 <= e[1] <= e[2] and e[2] - e[1] <= 64:
        # a value stored over a constant sub-range: element-wise stores
        new = old
        for i in range(e[1], e[2]):
            new = upd_path(new, [("ci", i, False)], proj_read(val, ("ci", i - e[1], False)))
        return new
    inner_old = proj_read(old, e)
    inner_new = upd_path(inner_old, path[1:], val)
    # structural rebuilds where exact
    if e[0] == "f" and old[0] == "agg" and old[1] in ("adt", "tuple", "closure") and e[1] < len(old[4]):
        ops = list(old[4])
        ops[e[1]] = inner_new
        return (old[0], old[1], old[2], old[3], tuple(ops))
    if e[0] == "i" and e[1][0] == "int":
        e = ("ci", e[1][1], False)
    if e[0] == "ci" and not e[2] and old[0] == "agg" and old[1] == "array" and e[1] < len(old[4]):
        ops = list(old[4])
        ops[e[1]] = inner_new
        return (old[0], old[1], old[2], old[3], tuple(ops))
    if old[0] == "upd" and old[2] == e:
        return ("upd", old[1], e, inner_new)
    return ("upd", old, e, inner_new)


class Subst:
    """Instantiate a callee summary term in the caller: ("param", i) -> actual argument;
    location-shaped subterms rooted at a parameter's pointee are *read* from the caller's
    store at the call point; phi/call sites get the call site appended."""

    def __init__(self, se, st, args, site):
        self.se, self.st, self.args, self.site = se, st, args, site
        self.memo = {}

    def value(self, t):
        if not isinstance(t, tuple) or not t or not isinstance(t[0], str):
            return t
        if t in self.memo:
            return self.memo[t]
        r = self._value(t)
        self.memo[t] = r
        return r

    def loc(self, t):
        """t is a location-shaped callee term; return caller location or None"""
        k = t[0]
        if k == "deref":
            p = self.value(t[1])
            if p[0] in ("ref", "refv"):
                return p[1]
            return ("deref", p)
        if k == "field":
            b = self.loc(t[1])
            return None if b is None else ("field", b, t[2])
        if k == "index":
            b = self.loc(t[1])
            return None if b is None else ("index", b, self.value(t[2]))
        if k == "cindex":
            b = self.loc(t[1])
            return None if b is None else ("cindex", b, t[2], t[3])
        if k == "downcast":
            b = self.loc(t[1])
            return None if b is None else ("downcast", b, t[2])
        if k == "subslice":
            b = self.loc(t[1])
            return None if b is None else ("subslice", b, t[2], t[3], t[4])
        return None

    def _value(self, t):
        k = t[0]
        if k == "param":
            i = t[1] - 1
            return self.args[i] if i < len(self.args) else ("unknown", "param")
        if k in ("deref", "field", "index", "cindex", "downcast", "subslice"):
            L = self.loc(t)
            if L is not None:
                return self.se.read(self.st, L)
            # value-rooted projection (e.g. field of a call result)
            if k == "field":
                return proj_read(self.value(t[1]), ("f", t[2]))
            if k == "index":
                return proj_read(self.value(t[1]), ("i", self.value(t[2])))
            if k == "cindex":
                return proj_read(self.value(t[1]), ("ci", t[2], t[3]))
            if k == "downcast":
                return proj_read(self.value(t[1]), ("dc", t[2]))
            if k == "subslice":
                return ("subslice", self.value(t[1]), t[2], t[3], t[4])
            return ("deref", self.value(t[1]))
        if k == "refv":
            return ("refv", self.value(t[1]))
        if k == "ref":
            L = self.loc(t[1]) if t[1][0] in ("deref", "field", "index", "cindex", "downcast", "subslice") else None
            if L is not None:
                return ("ref", L, t[2])
            if t[1][0] == "local":
                # address of a callee local that escaped: opaque
                return ("ref", ("calleelocal", t[1][1], self.site), t[2])
            return ("ref", self.value(t[1]), t[2])
        if k == "call":
            return ("call", t[1], tuple(self.value(a) for a in t[2]), t[3] + self.site)
        if k == "phi":
            return ("phi", t[1], t[2], t[3], t[4] + self.site)
        if k == "after":
            return ("after", self.value(t[1]), t[2], self.value(t[3]))
        if k == "upd":
            e = t[2]
            if e[0] == "i":
                e = ("i", self.value(e[1]))
            return upd_path(self.value(t[1]), [e], self.value(t[3]))
        if k == "agg":
            return ("agg", t[1], t[2], t[3], tuple(self.value(a) for a in t[4]))
        if k == "binop":
            return ("binop", t[1], self.value(t[2]), self.value(t[3]))
        if k == "unop":
            return ("unop", t[1], self.value(t[2]))
        if k == "cast":
            return ("cast", t[1], self.value(t[2]), t[3])
        if k in ("discr", "len"):
            v = self.value(t[1])
            if k == "discr" and v[0] == "agg" and v[1] == "adt":
                return ("int", v[3], "discr")
            return (k, v)
        if k == "repeat":
            return ("repeat", self.value(t[1]), t[2])
        return t


def place_ty(fb, body, p):
    ty = body.local_ty(p["l"])
    for e in p["p"]:
        if ty is None:
            return None
        if e == "*":
            ty = ty.to
        elif "f" in e:
            ty = fb.ty(e["ty"])
        elif "i" in e or "ci" in e:
            ty = ty.elem
        elif "dc" in e:
            pass
        elif "ss_from" in e:
            pass
    return ty


# ---------------------------------------------------------------------- rendering

def show(t, depth=0, maxdepth=12):
    if not isinstance(t, tuple) or not t:
        return repr(t)
    if depth > maxdepth:
        return "…"
    k = t[0]
    s = lambda x: show(x, depth + 1, maxdepth)
    if k == "param":
        return "arg%d" % t[1]
    if k == "int":
        return "%d" % t[1]
    if k == "bytes":
        return (t[2] + "=" if t[2] else "") + (repr(t[1]) if len(t[1]) <= 8 else "bytes[%d]%s.." % (len(t[1]), t[1][:4].hex()))
    if k in ("ref", "refv"):
        return "&%s" % s(t[1])
    if k == "deref":
        return "*%s" % s(t[1])
    if k == "field":
        return "%s.%d" % (s(t[1]), t[2])
    if k == "index":
        return "%s[%s]" % (s(t[1]), s(t[2]))
    if k == "cindex":
        return "%s[%d]" % (s(t[1]), t[2])
    if k == "call":
        return "%s(%s)" % (short(t[1]), ", ".join(s(a) for a in t[2]))
    if k == "after":
        return "after<%s#%d>(%s)" % (s(t[1]), t[2], s(t[3]))
    if k == "binop":
        return "%s(%s, %s)" % (t[1], s(t[2]), s(t[3]))
    if k == "unop":
        return "%s(%s)" % (t[1], s(t[2]))
    if k == "cast":
        return "(%s as %s)" % (s(t[2]), t[3])
    if k == "agg":
        nm = t[2] or t[1]
        return "%s{%s}" % (short(nm) if nm else t[1], ", ".join(s(a) for a in t[4]))
    if k == "upd":
        return "%s with %s := %s" % (s(t[1]), t[2][:2] if t[2][0] != "i" else "[%s]" % s(t[2][1]), s(t[3]))
    if k == "phi":
        return "phi(%s bb%s %s)" % (short(t[1]), t[2], show_root(t[3]))
    if k == "local":
        return "_%d" % t[1]
    if k == "repeat":
        return "[%s; %s]" % (s(t[1]), t[2])
    if k in ("discr", "len"):
        return "%s(%s)" % (k, s(t[1]))
    return "%s" % (t,)


def show_root(r):
    if r[0] == "local":
        return "_%d" % r[1]
    return show(r)


def short(p):
    if p is None:
        return "?"
    return p
