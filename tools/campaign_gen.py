#!/usr/bin/env python3
"""generate operator mutants of the non-test source: JSON in mutest format"""
import json, os, re, sys
REPO='/repo'
FILES=[]
for root,ds,fs in os.walk(REPO+'/src'):
    for f in fs:
        p=os.path.join(root,f)
        rel=os.path.relpath(p,REPO)
        if rel in ('src/hex.rs','src/test.rs','src/lib.rs','src/error.rs'): continue
        if f.endswith('.rs'): FILES.append(rel)
OPS=[]
def op(name, pat, rep): OPS.append((name, re.compile(pat) if pat else None, rep))
op('lt-le', r' < ', ' <= '); op('le-lt', r' <= ', ' < '); op('gt-ge', r' > ', ' >= '); op('ge-gt', r' >= ', ' > ')
op('eq-ne', r' == ', ' != '); op('ne-eq', r' != ', ' == ')
op('and-or', r' && ', ' || '); op('or-and', r' \|\| ', ' && ')
op('wadd-wsub', r'wrapping_add', 'wrapping_sub'); op('wsub-wadd', r'wrapping_sub', 'wrapping_add')
op('be-le', r'to_be_bytes', 'to_le_bytes'); op('le-be', r'to_le_bytes', 'to_be_bytes')
op('fbe-fle', r'from_be_bytes', 'from_le_bytes'); op('fle-fbe', r'from_le_bytes', 'from_be_bytes')
op('xor-or', r' \^ ', ' | '); op('and-xor', r' & ', ' ^ ')
op('plus-minus', r' \+ ', ' - '); op('minus-plus', r' - ', ' + ')
op('mod-div', r' % ', ' / '); op('div-mod', r' / ', ' % ')
op('plus1', r'\b(\d+)\b(?!_u8|\.)', None)   # literal + 1
op('not-drop', r'if !', 'if '); 
op('del-stmt', None, None)
out=[]
for rel in sorted(FILES):
    lines=open(os.path.join(REPO,rel)).read().split('\n')
    # cut test modules
    end=len(lines)
    for i,l in enumerate(lines):
        if l.strip().startswith('#[cfg(test)]') and i+1<len(lines) and ('mod ' in lines[i+1]):
            end=i; break
    depth_test=False
    for i in range(end):
        l=lines[i]
        st=l.strip()
        if not st or st.startswith('//') or st.startswith('#[') or st.startswith('use ') or st.startswith('pub use') or st.startswith('///'): continue
        if '#[test]' in st: break
        code=l.split('//')[0]
        def ctx_old(new_line):
            # unique context: extend upwards until unique
            txt='\n'.join(lines)
            k=0
            while True:
                old='\n'.join(lines[i-k:i+1])
                if txt.count(old)==1 or i-k==0: break
                k+=1
            new='\n'.join(lines[i-k:i]+[new_line]) if k else new_line
            return old,new
        for name,pat,rep in OPS:
            if name=='del-stmt':
                if re.match(r'^\s+[a-z_\.\*\[\]0-9A-Za-z]+(\.[a-z_]+\(.*\);|\s*[\+\-\^\|/%]?=\s.*;)$', code) and 'let ' not in code and 'return' not in code:
                    old,new=ctx_old(re.sub(r'\S.*$', '', l))
                    out.append({'name':'%s:%d:del-stmt'%(rel[4:],i+1),'edits':[[rel,old,new]]})
                continue
            for mth in pat.finditer(code):
                if name=='plus1':
                    v=int(mth.group(1))
                    if v>300 or 'const ' in code and '[' in code: continue
                    if re.search(r'0x|\[\s*\d+(,|\s)|\d+\s*,\s*\d+\s*,', code): continue
                    nl=l[:mth.start(1)]+str(v+1)+l[mth.end(1):]
                else:
                    nl=l[:mth.start()]+rep+l[mth.end():]
                old,new=ctx_old(nl)
                out.append({'name':'%s:%d:%s@%d'%(rel[4:],i+1,name,mth.start()),'edits':[[rel,old,new]]})
for m in out:
    if 'matrix_card' in m['edits'][0][0]: m['features']='matrix-card'
json.dump(out,open('/tmp/own/camp/all.json','w'),indent=0)
print(len(out))
import collections
print(collections.Counter(m['name'].split(':')[0] for m in out))
