"""C08 - TBC header cipher: HMAC-derived 20-byte key, same recurrence, exact inverse.

Decides: as C07 with modulus 20 over the derived key, plus the key derivation of both halves
(A5, sibling agreement): HMAC-SHA1(key = the documented 16-byte TBC seed; msg = the session-key
parameter, whole), all 20 output bytes stored as the cipher key; the two separately coded
derivations are identical and equal the documented constant."""
from rules import util, ciphers, c07
from rules.util import P, strip, show_b

EXPLANATION = __doc__
TRUSTED = ["rustc / extractor", "stream induction lemma (as C07)", "HMAC-SHA1 implementation (hmac, sha1 crates)"]
NOT_DECIDED = ["HMAC / SHA-1 internals"]
FLOORS = {"entry-points": 24, "step": 10, "traversal": 2, "state-discipline": 2, "state-writers": 4, "initial-state": 4, "wiring": 2, "key-derivation": 3}
MOD = "tbc_header"
KEYLEN = 20
TBC_SEED = bytes.fromhex("38A78315F8922530719867B18C04E2AA")  # spec/constants.toml [tbc] hmac_seed


def applicable(feats):
    return "tbc-header" in feats


def cfg_has_loop(b):
    import cfg
    return bool(cfg.back_edges(b))


def check(ctx, rep):
    # "the receiver recovers the sender's headers": every entry point of this expansion that
    # feeds bytes to the cipher (typed helpers, Read/Write wrappers, facade) must hand the raw
    # operation exactly the bytes of the header, once - the obligations C11 decides, filed here
    # for this expansion's functions
    from rules import c11
    c11.check(ctx, util.Refile(rep, "entry-points", None, lambda fn: fn.startswith("tbc_header::")))
    enc_fn = MOD + "::encrypt::encrypt"
    dec_fn = MOD + "::decrypt::decrypt"
    eh = MOD + "::encrypt::EncrypterHalf"
    dh = MOD + "::decrypt::DecrypterHalf"
    enc_fn = ciphers.raw_callee(ctx, eh + "::encrypt", enc_fn)
    dec_fn = ciphers.raw_callee(ctx, dh + "::decrypt", dec_fn)
    inline = {}
    for half, meth, raw, direction in ((eh, "encrypt", enc_fn, "enc"), (dh, "decrypt", dec_fn, "dec")):
        mb = ctx.fb.body(half + "::" + meth)
        has_local_callee = mb is not None and any(t.get("resolved") in ctx.fb.bodies for _, t in mb.calls())
        if mb is not None and not has_local_callee and cfg_has_loop(mb):
            # the per-byte step is written in the half's method itself
            inline[half] = ciphers.step_rule(ctx, rep, half + "::" + meth, direction, KEYLEN, method_of=half)
        else:
            ciphers.step_rule(ctx, rep, raw, direction, KEYLEN)
    ciphers.state_census(ctx, rep, eh, eh + "::new", {eh + "::encrypt"})
    ciphers.state_census(ctx, rep, dh, dh + "::new", {dh + "::decrypt"})
    c07.wiring(ctx, rep, MOD, eh, dh, enc_fn, dec_fn, inline)
    derivs = []
    want = ("HMAC", ("arr", tuple(("int", x) for x in TBC_SEED)), (P(1),))
    alt = ("HMAC", ("const", TBC_SEED), (P(1),))
    for half in (eh, dh):
        kf = c07.key_field(ctx, half)
        kt = util.peel_newtype(ctx.fb, ctx.fb.ty(ctx.fb.adt_fields(half)[kf]["ty"])) if kf is not None else None
        rep.check(kt is not None and kt.k == "array" and kt.len == 20, "key-derivation", half, "key-width", "stored key is [u8; 20]", "stored key type is %s" % (kt.s if kt else "?"))
        # every construction site of the half (a helper extracted by a refactoring counts at its
        # call sites): the stored key is HMAC-SHA1(seed; the site's 40-byte session-key parameter)
        sites = sorted({b.path for b, bi, si, s_ in util.aggregates(ctx.fb, half) if b.path not in getattr(ctx.fb, "fresh_paths", ())})
        if not sites or kf is None:
            rep.violation("key-derivation", half + "::new", "anchor", "no construction site found")
            continue
        for fn in sites:
            se = ctx.deep.run(fn)
            if se is None:
                rep.violation("key-derivation", fn, "anchor", "not found")
                continue
            vals = [v for (bi, si), (loc, v) in se.assigns.items() if v[0] == "agg" and v[1] == "adt" and v[2] == half]
            if not vals:
                rep.violation("key-derivation", fn, "shape", "constructor result is not a single aggregate", se.body.loc())
                continue
            for v in vals:
                b = util.bexpr(ctx, se, v[4][kf])
                derivs.append(b)
                rep.check(b in (util.cb(want), util.cb(alt)), "key-derivation", fn, "hmac", "key = HMAC-SHA1(TBC seed; session key), all 20 bytes", "cipher key is %s, expected HMAC-SHA1(key=%s; arg1)" % (show_b(b)[:300], TBC_SEED.hex()), se.body.loc())
    rep.check(len(derivs) >= 2 and all(d_ == derivs[0] for d_ in derivs), "key-derivation", MOD, "siblings-agree", "encrypter and decrypter derive the same key expression", "the two key derivations differ")
