#!/usr/bin/env python3
"""Confirm and archive seeded changes produced by independent sub-agents.

For /tmp/wt/<Cxx>/_out/change<k>/ (patch.diff + demo_*.rs + notes.md):
  1. scratch copy of /repo (outside /repo and /verif); the demo must PASS on the clean copy;
  2. apply the patch; the crate must build and the existing lib suite must pass (83 tests,
     85 with matrix-card); the demo must FAIL;
  3. run the registered check(s) of the property on the patched copy (static analysis only);
  4. write /verif/seeded/<Cxx>-<k>/{patch.diff, demo file, notes.md, meta.json};
  5. remove the scratch copy and its build output.
usage: seed_eval.py Cxx [k ...]   (--all-props runs every check on the patched tree as well)
"""
import glob
import json
import os
import re
import shutil
import subprocess
import sys
import tempfile

VERIF = os.path.dirname(os.path.dirname(os.path.abspath(__file__)))
REPO = "/repo"
ALL = ["C%02d" % i for i in range(1, 19)]


def sh(cmd, cwd, env=None, timeout=1200):
    p = subprocess.run(cmd, cwd=cwd, env=env, shell=True, stdout=subprocess.PIPE, stderr=subprocess.STDOUT, text=True, timeout=timeout)
    return p.returncode, p.stdout


def main():
    argv = sys.argv[1:]
    src_override = name_override = None
    if "--src" in argv:
        i = argv.index("--src")
        src_override = argv[i + 1]
        del argv[i:i + 2]
    if "--name" in argv:
        i = argv.index("--name")
        name_override = argv[i + 1]
        del argv[i:i + 2]
    base_patch = None
    if "--base" in argv:
        # the change was written on top of a behaviour-preserving refactoring: the demo must
        # also pass on the refactored tree without the change
        i = argv.index("--base")
        base_patch = os.path.abspath(argv[i + 1])
        del argv[i:i + 2]
    args = [a for a in argv if not a.startswith("--")]
    allprops = "--all-props" in argv
    prop = args[0]
    ks = args[1:] or sorted(os.path.basename(d)[len("change"):] for d in glob.glob("/tmp/wt/%s/_out/change*" % prop))
    if src_override:
        ks = [name_override.split("-")[-1] if name_override else "x"]
    for k in ks:
        src = src_override or "/tmp/wt/%s/_out/change%s" % (prop, k)
        patch = os.path.join(src, "patch.diff")
        demos = glob.glob(os.path.join(src, "*.rs"))
        if not os.path.exists(patch) or not demos:
            print(prop, k, "incomplete delivery (patch or demo missing)")
            continue
        d = tempfile.mkdtemp(prefix="wss_", dir="/tmp")
        meta = {"property": prop, "change": k, "source": "independent sub-agent, given only the property text and a scratch worktree"}
        try:
            for item in ("src", "Cargo.toml", "Cargo.lock", "tests", "benches"):
                s = os.path.join(REPO, item)
                if os.path.isdir(s):
                    shutil.copytree(s, os.path.join(d, item))
                else:
                    shutil.copy(s, d)
            os.makedirs(os.path.join(d, "tests"), exist_ok=True)
            for dm in demos:
                shutil.copy(dm, os.path.join(d, "tests"))
            env = dict(os.environ, CARGO_TARGET_DIR=os.path.join(d, "target"), CARGO_NET_OFFLINE="true")
            feat = " --features matrix-card" if prop == "C18" or "matrix" in open(patch).read() else ""
            demo_names = [os.path.splitext(os.path.basename(x))[0] for x in demos]
            demo_cmd = "cargo test --offline%s %s" % (feat, " ".join("--test " + n for n in demo_names))
            rc0, out0 = sh(demo_cmd, d, env)
            meta["demo_cmd"] = demo_cmd
            meta["demo_on_clean_tree"] = "pass" if rc0 == 0 else "FAIL"
            if base_patch:
                rcb, outb = sh("patch -p1 -s < %s" % base_patch, d, env)
                rcb2, outb2 = sh(demo_cmd, d, env)
                meta["base_refactoring"] = os.path.basename(os.path.dirname(base_patch))
                meta["demo_on_refactored_tree"] = "pass" if rcb == 0 and rcb2 == 0 else "FAIL"
                sh("patch -p1 -R -s < %s" % base_patch, d, env)
                meta["source"] = "independent sub-agent, given the property text and a scratch worktree with the refactoring %s applied; patch.diff is relative to the unrefactored tree (refactoring + change)" % meta["base_refactoring"]
            rc, out = sh("git init -q . 2>/dev/null; git apply --whitespace=nowarn %s" % patch, d, env)
            if rc != 0:
                rc, out = sh("patch -p1 -s < %s" % patch, d, env)
            meta["patch_applies"] = rc == 0
            rcs, outs = sh("cargo test --offline --lib%s" % feat, d, env)
            m = re.search(r"test result: (\w+)\. (\d+) passed; (\d+) failed", outs)
            meta["suite_with_change"] = "%s (%s passed, %s failed)" % (m.group(1), m.group(2), m.group(3)) if m else "build failed"
            rcd, outd = sh("cargo test --offline --doc", d, env)
            md = re.search(r"test result: (\w+)\. (\d+) passed; (\d+) failed", outd)
            meta["doctests_with_change"] = "%s (%s passed, %s failed)" % (md.group(1), md.group(2), md.group(3)) if md else "failed to build"
            rc1, out1 = sh(demo_cmd, d, env)
            meta["demo_with_change"] = "FAIL (as intended)" if rc1 != 0 else "pass (demo does not detect the change)"
            shutil.rmtree(os.path.join(d, "target"), ignore_errors=True)
            confirmed = meta["demo_on_clean_tree"] == "pass" and meta["patch_applies"] and rcs == 0 and rc1 != 0 and rcd == 0 and meta.get("demo_on_refactored_tree", "pass") == "pass"
            meta["confirmed"] = confirmed
            # static checks on the patched copy
            cenv = dict(os.environ, WOWSRP_REPO=d, WOWSRP_SLOT="s" + prop, WOWSRP_EVIDENCE_DIR=os.path.join(d, "_ev"), WOWSRP_REPLAY_DIR=os.path.join(d, "_rp"))
            results = {}
            for p in (ALL if allprops else [prop]):
                r = subprocess.run([os.path.join(VERIF, "check"), p], env=cenv, capture_output=True, text=True)
                keys = [l.strip()[3:].strip() for l in r.stdout.splitlines() if l.startswith("  key")]
                results[p] = {"exit": r.returncode, "violations": [x.split("   [cfg")[0] for x in keys][:6]}
            meta["checks"] = results
            caught = [p for p, v in results.items() if v["exit"] != 0 and v["violations"]]
            meta["caught_by"] = caught
            dst = os.path.join(VERIF, "seeded", "%s-%s" % (prop, k))
            if confirmed:
                os.makedirs(dst, exist_ok=True)
                shutil.copy(patch, os.path.join(dst, "patch.diff"))
                for dm in demos:
                    shutil.copy(dm, dst)
                if os.path.exists(os.path.join(src, "notes.md")):
                    shutil.copy(os.path.join(src, "notes.md"), dst)
                    notes = open(os.path.join(src, "notes.md")).read()
                    meta["needs_to_manifest"] = notes[:1500]
                json.dump(meta, open(os.path.join(dst, "meta.json"), "w"), indent=1)
            print("%s-%s confirmed=%s suite=%s demo_clean=%s demo_changed=%s caught_by=%s" % (prop, k, confirmed, meta["suite_with_change"], meta["demo_on_clean_tree"], meta["demo_with_change"], caught or "MISSED"))
            if not caught:
                print("   own-property check output:", results.get(prop))
        finally:
            shutil.rmtree(d, ignore_errors=True)


if __name__ == "__main__":
    main()
