"""A6: canonical byte-arithmetic expressions for the cipher step rules."""
from rules.util import strip, is_call

WIDEN_INTO = ("<T as std::convert::Into<U>>::into", "<usize as std::convert::From<u8>>::from", "<T as std::convert::From<T>>::from")


def norm(t, env=None, wide=("usize", "u64", "u32", "u16")):
    """env: {stripped term: symbol}.  Result uses:
    ("wadd", {a,b}) ("wsub", a, b) ("xor", {a,b}) ("add", a, b) ("rem", a, c) ("idx", base, i)
    ("sym", name) ("int", v) ("swap", S, i, j) and leaves anything else as ("?", shown)."""
    env = env or {}
    t = strip(t)
    return _n(t, env, wide)


def _n(t, env, wide):
    if t in env:
        return ("sym", env[t])
    k = t[0]
    if k == "int":
        return ("int", t[1])
    if k == "call":
        name = t[1]
        if name.startswith("core::num::<impl u8>::wrapping_add"):
            return ("wadd", frozenset([_n(t[2][0], env, wide), _n(t[2][1], env, wide)])) if _n(t[2][0], env, wide) != _n(t[2][1], env, wide) else ("wadd2", _n(t[2][0], env, wide))
        if "std::ops::BitXor" in name and name.endswith("::bitxor") and len(t[2]) == 2:
            return ("xor", frozenset([_n(t[2][0], env, wide), _n(t[2][1], env, wide)]))
        if "std::ops::BitOr" in name and name.endswith("::bitor") and len(t[2]) == 2:
            return ("or", frozenset([_n(t[2][0], env, wide), _n(t[2][1], env, wide)]))
        if "std::ops::BitAnd" in name and name.endswith("::bitand") and len(t[2]) == 2:
            return ("and", frozenset([_n(t[2][0], env, wide), _n(t[2][1], env, wide)]))
        if name.startswith("core::num::<impl u8>::wrapping_sub"):
            return ("wsub", _n(t[2][0], env, wide), _n(t[2][1], env, wide))
        if name in WIDEN_INTO or name.startswith("std::convert::num::<impl std::convert::From<u") or name.startswith("core::convert::num::<impl std::convert::From<u"):
            return _n(t[2][0], env, wide)
        if name.startswith("core::num::<impl ") and name.split("::")[-1] in ("to_be_bytes", "to_le_bytes", "from_be_bytes", "from_le_bytes"):
            ity = name[len("core::num::<impl "):].split(">")[0]
            return (name.split("::")[-1].replace("_bytes", "").replace("_", ""), ity, _n(t[2][0], env, wide))
    if k == "unop" and t[1] == "Not" and t[2][0] == "int" and len(t[2]) > 2 and t[2][2] in ("u8", "u16", "u32", "u64", "usize"):
        bits = {"u8": 8, "u16": 16, "u32": 32, "u64": 64, "usize": 64}[t[2][2]]
        return ("int", (~t[2][1]) & ((1 << bits) - 1))
    if k == "binop":
        op = t[1]
        a, b = _n(t[2], env, wide), _n(t[3], env, wide)
        if op == "BitXor":
            return ("xor", frozenset([a, b]))
        if op in ("Add", "AddWithOverflow", "AddUnchecked"):
            return ("add", a, b) if op == "Add" else ("addov", a, b)
        if op == "Rem":
            if b[:2] == ("int", 256) and a[0] == "add" and _is_byte_nf(a[1]) and _is_byte_nf(a[2]):
                # two bytes added in a wider type and reduced modulo 256: the wrapping byte sum
                return wadd(a[1], a[2])
            return ("rem", a, b)
        if op == "BitOr":
            return ("or", frozenset([a, b]))
        if op == "BitAnd":
            return ("and", frozenset([a, b]))
        return (op, a, b)
    if k == "field" and t[1][0] == "binop" and t[1][1].endswith("WithOverflow") and t[2] == 0:
        a, b = _n(t[1][2], env, wide), _n(t[1][3], env, wide)
        return ({"AddWithOverflow": "add", "SubWithOverflow": "sub", "MulWithOverflow": "mul"}[t[1][1]], a, b)
    if k == "cast" and t[1] == "IntToInt":
        inner = _n(t[2], env, wide)
        if t[3] in wide:
            return inner
        if inner[0] == "int" and t[3] in BYTES and inner[1] >= 0:
            return ("int", inner[1] & ((1 << (8 * BYTES[t[3]])) - 1))
        return ("trunc", t[3], inner)
    if k == "index" or k == "cindex":
        b_n = _n(t[1], env, wide)
        i_n = _n(t[2], env, wide) if k == "index" else ("int", t[2])
        if b_n[0] == "arr" and i_n[0] == "int" and 0 <= i_n[1] < len(b_n[1]):
            return b_n[1][i_n[1]]        # element of an array literal
        return ("idx", b_n, i_n)
    if k == "after" and is_call(t[1], "core::slice::<impl [T]>::swap") and t[2] == 0:
        c = t[1]
        return ("swap", _n(t[3], env, wide), _n(c[2][1], env, wide), _n(c[2][2], env, wide))
    if k == "upd":
        # fold constant-index updates over a fixed-size base into an array literal
        assigns = {}
        base = t
        while base[0] == "upd" and ((base[2][0] == "ci" and not base[2][2]) or (base[2][0] == "i" and base[2][1][0] == "int")):
            kk = base[2][1] if base[2][0] == "ci" else base[2][1][1]
            assigns.setdefault(kk, base[3])
            base = base[1]
        n_ = None
        if base[0] == "repeat" and isinstance(base[2], int):
            n_ = base[2]
        elif base[0] == "agg" and base[1] == "array":
            n_ = len(base[4])
        if n_ is not None and assigns and all(0 <= kk < n_ for kk in assigns):
            elems = []
            for i_ in range(n_):
                if i_ in assigns:
                    elems.append(_n(assigns[i_], env, wide))
                elif base[0] == "repeat":
                    elems.append(_n(base[1], env, wide))
                else:
                    elems.append(_n(base[4][i_], env, wide))
            return ("arr", tuple(elems))
        e = t[2]
        if e[0] == "i" or (e[0] == "ci" and not e[2]):
            b_n, i_n, v_n = _n(t[1], env, wide), (_n(e[1], env, wide) if e[0] == "i" else ("int", e[1])), _n(t[3], env, wide)
            # S[a] = S[b]; S[b] = (the old) S[a]: the two elements exchanged
            if b_n[0] == "upd" and v_n == ("idx", b_n[1], b_n[2]) and b_n[3] == ("idx", b_n[1], i_n):
                return ("swap", b_n[1], b_n[2], i_n)
            if b_n[0] == "arr" and i_n[0] == "int" and 0 <= i_n[1] < len(b_n[1]):
                # a store at an index that only normalisation shows to be a constant
                return ("arr", b_n[1][:i_n[1]] + (v_n,) + b_n[1][i_n[1] + 1:])
            return ("upd", b_n, i_n, v_n)
    if k == "agg" and t[1] == "array":
        return ("arr", tuple(_n(x, env, wide) for x in t[4]))
    if k == "field" and t[2] == 0 and t[1][0] == "downcast" and t[1][2] == 1 and is_call(t[1][1]) and t[1][1][1].endswith("<impl [T]>::get") and len(t[1][1][2]) == 2 and t[1][1][2][1][0] != "agg":
        # the payload of `s.get(i)` when it is Some: the element s[i]
        return ("idx", _n(t[1][1][2][0], env, wide), _n(t[1][1][2][1], env, wide))
    if k == "field":
        return ("fld", _n(t[1], env, wide), t[2])
    if k == "param":
        return ("param", t[1])
    return ("?", str(t)[:160])


def S(name):
    return ("sym", name)


def I(v):
    return ("int", v)


def wadd(a, b):
    return ("wadd", frozenset([a, b]))


def xor(a, b):
    return ("xor", frozenset([a, b]))


def show(e):
    k = e[0]
    if k == "sym":
        return e[1]
    if k == "int":
        return str(e[1])
    if k in ("wadd", "xor", "or", "and"):
        return "%s(%s)" % (k, ", ".join(sorted(show(x) for x in e[1])))
    if k == "idx":
        return "%s[%s]" % (show(e[1]), show(e[2]))
    if k == "?":
        return "?<%s>" % e[1][:60]
    return "%s(%s)" % (k, ", ".join(show(x) if isinstance(x, tuple) else str(x) for x in e[1:]))


# ----------------------------------------------------------------------------- byte vectors
# An integer expression assembled from bytes (from_be_bytes / from_le_bytes of an array literal,
# or widening casts, shifts by multiples of 8 and bit-or) is normalised to the tuple of its
# bytes, least significant first, at the width of its type: `u16::from_be_bytes([a, b])` and
# `(a as u16) << 8 | b as u16` are the same vector (b, a).

BYTES = {"u8": 1, "u16": 2, "u32": 4, "u64": 8, "usize": 8, "u128": 16}
ZERO = ("int", 0)


def bv(t, env=None):
    """fixed-width little-endian byte vector of the integer term t, or None"""
    return _bv(strip(t), env or {})


def _is_byte_nf(n):
    k = n[0]
    if k == "int":
        return 0 <= n[1] < 256
    if k in ("idx", "sym", "wadd", "wsub", "xor", "wadd2"):
        return True
    if k in ("and", "or"):
        return all(_is_byte_nf(x) for x in n[1])
    if k == "trunc":
        return n[1] == "u8"
    return False


def _bv(t, env):
    k = t[0]
    if t in env:
        return None
    if k == "int":
        w = BYTES.get(t[2]) if len(t) > 2 else None
        if w is None or t[1] < 0:
            return None
        return tuple(("int", (t[1] >> (8 * i)) & 0xFF) for i in range(w))
    if k == "cast" and t[1] == "IntToInt" and t[3] in BYTES:
        w = BYTES[t[3]]
        inner = _bv(t[2], env)
        if inner is None:
            return None
        return (inner + (ZERO,) * w)[:w]
    if k == "call":
        name = t[1]
        if name in WIDEN_INTO or name.startswith("std::convert::num::<impl std::convert::From<u") or name.startswith("core::convert::num::<impl std::convert::From<u"):
            # u16::from(u8) etc: the target width is in the impl name `... for uN>::from`
            inner = _bv(t[2][0], env)
            tgt = name.split(" for ")[-1].split(">")[0] if " for " in name else None
            if inner is None or tgt not in BYTES:
                return None
            w = BYTES[tgt]
            return (inner + (ZERO,) * w)[:w] if w >= len(inner) else None
        if name.startswith("core::num::<impl u") and name.split("::")[-1] == "swap_bytes" and len(t[2]) == 1:
            inner = _bv(t[2][0], env)
            ity = name[len("core::num::<impl "):].split(">")[0]
            if inner is None or ity not in BYTES or len(inner) != BYTES[ity]:
                return None
            return tuple(reversed(inner))
        if name.startswith("core::num::<impl ") and name.split("::")[-1] in ("from_be_bytes", "from_le_bytes"):
            ity = name[len("core::num::<impl "):].split(">")[0]
            arr = _n(t[2][0], env, ())
            if ity in BYTES and arr[0] == "arr" and len(arr[1]) == BYTES[ity] and all(_is_byte_nf(x) for x in arr[1]):
                return tuple(reversed(arr[1])) if name.endswith("from_be_bytes") else tuple(arr[1])
            if ity in BYTES and arr[0] == "sym":
                # a whole (symbolic) byte array of exactly that width read as one word
                elems = tuple(("idx", arr, ("int", k_)) for k_ in range(BYTES[ity]))
                return tuple(reversed(elems)) if name.endswith("from_be_bytes") else elems
            return None
    if k == "binop":
        op = t[1]
        if op in ("Shl", "ShlUnchecked", "Shr", "ShrUnchecked"):
            a = _bv(t[2], env)
            s = t[3]
            while s[0] == "cast":
                s = s[2]
            if a is None or s[0] != "int" or s[1] % 8 or s[1] < 0 or s[1] >= 8 * len(a):
                return None
            n = s[1] // 8
            if op.startswith("Shl"):
                return ((ZERO,) * n + a)[:len(a)]
            return a[n:] + (ZERO,) * n
        if op == "BitAnd":
            # a mask over the whole word is a mask over each byte
            a, b = _bv(t[2], env), _bv(t[3], env)
            if a is not None and b is not None and len(a) == len(b):
                out = []
                for x, y in zip(a, b):
                    if x[0] == "int" and y[0] == "int":
                        out.append(("int", x[1] & y[1]))
                    elif x == ZERO or y == ZERO:
                        out.append(ZERO)
                    elif x == ("int", 255):
                        out.append(y)
                    elif y == ("int", 255):
                        out.append(x)
                    else:
                        out.append(("and", frozenset([x, y])))
                return tuple(out)
        if op == "BitOr":
            a, b = _bv(t[2], env), _bv(t[3], env)
            if a is None or b is None or len(a) != len(b):
                return None
            out = []
            for x, y in zip(a, b):
                if x == ZERO:
                    out.append(y)
                elif y == ZERO:
                    out.append(x)
                elif x[0] == "int" and y[0] == "int":
                    out.append(("int", x[1] | y[1]))
                else:
                    out.append(("or", frozenset([x, y])))
            return tuple(out)
    n = _n(t, env, ())
    if n[0] == "trunc" and n[1] == "u8":
        return (n,)
    if _is_byte_nf(n) and n[0] != "sym":
        return (n,)
    return None


def swap_reads(n):
    """reads of a just-swapped table at the swapped positions, in terms of the table before:
    swap(S, a, b)[a] = S[b], swap(S, a, b)[b] = S[a]"""
    if isinstance(n, frozenset):
        return frozenset(swap_reads(x) for x in n)
    if not isinstance(n, tuple):
        return n
    m = tuple(swap_reads(x) if isinstance(x, (tuple, frozenset)) else x for x in n)
    if m and m[0] == "idx" and isinstance(m[1], tuple) and m[1] and m[1][0] == "swap":
        S_, a_, b_ = m[1][1], m[1][2], m[1][3]
        if m[2] == a_:
            return ("idx", S_, b_)
        if m[2] == b_:
            return ("idx", S_, a_)
    return m


def bv_trim(v):
    """drop the zero bytes at the high end (widths differ between spellings of one value)"""
    v = tuple(v)
    while v and v[-1] == ZERO:
        v = v[:-1]
    return v


def _byte_of(x, j):
    """byte j of x, with the bitwise operators taken apart byte by byte: byte(a | b, j) is
    byte(a, j) | byte(b, j) (the same for & and ^), and byte j of a constant is a constant - so
    `(size | 0x0080_0000).to_be_bytes()[1]` is `0x80 | size.to_be_bytes()[1]`"""
    if isinstance(x, tuple) and x and x[0] == "int":
        return ("int", (x[1] >> (8 * j)) & 255)
    if isinstance(x, tuple) and x and x[0] in ("and", "or", "xor") and isinstance(x[1], (set, frozenset)):
        parts = [_byte_of(y, j) for y in x[1]]
        consts = [p_[1] for p_ in parts if p_[0] == "int"]
        rest = [p_ for p_ in parts if p_[0] != "int"]
        if x[0] == "or":
            c = 0
            for v in consts:
                c |= v
            if c == 255:
                return ("int", 255)
            if c:
                rest.append(("int", c))
        elif x[0] == "and":
            c = 255
            for v in consts:
                c &= v
            if c == 0:
                return ("int", 0)
            if c != 255:
                rest.append(("int", c))
        else:
            c = 0
            for v in consts:
                c ^= v
            if c:
                rest.append(("int", c))
        if not rest:
            return ("int", {"or": 0, "and": 255, "xor": 0}[x[0]])
        if len(rest) == 1:
            return rest[0]
        return (x[0], frozenset(rest))
    return ("byte", x, j)


def byte_canon(n):
    """normal form of "byte j of the integer x" (j = 0 is the least significant), whichever way
    it is spelled: x.to_be_bytes()[k], x.to_le_bytes()[k], (x >> 8*j) as u8, x as u8"""
    if not isinstance(n, tuple) or not n:
        return n
    k = n[0]
    if k == "idx" and n[1][0] in ("tobe", "tole") and n[2][0] == "int" and n[1][1] in BYTES:
        w = BYTES[n[1][1]]
        j = n[2][1]
        if 0 <= j < w:
            return _byte_of(byte_canon(n[1][2]), (w - 1 - j) if n[1][0] == "tobe" else j)
    if k == "trunc" and n[1] == "u8":
        x = n[2]
        if x[0] in ("Shr", "ShrUnchecked") and x[2][0] == "int" and x[2][1] % 8 == 0:
            return _byte_of(byte_canon(x[1]), x[2][1] // 8)
        if x[0] == "and" and len(x[1]) == 2 and ("int", 255) in x[1]:
            rest = [y for y in x[1] if y != ("int", 255)][0]
            return byte_canon(("trunc", "u8", rest))
        return _byte_of(byte_canon(x), 0)
    if k in ("and", "or", "xor", "wadd"):
        return (k, frozenset(byte_canon(x) for x in n[1]))
    if k == "arr":
        return ("arr", tuple(byte_canon(x) for x in n[1]))
    return n


def assoc(e):
    """wrapping addition is associative as well as commutative: nested sums as one multiset
    (("waddn", sorted member reprs)), applied recursively - for comparing `(j + s) + k` with
    `j + (s + k)`"""
    if not isinstance(e, tuple) or not e:
        return e
    if isinstance(e, frozenset):
        return frozenset(assoc(x) for x in e)
    if e[0] in ("wadd", "wadd2"):
        items = []

        def collect(x):
            if isinstance(x, tuple) and x and x[0] == "wadd":
                for y in x[1]:
                    collect(y)
            elif isinstance(x, tuple) and x and x[0] == "wadd2":
                collect(x[1])
                collect(x[1])
            else:
                items.append(assoc(x))
        collect(e)
        return ("waddn", tuple(sorted(items, key=repr)))
    return tuple(assoc(x) if isinstance(x, (tuple, frozenset)) else x for x in e)
