#!/usr/bin/env python3
"""debug aid: tools/terms.py <repo dir> <fn path> [engine]: return term, calls and switches"""
import sys, os
sys.path.insert(0, '/verif/analysis')
os.environ['WOWSRP_REPO'] = sys.argv[1]
import extract, framework, facts
from symex import show
p, _ = extract.extract(extract.DEFAULT + ["matrix-card"], repo=sys.argv[1])
fb = facts.FactBase(p) if hasattr(facts, "FactBase") else None
ctx = framework.Ctx(fb, "dbg", "quick")
se = getattr(ctx, sys.argv[3] if len(sys.argv) > 3 else 'wrap').run(sys.argv[2])
print("RET", show(se.ret, maxdepth=14))
for bb, i in sorted(se.term_info.items()):
    if i.get('k') == 'call':
        print(bb, "call", i['name'], [show(a, maxdepth=5) for a in i['args']])
    elif i.get('k') == 'switch':
        print(bb, 'switch', show(i['discr'], maxdepth=6), i['targets'], i['otherwise'])
if len(sys.argv) > 4 and sys.argv[4] == "mir":
    import subprocess
    subprocess.run([sys.executable, '/verif/analysis/pretty.py', p, sys.argv[2]])
