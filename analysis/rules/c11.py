"""C11 - all header entry points agree; failed reads leave the cipher untouched.

Decides: (i) reader wrappers call only `Read::read_exact` on the reader parameter, into a
zeroed local array of the header's length, propagate its error with `?` (A10), hold an
*unmodified* cipher at every read (exception, tabled: the second read of the 5-byte Wrath
header happens exactly after `attempt_decrypt_server_header`), do nothing on the error arm,
and hand exactly the bytes read to the typed helper (A3); (ii) writer wrappers call only
`Write::write_all` with the typed helper's output for the same (size, opcode) and propagate the
error; (iii) typed helpers build the wire layout [BE16(size), LE(opcode)], apply the raw operation
once to the whole array and return it / parse BE16, LE16|LE32 after one raw operation (A6/A7);
(iv) every facade method is a single delegation to the same-named method of the matching half
with its parameters in order (A3) - two facade decoders are coded separately and are checked as
siblings of the half's decoder."""
import cfg
from rules import util, headers, arith
from rules.arith import S, I
from rules.util import strip, canon
from symex import show, walk

EXPLANATION = __doc__
TRUSTED = ["rustc / extractor", "std::io::Read::read_exact / Write::write_all contracts (retry on Interrupted, fragment handling, error on short read)", "the raw byte ciphers are position-preserving (C07-C09)"]
NOT_DECIDED = ["behaviour of std's read_exact/write_all"]

BRANCH = "<std::result::Result<T, E> as std::ops::Try>::branch"
FROM_RES = "<std::result::Result<T, F> as std::ops::FromResidual<std::result::Result<std::convert::Infallible, E>>>::from_residual"

HALVES = [
    # feature, half type, raw method, reader wrappers {name: header len}, writer wrappers {name: helper}, encoders, decoders
    (None, "vanilla_header::encrypt::EncrypterHalf", "encrypt"),
    (None, "vanilla_header::decrypt::DecrypterHalf", "decrypt"),
    ("tbc-header", "tbc_header::encrypt::EncrypterHalf", "encrypt"),
    ("tbc-header", "tbc_header::decrypt::DecrypterHalf", "decrypt"),
    ("wrath-header", "wrath_header::encrypt::ServerEncrypterHalf", "encrypt"),
    ("wrath-header", "wrath_header::encrypt::ClientEncrypterHalf", "encrypt"),
    ("wrath-header", "wrath_header::decrypt::ServerDecrypterHalf", "decrypt"),
    ("wrath-header", "wrath_header::decrypt::ClientDecrypterHalf", "decrypt"),
]
LEN = {"server": 4, "client": 6}


def floors_for(feats):
    v = 1
    t = 1 if "tbc-header" in feats else 0
    w = 1 if "wrath-header" in feats else 0
    readers = 2 * v + 2 * t + 2 * w
    writers = 2 * v + 2 * t + 2 * w
    return {"reader": 5 * readers, "writer": 4 * writers, "encoder": 2 * (2 * v + 2 * t + 1 * w), "decoder": 2 * (2 * v + 2 * t + 1 * w), "facade": 9 * v + 9 * t + 11 * w}


def methods_of(ctx, ty):
    pre = ty + "::"
    # (the methods the rules are about are the type's API; a private generic method that a
    # refactoring put behind them - fresh, looked through - is not an entry point of its own)
    fresh = getattr(ctx.fb, "fresh_paths", set())
    return {p[len(pre):]: b for p, b in ctx.fb.bodies.items() if p.startswith(pre) and b.kind == "AssocFn" and "::" not in p[len(pre):] and not (b.d.get("generics") and not (b.reachable() and b.is_pub()) and (p in fresh or any(q.startswith(p + "::<") for q in fresh)))}


def peel_after(t, se=None, bb=None):
    while t[0] == "after":
        t = t[3]
    # a location argument naming a parameter's own local is that parameter; any other local
    # (e.g. the parameter of a spliced helper) stands for the value it holds
    if t[0] == "local":
        if se is None or t[1] <= se.body.arg_count:
            return ("param", t[1])
        v = strip(se.read(se.in_state.get(bb, {}), t))
        while v[0] == "after":
            v = strip(v[3])
        return v
    return t


def try_arms(se, call_bb):
    """for a fallible call at call_bb find `?`: returns (branch_bb, switch_bb, continue_target,
    break_target) or None"""
    info = se.term_info.get(call_bb)
    if not info:
        return None
    ct = info["term"]
    for bb, i in se.term_info.items():
        if i.get("k") == "call" and i["name"] == BRANCH and strip(i["args"][0]) == strip(ct):
            nxt = se.body.blocks[bb]["term"]["target"]
            sw = se.term_info.get(nxt)
            if sw and sw.get("k") == "switch":
                tg = dict(sw["targets"])
                if 0 in tg and 1 in tg:
                    return bb, nxt, tg[0], tg[1]
    return None


def match_arms(se, call_bb):
    """the io::Result of a call matched on directly (`match r { Ok(()) => .., Err(e) => Err(e) }`):
    (None, switch_bb, Ok target, Err target) or None"""
    info = se.term_info.get(call_bb)
    if not info:
        return None
    ct = strip(info["term"])
    for bb, i in se.term_info.items():
        if i.get("k") == "switch":
            d = strip(i["discr"])
            if d[0] == "discr" and strip(d[1]) == ct:
                tg = dict(i["targets"])
                oth = i.get("otherwise")
                ok_t = tg.get(0)
                err_t = tg.get(1, oth if oth is not None and se.body.blocks[oth]["term"]["k"] != "unreachable" else None)
                if ok_t is not None and err_t is not None:
                    return None, bb, ok_t, err_t
    return None


def error_arm_clean(se, brk, fn):
    """blocks reachable from the Break arm: only from_residual, no other call; the function
    returns from_residual(..) there"""
    body = se.body
    region = cfg.reachable(body, start=brk)
    calls = []
    for b in region:
        i = se.term_info.get(b, {})
        if i.get("k") == "call":
            calls.append(i["name"])
    # blocks after the join (return block) are shared with the success path; only consider
    # the part of the region not reachable from the continue side through other routes:
    return calls


def reader_rule(ctx, rep, half, name, b, expected_reads, helper_names, allow_second_after=None):
    fn = b.path
    se = ctx.wrap.run(fn)
    body = se.body
    # (i) what is called on the reader
    io_calls = [(bb, t) for bb, t in body.calls() if t.get("callee_trait") == "std::io::Read" or (t.get("callee") or "").startswith("std::io::Read::")]
    # (`reader.by_ref()` is `&mut reader`: the same reader)
    io_calls = [(bb, t) for bb, t in io_calls if t.get("callee") != "std::io::Read::by_ref"]
    names = sorted({t.get("callee") for _, t in io_calls})
    rep.check(names == ["std::io::Read::read_exact"], "reader", fn, "only-read_exact", "%d read_exact call(s), no other Read method" % len(io_calls), "reader is used through %s (fragmented or interrupted input would be mishandled)" % names, body.loc())
    # the reader escapes nowhere else
    esc = []
    for bb, i in se.term_info.items():
        if i.get("k") == "call" and i["name"] not in ("std::io::Read::read_exact", "std::io::Read::by_ref"):
            for a in i.get("locargs", i["args"]):
                if peel_after(strip(a), se, bb) == ("param", 2):
                    esc.append(i["name"])
    rep.check(not esc, "reader", fn, "reader-not-passed-on", "the reader is only used by read_exact", "reader is also handed to %s" % esc, body.loc())
    reads = [bb for bb, t in io_calls if t.get("callee") == "std::io::Read::read_exact"]
    reads.sort()
    if len(reads) != len(expected_reads):
        rep.violation("reader", fn, "read-count", "expected %d read_exact call(s), found %d" % (len(expected_reads), len(reads)), body.loc())
        return
    self_root = ("deref", ("param", 1))
    for k, (bb, want_len) in enumerate(zip(reads, expected_reads)):
        info = se.term_info[bb]
        la = info["locargs"]
        rd_ok = peel_after(strip(la[0]), se, bb) == ("param", 2)
        site = info["site"]
        buf_old = se.call_old.get((site, 1))
        bl = la[1][1] if la[1][0] == "ref" else None
        bty = None
        if bl is not None and bl[0] == "local":
            bty = body.local_ty(bl[1])
        bo_ = strip(buf_old) if buf_old is not None else ("?",)
        # a fresh array: `[0; N]` or `<[u8; N]>::default()` (what it held does not matter - read_exact
        # fills all N bytes or fails - but it must be a new local of exactly the header's length)
        fresh_arr = bo_[0] == "repeat" or (util.is_call(bo_) and "std::default::Default for [T; " in bo_[1] and not bo_[2])
        buf_ok = bty is not None and bty.k == "array" and bty.len == want_len and fresh_arr
        if not buf_ok and want_len == 1 and bty is not None and bty.s == "u8" and bo_[0] == "int":
            buf_ok = True       # a fresh local u8 handed over as its one-element slice (slice::from_mut)
        rep.check(rd_ok and buf_ok, "reader", fn, "read%d-buffer" % k, "read_exact(reader, &mut [0u8; %d])" % want_len, "read %d does not fill a fresh local [u8; %d] from the reader parameter (buffer type %s)" % (k, want_len, bty.s if bty else "?"), body.loc(bb))
        # (iii) cipher untouched when the read can fail
        st = se.in_state.get(bb, {}).get(self_root, self_root)
        if k == 0 or allow_second_after is None:
            rep.check(st == self_root, "reader", fn, "read%d-cipher-untouched" % k, "no cipher state is modified before read %d" % k, "cipher state has already been modified when read %d can still fail: %s" % (k, show(st, maxdepth=3)), body.loc(bb))
        else:
            good = st[0] == "after" and util.is_call(st[1], allow_second_after) and st[2] == 0 and st[3] == self_root
            if good:
                # the attempt consumed exactly the 4 bytes of read 0
                a = st[1][2][1]
                first = se.term_info[reads[0]]["term"]
                good = a[0] == "after" and strip(a[1]) == strip(first) and a[2] == 1
            rep.check(good, "reader", fn, "read%d-cipher-state" % k, "at the second read the cipher is exactly as after attempt_decrypt_server_header(first 4 bytes)", "cipher state at read %d is not exactly the state after the 4-byte attempt: %s" % (k, show(st, maxdepth=3)), body.loc(bb))
        # (ii) A10
        arms = try_arms(se, bb)
        if arms is None and len(reads) == 1 and mapped_helper(ctx, rep, se, fn, half, helper_names, bb, bl):
            return
        matched = False
        if arms is None:
            arms = match_arms(se, bb)
            matched = arms is not None
        if arms is None:
            rep.violation("reader", fn, "read%d-error-propagated" % k, "the io::Result of read_exact is not propagated with `?`", body.loc(bb))
            continue
        br_bb, sw_bb, cont, brk = arms
        # the error arm: first block must build the return value through from_residual and
        # no cipher call may occur before the function returns
        calls = []
        seen = set()
        work = [brk]
        while work:
            x = work.pop()
            if x in seen:
                continue
            seen.add(x)
            i = se.term_info.get(x, {})
            if i.get("k") == "call":
                calls.append(i["name"])
            # stop at blocks also reachable from the continue arm (the common return block)
            for s_ in body.succs(x):
                if s_ not in cfg.reachable(body, start=cont):
                    work.append(s_)
        # `?` plumbing only: the error is handed up - possibly through the `?` of an extracted
        # helper and then the caller's own (branch of the helper's known Err, from_residual again)
        good = bool(calls) and calls[0] == FROM_RES and len(calls) <= 5 and all(c == FROM_RES or c.endswith(" as std::ops::Try>::branch") for c in calls)
        if matched:
            # `Err(e) => Err(e)`: nothing is called on that arm, and what it returns is an Err
            # holding the very error read_exact returned
            ct_ = strip(se.term_info[bb]["term"])
            errs_ = [se.assigns[(bi_, si_)][1] for bi_, si_, s_ in util.blocks_constructing(body, "std::result::Result", "Err") if bi_ in seen]
            good = not calls and len(errs_) == 1 and strip(errs_[0][4][0]) == ("field", ("downcast", ct_, 1), 0)
        rep.check(good, "reader", fn, "read%d-error-propagated" % k, "Err(e) => return Err(e.into()) with nothing else executed", "on a failed read the function executes %s before returning" % calls, body.loc(brk))
    # (iv) success: the helper receives exactly the bytes read
    last = se.term_info[reads[0]]
    buf_after = None
    helper_calls = [(bb, i) for bb, i in se.term_info.items() if i.get("k") == "call" and i["name"].split("::")[-1] in helper_names and i["name"].startswith(half + "::")]
    good = False
    desc = "helper calls %s" % [i["name"] for _, i in helper_calls]
    if helper_calls:
        bb, i = sorted(helper_calls)[0]
        a = i["args"]
        first = se.term_info[reads[0]]["term"]
        v = util.unwrap_try(se, a[1])
        good = a[0] == ("mutref", 0) and v[0] == "after" and strip(v[1]) == strip(first) and v[2] == 1
        desc = "%s(self, bytes just read)" % i["name"].split("::")[-1]
    if not helper_calls and len(reads) == 1:
        # the typed helper spelled out (a generic private helper was looked through): the raw
        # in-place decrypt on exactly the bytes just read, then the header's own from_array of
        # them, returned in Ok - which is what the typed helper is decided to be
        first = se.term_info[reads[0]]["term"]
        fa = [i for _, i in sorted(se.term_info.items()) if i.get("k") == "call" and i["name"].endswith("Header::from_array")]
        raw = [i for _, i in sorted(se.term_info.items()) if i.get("k") == "call" and i["name"] == half + "::decrypt"]
        r_ = strip(se.ret)
        if not fa and len(raw) == 1 and util.is_call(r_, "std::result::Result::<T, E>::map") and len(r_[2]) == 2 and r_[2][1][0] == "fn" and r_[2][1][1].endswith("Header::from_array"):
            # `self.read_and_decrypt(reader).map(Header::from_array)`: the header's from_array applied
            # to the Ok payload - the decrypted bytes just read -, an Err passed on as it is
            oks_ = [se.assigns[(bi, si)][1] for bi, si, s_ in util.blocks_constructing(body, "std::result::Result", "Ok")]
            x_ = strip(r_[2][0])
            ins_ = [strip(v_) for v_ in se.phi_inputs.get((x_[2], x_[3]), {}).values()] if x_[0] == "phi" else [x_]
            if len(oks_) == 1 and strip(oks_[0]) in ins_:
                v = strip(oks_[0][4][0])
                la0 = raw[0]["locargs"][0]
                recv_ok = la0[0] == "ref" and strip(la0[1]) == ("param", 1) or la0 == ("ref", self_root, True)
                chain = v[0] == "after" and strip(v[1]) == strip(raw[0]["term"]) and v[2] == 1 and strip(v[3])[0] == "after" and strip(strip(v[3])[1]) == strip(first) and strip(v[3])[2] == 1
                kind_ok = ("Server" in r_[2][1][1]) == ("server" in name)
                others_ = [i for i in se.term_info.values() if i.get("k") == "call" and i["name"] not in ("std::io::Read::read_exact", half + "::decrypt", "std::result::Result::<T, E>::map", FROM_RES) and not i["name"].endswith(" as std::ops::Try>::branch") and "std::default::Default for [T; " not in i["name"] and i["name"] not in util.IDENT_CALLS]
                good = recv_ok and chain and kind_ok and not others_
                desc = "read(..).map(%s::from_array) over self.decrypt(bytes just read)" % r_[2][1][1].split("::")[-2] if good else "mapped form: raw decrypt on self %s, of the bytes just read %s, header kind %s, other calls %s" % (recv_ok, chain, kind_ok, [i["name"] for i in others_])
        if len(fa) == 1 and len(raw) == 1:
            v = strip(fa[0]["args"][0])
            la0 = raw[0]["locargs"][0]
            recv_ok = la0[0] == "ref" and strip(la0[1]) == ("param", 1) or la0 == ("ref", self_root, True)
            chain = v[0] == "after" and strip(v[1]) == strip(raw[0]["term"]) and v[2] == 1 and strip(v[3])[0] == "after" and strip(strip(v[3])[1]) == strip(first) and strip(v[3])[2] == 1
            kind_ok = ("Server" in fa[0]["name"]) == ("server" in name)
            oks = [se.assigns[(bi, si)][1] for bi, si, s_ in util.blocks_constructing(body, "std::result::Result", "Ok")]
            ret_ok = len(oks) == 1 and strip(oks[0][4][0]) == strip(fa[0]["term"])
            good = recv_ok and chain and kind_ok and ret_ok
            desc = "Ok(%s(self.decrypt(bytes just read)))" % fa[0]["name"].split("::")[-2] if good else "raw decrypt on self %s, of the bytes just read then from_array %s, header kind %s, returned in Ok %s" % (recv_ok, chain, kind_ok, ret_ok)
    rep.check(good, "reader", fn, "helper-gets-read-bytes", desc, "the typed helper does not receive exactly the buffer filled by read_exact: " + desc, body.loc())


def mapped_helper(ctx, rep, se, fn, half, helper_names, read_bb, buf_loc):
    """combinator spelling of the reader: `reader.read_exact(&mut buf).map(|()| self.helper(buf))`.
    Result::map leaves Err(e) as it is and runs the closure only on Ok; decided here: the
    function returns that map, nothing else is called, and the closure is exactly the typed
    helper on (self, the buffer just read)."""
    body = se.body
    read = se.term_info[read_bb]
    m = strip(se.ret)
    if not (util.is_call(m, "std::result::Result::<T, E>::map") and strip(m[2][0]) == strip(read["term"])):
        return False
    mi = se.term_info.get(m[3][1], {})
    cl = mi["args"][1] if mi.get("k") == "call" and len(mi.get("args", ())) == 2 else ("?",)
    if not (cl[0] == "agg" and cl[1] == "closure"):
        return False
    names = sorted(i["name"] for i in se.term_info.values() if i.get("k") == "call")
    good = names == sorted(["std::io::Read::read_exact", "std::result::Result::<T, E>::map"])
    rep.check(good, "reader", fn, "read0-error-propagated", "the function returns read_exact(..).map(..): Err(e) is passed on unchanged, nothing else runs", "besides read_exact(..).map(..) the function calls %s" % names, body.loc(read_bb))
    caps = cl[4]
    cse = ctx.flat.run(cl[2])
    desc = "closure not analysable"
    good = False
    if cse is not None and not cfg.back_edges(cse.body):
        calls = [i for _, i in sorted(cse.term_info.items()) if i.get("k") == "call"]
        desc = "closure calls %s" % [i["name"] for i in calls]
        map_bb = m[3][1]
        st = se.in_state.get(map_bb, {})

        def resolve(t):
            def f(x):
                if x[0] == "field" and x[1] == ("param", 1) and isinstance(x[2], int) and x[2] < len(caps):
                    return caps[x[2]]
                return None
            t = util.map_term(t, f)

            def g(x):
                if x[0] == "deref" and x[1][0] in ("ref", "refv"):
                    return util.map_term(x[1][1], g)
                return None
            return util.map_term(t, g)

        if len(calls) == 1 and calls[0]["name"].split("::")[-1] in helper_names and calls[0]["name"].startswith(half + "::") and strip(cse.ret) == strip(calls[0]["term"]):
            la = calls[0]["locargs"]
            recv = resolve(la[0][1]) if la[0][0] == "ref" else None
            bufv = resolve(la[1])
            recv_ok = recv is not None and recv[0] == "deref" and recv[1][0] == "local" and se.read(st, recv[1]) == ("param", 1)
            buf_ok = bufv == buf_loc
            good = recv_ok and buf_ok
            desc = "%s(self, bytes just read) inside the mapped closure" % calls[0]["name"].split("::")[-1]
            if not good:
                desc += " [receiver %s, buffer %s vs %s]" % (show(recv) if recv else None, bufv, buf_loc)
    rep.check(good, "reader", fn, "helper-gets-read-bytes", desc, "the typed helper does not receive exactly the buffer filled by read_exact: " + desc, body.loc())
    return True


def shape(t):
    """a term without the call sites it was computed at (to compare two functions' values)"""
    if not isinstance(t, tuple):
        return t
    if t and t[0] == "call" and len(t) >= 3:
        return ("call", t[1], tuple(shape(a) for a in t[2]))
    return tuple(shape(x) for x in t)


def writer_rule(ctx, rep, half, name, b, helper):
    fn = b.path
    se = ctx.wrap.run(fn)
    body = se.body
    io_calls = [(bb, t) for bb, t in body.calls() if t.get("callee_trait") == "std::io::Write" or (t.get("callee") or "").startswith("std::io::Write::")]
    names = sorted({t.get("callee") for _, t in io_calls})
    rep.check(names == ["std::io::Write::write_all"] and len(io_calls) == 1, "writer", fn, "only-write_all", "one write_all, no other Write method", "writer is used through %s x%d (partial writes would be lost)" % (names, len(io_calls)), body.loc())
    if len(io_calls) != 1:
        return
    bb = io_calls[0][0]
    info = se.term_info[bb]
    la = info["locargs"]
    w_ok = peel_after(strip(la[0])) == ("param", 2)
    if not w_ok and la[0][0] == "ref" and la[0][1][0] == "local":
        # the writer moved into a local of a looked-through helper (`mut write: W`)
        w_ok = peel_after(strip(util.value_before_terminator(se, bb, la[0][1]))) == ("param", 2)
    buf = strip(info["args"][1])
    hname = half + "::" + helper
    good = util.is_call(buf, hname) and buf[2][0] == ("mutref", 0) and tuple(buf[2][1:]) == (("param", 3), ("param", 4))
    n_helper = sum(1 for i in se.term_info.values() if i.get("k") == "call" and i["name"] == hname)
    how = "write_all(writer, %s(self, size, opcode))" % helper
    once_how = "the header is encrypted exactly once"
    if not good and n_helper == 0:
        # the writer does not go through the typed helper but through what the helper itself is
        # made of (a shared builder): the bytes written must be the very term the helper returns
        # for the same (self, size, opcode), and the state-changing crate calls must be the same
        hse = ctx.wrap.run(hname)
        if hse is not None and not any(x[0] == "phi" for x in walk(strip(hse.ret))) and not any(x[0] == "phi" for x in walk(buf)):
            def sub(x):
                if x[0] == "param" and x[1] in (2, 3):
                    return ("param", x[1] + 1)
                return None
            want_t = shape(util.map_term(strip(hse.ret), sub))
            def crate_calls(s_):
                return sorted(i["name"] for i in s_.term_info.values() if i.get("k") == "call" and i["name"] in ctx.fb.bodies)
            got = buf
            while got[0] in ("ref", "refv") and isinstance(got[1], tuple):
                got = strip(got[1])
            if want_t == shape(got) and crate_calls(hse) == crate_calls(se):
                good = True
                n_helper = 1
                how = "write_all(writer, X) with X the same term %s(self, size, opcode) returns, built by the same calls" % helper
                once_how = "the same crate calls as the typed helper, each once: %s" % crate_calls(se)
    rep.check(w_ok and good, "writer", fn, "writes-helper-output", how, "bytes written are not the whole output of %s(self, size, opcode): %s" % (helper, show(buf, maxdepth=3)), body.loc(bb))
    rep.check(n_helper == 1, "writer", fn, "helper-once", once_how, "typed helper called %d times" % n_helper, body.loc())
    arms = try_arms(se, bb)
    if arms is None and strip(se.ret) == strip(info["term"]):
        rep.ok("writer", fn, "error-propagated", "the io::Result of write_all is the function's result", body.loc(bb))
    elif arms is None:
        rep.violation("writer", fn, "error-propagated", "the io::Result of write_all is not propagated (a failing writer would be swallowed)", body.loc(bb))
    else:
        # Ok(()) only on the continue arm
        oks = [bi for bi, _, _ in util.blocks_constructing(body, "std::result::Result", "Ok")]
        good = bool(oks) and all(cfg.must_pass_edge(body, (arms[1], arms[2]), o) for o in oks)
        rep.check(good, "writer", fn, "error-propagated", "Err(e) is returned; Ok(()) only after a successful write_all", "Ok(()) is reachable although write_all failed", body.loc(bb))


def layout_env(data_term):
    return {strip(data_term): "D"}


def be(n, x, k):
    return ("byte", x, arith.BYTES[n] - 1 - k)


def le(n, x, k):
    return ("byte", x, k)


IC_APPLY = "wrath_header::inner_crypto::InnerCrypto::apply"


def raw_apps(ctx, se, half, raw):
    """call sites that are the half's raw operation on its own stream: half::raw(self, ..), or -
    for the Wrath halves, whose raw operation is `self.<stream>.apply(data)` (C09 decides that)
    - InnerCrypto::apply on the half's own stream field"""
    fb = ctx.fb
    self_root = ("deref", ("param", 1))
    cf = [i for i, f in enumerate(fb.adt_fields(half) or []) if fb.ty(f["ty"]).peel_refs().path == "wrath_header::inner_crypto::InnerCrypto"]
    out = []
    for bb, i in se.term_info.items():
        if i.get("k") != "call":
            continue
        la = (i.get("locargs") or (("?",),))[0]
        if i["name"] == half + "::" + raw and la == ("ref", self_root, True):
            out.append(i)
        elif i["name"] == IC_APPLY and len(cf) == 1 and la == ("ref", ("field", self_root, cf[0]), True):
            out.append(i)
    return out


def encoder_rule(ctx, rep, half, raw, name, b, size_ty, op_ty):
    fn = b.path
    se = ctx.pure.run(fn)
    r = strip(se.ret)
    apps = raw_apps(ctx, se, half, raw)
    app_terms = {strip(i["term"]) for i in apps}
    good = False
    desc = show(r, maxdepth=4)
    nop = {"u16": 2, "u32": 4}[op_ty]
    want = ("arr", tuple([be("u16", ("param", 2), 0), be("u16", ("param", 2), 1)] + [le(op_ty, ("param", 3), k) for k in range(nop)]))
    if r[0] == "after" and strip(r[1]) in app_terms and r[2] == 1 and r[1][2][0] == ("mutref", 0):
        arr = arith.byte_canon(arith.norm(r[3]))
        good = arr == want
        desc = arith.show(arr) if arr[0] != "arr" else "[%s]" % ", ".join(arith.show(x) for x in arr[1])
    rep.check(good, "encoder", fn, "wire-layout", "raw(%s) over the whole array, returned" % desc, "header is not raw-encrypted [BE16(size), LE(opcode)] over the whole array: " + desc, se.body.loc())
    n_raw = len(apps)
    rep.check(n_raw == 1, "encoder", fn, "raw-once", "raw operation applied exactly once", "raw operation applied %d times" % n_raw, se.body.loc())


def decoder_expect(kind):
    D = S("D")

    def d(k):
        return ("idx", D, I(k))

    # byte vectors, least significant first
    if kind == "server":
        return {"size": (d(1), d(0)), "opcode": (d(2), d(3))}
    if kind == "client":
        return {"size": (d(1), d(0)), "opcode": (d(2), d(3), d(4), d(5))}
    raise KeyError(kind)


def decoder_rule(ctx, rep, owner, raw, name, b, kind, header_adt):
    fn = b.path
    se = ctx.pure.run(fn)
    r = strip(se.ret)
    good = False
    desc = show(r, maxdepth=4)
    if r[0] == "agg" and r[2] == header_adt:
        fields = [f["name"] for f in ctx.fb.adt_fields(header_adt)]
        # find the decrypted data term: after<owner::raw(self, data)>(param 2)
        data = None
        app_terms = {strip(i["term"]) for i in raw_apps(ctx, se, owner, raw)}
        for t in walk(r):
            if t[0] == "after" and util.is_call(t[1]) and (t[1][1].endswith("::" + raw) or strip(t[1]) in app_terms) and t[2] == 1 and t[3] == ("param", 2):
                data = t
        if data is not None:
            env = {data: "D"}
            got = {f: arith.bv(v, env) for f, v in zip(fields, r[4])}
            want = decoder_expect(kind)
            good = all(got.get(f) is not None and got[f] == want[f] for f in want) and util.is_call(data[1]) and data[1][2][0] == ("mutref", 0)
            desc = ", ".join("%s=%s" % (k, "[%s] (low byte first)" % ", ".join(arith.show(x) for x in v) if v is not None else arith.show(arith.norm(dict(zip(fields, r[4]))[k], env))) for k, v in got.items())
    rep.check(good, "decoder", fn, "wire-layout", desc, "header is not parsed as BE16 size / LE opcode from the raw-decrypted array: " + desc, se.body.loc())
    n_raw = sum(1 for i in se.term_info.values() if i.get("k") == "call" and (i["name"].endswith("::" + raw) or strip(i["term"]) in app_terms if r[0] == "agg" and r[2] == header_adt else i["name"].endswith("::" + raw)))
    rep.check(n_raw == 1, "decoder", fn, "raw-once", "raw operation applied exactly once to the whole array", "raw operation applied %d times" % n_raw, se.body.loc())


def facade_rule(ctx, rep, comb, enc, dec):
    """every facade method is a single delegation to the same-named method of the matching half;
    a facade *decoder* may instead be coded out (raw operation + parse), in which case it is
    checked as a sibling of the half's decoder"""
    ei = headers.half_field(ctx, comb, enc)
    di = headers.half_field(ctx, comb, dec)
    for name, fam, b in headers.facade_methods(ctx, comb):
        se = ctx.flat.run(b.path)
        half = enc if fam == "enc" else dec
        fi = ei if fam == "enc" else di
        calls = [i for i in se.term_info.values() if i.get("k") == "call"]
        good = False
        desc = "%d calls" % len(calls)
        if len(calls) == 1:
            c = calls[0]
            la = c["locargs"]
            self_ok = la[0][0] == "ref" and la[0][1] == ("field", ("deref", ("param", 1)), fi)
            rest = tuple(strip(x) for x in la[1:])
            want = tuple(("param", k) for k in range(2, b.arg_count + 1))
            good = c["name"] == "%s::%s" % (half, name) and self_ok and rest == want and (strip(se.ret) == strip(c["term"]) or (se.ret == ("zst", "()") and ctx.fb.ty(ctx.fb.body(c["name"]).d["output"]).s == "()"))
            desc = "%s(&mut self.<%s half>, %s)" % (c["name"], fam, ", ".join(show(x) for x in rest))
        if not good and name in ("decrypt_server_header", "decrypt_client_header") and not comb.startswith("wrath_header::ClientCrypto"):
            kind = "server" if "server" in name else "client"
            out = ctx.fb.ty(b.d["output"])
            if out.k == "adt":
                decoder_rule(ctx, rep, comb, "decrypt", name, b, kind, out.path)
                continue
        rep.check(good, "facade", b.path, "delegates", desc, "facade method is not a single delegation to %s::%s with its parameters in order: %s" % (half, name, desc), b.loc())


def check(ctx, rep):
    fb = ctx.fb
    F = ctx.features
    for feat, half, raw in HALVES:
        if feat and feat not in F:
            continue
        ms = methods_of(ctx, half)
        is_wrath = half.startswith("wrath_header")
        for name, b in sorted(ms.items()):
            if name.startswith("read_and_decrypt_"):
                kind = "server" if "server" in name else "client"
                if is_wrath and kind == "server":
                    reader_rule(ctx, rep, half, name, b, [4, 1], ("attempt_decrypt_server_header",), allow_second_after=half + "::attempt_decrypt_server_header")
                    wrath_reader_tail(ctx, rep, half, b)
                else:
                    reader_rule(ctx, rep, half, name, b, [LEN[kind]], ("decrypt_%s_header" % kind,))
            elif name.startswith("write_encrypted_"):
                kind = "server" if "server" in name else "client"
                writer_rule(ctx, rep, half, name, b, "encrypt_%s_header" % kind)
            elif name in ("encrypt_server_header", "encrypt_client_header"):
                kind = "server" if "server" in name else "client"
                if is_wrath and kind == "server":
                    continue  # variable-length layout: C10
                encoder_rule(ctx, rep, half, raw, name, b, "u16", "u16" if kind == "server" else "u32")
            elif name in ("decrypt_server_header", "decrypt_client_header"):
                kind = "server" if "server" in name else "client"
                mod = half.split("::")[0]
                adt = "%s::%sHeader" % (mod, "Server" if kind == "server" else "Client")
                if kind == "client":
                    adt = "vanilla_header::ClientHeader" if mod == "wrath_header" else adt
                if mod == "tbc_header":
                    adt = "vanilla_header::%sHeader" % ("Server" if kind == "server" else "Client") if adt not in fb.adts else adt
                decoder_rule(ctx, rep, half, raw, name, b, kind, adt)
    for feat, comb, enc, dec in headers.active(ctx):
        facade_rule(ctx, rep, comb, enc, dec)
    if "wrath-header" in F:
        # the Wrath server header's wire layout (4 or 5 bytes) is decided by C10's encoder /
        # decoder rules; "same bytes as the raw operation on the wire layout" needs them
        from rules import c10
        if not isinstance(rep, util.Refile):    # (C10 re-files this module's reader rules: no ping-pong)
            c10.check(ctx, util.Refile(rep, "wrath-server-layout", {"encoder", "decoder", "stream-step"}))


def wrath_reader_tail(ctx, rep, half, b):
    """read 4 -> attempt; Header(h) => Ok(h); AdditionalByteRequired => read 1 -> decrypt_large_server_header(byte) => Ok"""
    fn = b.path
    se = ctx.wrap.run(fn)
    body = se.body
    large = [(bb, i) for bb, i in se.term_info.items() if i.get("k") == "call" and i["name"] == half + "::decrypt_large_server_header"]
    reads = sorted(bb for bb, t in body.calls() if t.get("callee") == "std::io::Read::read_exact")
    good = False
    desc = "?"
    if len(large) == 1 and len(reads) == 2:
        bb, i = large[0]
        a = i["args"]
        second = se.term_info[reads[1]]["term"]
        v = strip(a[1])
        # buf[0] of the 1-byte buffer just read
        good = a[0] == ("mutref", 0) and v[0] in ("cindex", "index") and v[1][0] == "after" and strip(v[1][1]) == strip(second) and (v[2] == 0 or v[2] == ("int", 0, "usize"))
        if a[0] == ("mutref", 0) and not good:
            # the fifth byte read into a plain `u8` through its one-element slice view
            # (`read_exact(slice::from_mut(&mut last_byte))`): that byte as the read left it
            good = v[0] == "after" and strip(v[1]) == strip(second) and v[2] == 1 and strip(v[3])[0] == "int"
        desc = "decrypt_large_server_header(self, fifth byte just read)"
        # it is only reached on the AdditionalByteRequired arm of the attempt
        att = [(b2, j) for b2, j in se.term_info.items() if j.get("k") == "call" and j["name"] == half + "::attempt_decrypt_server_header"]
        if good and len(att) == 1:
            nxt = body.blocks[att[0][0]]["term"]["target"]
            # find the discriminant switch on the attempt's result
            sw = None
            for b3, j in se.term_info.items():
                if j.get("k") == "switch" and strip(j["discr"]) == ("discr", strip(att[0][1]["term"])):
                    sw = (b3, j)
            if sw is None:
                good = False
            else:
                vs = ctx.fb.adts["wrath_header::decrypt::WrathServerAttempt"]["variants"]
                vi = {v["name"]: k for k, v in enumerate(vs)}
                tg = dict(sw[1]["targets"])
                more_t = tg.get(vi["AdditionalByteRequired"], sw[1]["otherwise"])
                head_t = tg.get(vi["Header"], sw[1]["otherwise"])
                good = cfg.must_pass_edge(body, (sw[0], more_t), reads[1]) and reads[1] not in cfg.reachable(body, start=head_t) if more_t != head_t else False
    rep.check(good, "reader", fn, "fifth-byte", desc, "the 5-byte path is not: attempt => AdditionalByteRequired => read 1 byte => decrypt_large_server_header(that byte)", body.loc())
