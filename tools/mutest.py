#!/usr/bin/env python3
"""Checker validation: apply each mutant (edit list or patch) to a scratch copy of /repo
(outside /repo and /verif), run the named property checks on it (analysis only - the mutant
is never executed), report which checks fire.  Scratch copies are removed immediately.

usage: mutest.py [--props C02,C05] [--filter substr] [--jobs N] [files...]
"""
import concurrent.futures
import json
import os
import re
import shutil
import subprocess
import sys
import tempfile

VERIF = os.path.dirname(os.path.dirname(os.path.abspath(__file__)))
REPO = "/repo"


def load(files):
    ms = []
    for f in files:
        if f.endswith(".json"):
            for m in json.load(open(f)):
                ms.append(m)
        elif f.endswith(".diff") or f.endswith(".patch"):
            ms.append({"name": os.path.basename(os.path.dirname(f)) or os.path.basename(f), "patch": f})
    return ms


def props_of(m, override):
    if override:
        return override
    if "props" in m:
        return m["props"]
    return sorted(set(re.findall(r"C\d\d", m["name"])))


def run_one(args):
    m, props, slot = args
    d = tempfile.mkdtemp(prefix="wsm_", dir="/tmp")
    try:
        for item in ("src", "Cargo.toml", "Cargo.lock", "tests", "benches"):
            s = os.path.join(REPO, item)
            if os.path.isdir(s):
                shutil.copytree(s, os.path.join(d, item))
            elif os.path.exists(s):
                shutil.copy(s, d)
        for pf in ([m["patch"]] if "patch" in m else []) + list(m.get("patches", [])):
            r = subprocess.run(["patch", "-p1", "-s", "-F0", "-i", os.path.abspath(pf)], cwd=d, capture_output=True, text=True)
            if r.returncode != 0:
                return m["name"], "skipped", "patch does not apply: " + r.stdout[-200:]
        for f, old, new in m.get("edits", []):
            p = os.path.join(d, f)
            s = open(p).read()
            if old not in s:
                return m["name"], "skipped", "edit anchor not found in %s" % f
            open(p, "w").write(s.replace(old, new, 1))
        env = dict(os.environ, WOWSRP_REPO=d, WOWSRP_SLOT="m%d" % slot, WOWSRP_EVIDENCE_DIR=os.path.join(d, "_ev"), WOWSRP_REPLAY_DIR=os.path.join(d, "_rp"))
        res = {}
        for p in props:
            r = subprocess.run([os.path.join(VERIF, "check"), p], env=env, capture_output=True, text=True)
            v = [l for l in r.stdout.splitlines() if l.startswith("  key") or l.startswith("  engine")]
            if "extraction failed for features" in r.stdout:
                return m["name"], "skipped", "variant does not compile"
            if r.returncode != 0 and "VIOLATION property=" not in r.stdout:
                v = []
                res[p] = (r.returncode, ["CHECK CRASHED: " + (r.stderr or r.stdout)[-200:]])
                continue
            res[p] = (r.returncode, v)
        fired = [p for p, (rc, v) in res.items() if rc != 0 and v and not v[0].startswith("CHECK CRASHED")]
        detail = "; ".join("%s:%s" % (p, " ".join(x.strip() for x in v[:2])[:230]) for p, (rc, v) in res.items() if rc != 0)
        if len(props) > 3:
            detail = "fired: " + ",".join(fired)
        crashed = [p for p, (rc, v) in res.items() if v and v[0].startswith("CHECK CRASHED")]
        if crashed:
            return m["name"], "CRASHED", "check crashed (no verdict): %s %s" % (",".join(crashed), res[crashed[0]][1][0][-160:])
        return m["name"], "caught" if fired else "MISSED", detail
    finally:
        shutil.rmtree(d, ignore_errors=True)


def main():
    args = sys.argv[1:]
    props = None
    flt = None
    out_json = None
    jobs = 4
    files = []
    own = None
    i = 0
    while i < len(args):
        if args[i] == "--props":
            props = args[i + 1].split(",")
            i += 2
        elif args[i] == "--filter":
            flt = args[i + 1]
            i += 2
        elif args[i] == "--own":
            # only the changes that break this property (their own `props`, else the ids in
            # their name), checked by this property's check
            own = args[i + 1]
            i += 2
        elif args[i] == "--all":
            props = ["C%02d" % k for k in range(1, 19)]
            i += 1
        elif args[i] == "--json":
            out_json = args[i + 1]
            i += 2
        elif args[i] == "--jobs":
            jobs = int(args[i + 1])
            i += 2
        else:
            files.append(args[i])
            i += 1
    if not files:
        import glob

        files = sorted(glob.glob(os.path.join(VERIF, "mutants", "design_survey", "*.json")))
    ms = [m for m in load(files) if not flt or flt in m["name"]]
    if own:
        # (the first id is the property the change was written against; further ids are "may also
        # fire" unless the entry says that every listed check is known to fire)
        ms = [m for m in ms if props_of(m, None)[:1] == [own] or (m.get("props_all") and own in props_of(m, None))]
        props = [own]
    work = [(m, props_of(m, props), i % jobs) for i, m in enumerate(ms)]
    # one slot = one cargo target dir; run slots in parallel, mutants of a slot serially
    by_slot = {}
    for w in work:
        by_slot.setdefault(w[2], []).append(w)

    def run_slot(ws):
        return [run_one(w) for w in ws]

    out = []
    with concurrent.futures.ThreadPoolExecutor(max_workers=jobs) as ex:
        for rs in ex.map(run_slot, by_slot.values()):
            out.extend(rs)
    out.sort()
    for name, st, detail in out:
        print("%-48s %-8s %s" % (name, st, detail))
    if out_json:
        json.dump([{"name": n, "status": st, "detail": d} for n, st, d in out], open(out_json, "w"), indent=1)
    if any(o[1] == "CRASHED" for o in out):
        print("CRASHED %d (a crashed check is neither silent nor a report: fix it)" % sum(1 for o in out if o[1] == "CRASHED"))
    print("caught %d / missed %d / skipped %d" % (sum(1 for o in out if o[1] == "caught"), sum(1 for o in out if o[1] == "MISSED"), sum(1 for o in out if o[1] == "skipped")))
    return 0


if __name__ == "__main__":
    sys.exit(main())
