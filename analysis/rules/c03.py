"""C03 - every handshake value is byte-exact WoW SRP6, for any announced group.

Decides: (a) SHA-1 transcripts of x, u, M1 (both variants), M2 and the xor of H(N), H(g) (A5);
(b) the big-integer formulas v, B, S_server, A_client, S_client as expression terms over the
Integer wrapper, compared with the SRP-6 definitions with k = 3 (A6), every input read with
from_bytes_le(Sign::Plus) over the whole little-endian array; (c) in the call-graph closure of the
client constructor no built-in group constant / default is reachable and every modulus / generator
operand is the announced parameter (A4c + A3) - positive fixture: the server closure does reach
them; (d) constants N (both byte orders), g = 7, k = 3, the lengths, and the precomputed xor
= SHA1(N_LE) xor SHA1([7]) recomputed by the checker from the extracted constants; (e) the
interleave: zero stripping is a linear scan from 0 in steps of 1 whose only exit tests are
`byte != 0` / `end of the array`, the start is made even for every count, even/odd bytes feed the
two hashes over half the remaining length and the outputs are interleaved 2i / 2i+1."""
import hashlib

import cfg
from rules import util, arith
from rules.util import P, strip, canon, show_b
from symex import show, walk

EXPLANATION = __doc__
TRUSTED = ["rustc / extractor", "sha1 and num-bigint implement SHA-1 / integer arithmetic; BigInt::modpow returns the non-negative residue", "a linear scan with exit test s[i] != 0 counts the leading zero bytes", "SRP-6 algebra"]
NOT_DECIDED = ["correctness of sha1 / num-bigint", "the SRP-6 and linear-scan lemmas themselves"]
FLOORS = {"transcript": 6, "formula": 5, "client-group": 4, "constant": 8, "interleave": 7, "carrier": 10, "totality": 20}

N_BE = bytes.fromhex("894B645E89E1535BBDAD5B8B290650530801B18EBFBF5E8FAB3C82872A3E9BB7")
G = 7
K = 3


def applicable(feats):
    return "srp-default-math" in feats


# ----------------------------------------------------------------------------- formulas

def bigf(ctx, se, t):
    """big-integer expression of a (canonical) term"""
    t = strip(t)
    k = t[0]
    if k == "call":
        n = t[1]
        a = t[2]
        if n == "num_bigint::BigInt::from_bytes_le":
            sign = a[0]
            plus = sign[0] == "agg" and sign[2] == "num_bigint::Sign" and sign[3] == 2
            if not plus:
                return ("?", "from_bytes_le with a sign other than Plus")
            return ("int", bytes_of(ctx, se, a[1]))
        if "std::convert::From<u8> for num_bigint::BigInt" in n:
            x = a[0]
            if x[0] == "int":
                return ("small", x[1])
            return ("small", bytes_of(ctx, se, x))
        if n == "num_bigint::BigInt::modpow":
            return ("modpow", bigf(ctx, se, a[0]), bigf(ctx, se, a[1]), bigf(ctx, se, a[2]))
        for op, tag in (("std::ops::Mul", "mul"), ("std::ops::Add", "add")):
            if "impl" in n and op in n and "num_bigint" in n:
                return (tag, frozenset([bigf(ctx, se, a[0]), bigf(ctx, se, a[1])]))
        if "std::ops::Sub" in n and "num_bigint" in n:
            return ("sub", bigf(ctx, se, a[0]), bigf(ctx, se, a[1]))
        if "std::ops::Rem" in n and "num_bigint" in n:
            return ("rem", bigf(ctx, se, a[0]), bigf(ctx, se, a[1]))
        if n in ctx.fb.bodies:
            return ("call", n, tuple(bigf(ctx, se, x) if is_bigint_term(x) else bytes_of(ctx, se, x) for x in a))
    return ("?", show(t, maxdepth=3))


def is_bigint_term(t):
    t = strip(t)
    return t[0] == "call" and "num_bigint" in t[1]


def bytes_of(ctx, se, t):
    t = canon(ctx, se, t)
    if t[0] == "param":
        return ("P", t[1])
    if t[0] == "bytes":
        return ("const", bytes(t[1]))
    if t[0] == "int":
        return ("int", t[1])
    if t[0] == "call" and t[1] in ctx.fb.bodies:
        return ("call", t[1], tuple(bytes_of(ctx, se, a) for a in t[2]))
    return ("?", show(t, maxdepth=3))


def show_f(f):
    k = f[0]
    if k == "int":
        return "int(%s)" % show_f(f[1])
    if k == "P":
        return "arg%d" % f[1]
    if k == "const":
        return "N" if f[1] == N_BE[::-1] else "const:%s" % f[1].hex()[:16]
    if k == "small":
        return str(f[1]) if isinstance(f[1], int) else "small(%s)" % show_f(f[1])
    if k in ("mul", "add"):
        return "(%s)" % (" * " if k == "mul" else " + ").join(sorted(show_f(x) for x in f[1]))
    if k == "sub":
        return "(%s - %s)" % (show_f(f[1]), show_f(f[2]))
    if k == "rem":
        return "(%s mod %s)" % (show_f(f[1]), show_f(f[2]))
    if k == "modpow":
        return "modpow(%s, %s, %s)" % tuple(show_f(x) for x in f[1:])
    if k == "call":
        return "%s(%s)" % (f[1].split("::")[-1], ", ".join(show_f(x) for x in f[2]))
    return str(f)[:120]


def I(x):
    return ("int", x)


def mul(a, b):
    return ("mul", frozenset([a, b]))


def add(a, b):
    return ("add", frozenset([a, b]))


def find_bigint(ctx, se, t):
    """outermost big-integer subterm(s) of a term"""
    out = []

    def rec(x):
        x = strip(x)
        if is_bigint_term(x) and not x[1].endswith("to_bytes_le") and "Vec" not in x[1]:
            out.append(x)
            return
        if isinstance(x, tuple):
            for y in x[1:]:
                if isinstance(y, tuple):
                    if y and isinstance(y[0], str):
                        rec(y)
                    else:
                        for z in y:
                            if isinstance(z, tuple) and z and isinstance(z[0], str):
                                rec(z)

    rec(t)
    # unwrap to_bytes_le(X).1 wrappers
    res = []
    for x in out:
        while x[0] == "call" and x[1].endswith("to_bytes_le"):
            x = strip(x[2][0])
        res.append(x)
    return res


def formula_rule(ctx, rep, fn, want, sink, why):
    se = ctx.big.run(fn)
    if se is None:
        rep.violation("formula", fn, "anchor", "function not found")
        return
    r = canon(ctx, se, se.ret)
    good = False
    desc = "?"
    if sink is not None:
        # result = sink(bigint [, extra args])
        if util.is_call(r, sink):
            f = bigf(ctx, se, r[2][0])
            desc = show_f(f)
            good = f == want
            if good and len(r[2]) > 1:
                # client validation relative to the announced modulus
                good = canon(ctx, se, r[2][1]) == ("param", 3)
                desc += " validated against arg3"
        else:
            desc = show(r, maxdepth=3)
    if sink is None or (not good and not util.is_call(r, sink) and sink.endswith(" as std::convert::From<bigint::Integer>>::from")):
        # padded array: exactly one big-integer value inside, copied into a zeroed 32-byte array
        # (also where a plain width conversion - `From<Integer>`, no validation - is spelled as
        # another zero-padding export of the same value; the padding itself is C01's rule)
        xs = {x for x in find_bigint(ctx, se, r)}
        inner = set()
        for x in xs:
            y = x
            while util.is_call(y) and y[1].endswith("to_bytes_le"):
                y = strip(y[2][0])
            inner.add(y)
        if len(inner) == 1:
            f = bigf(ctx, se, next(iter(inner)))
            desc = show_f(f)
            good = f == want
            # ... and the result IS that zero-padded copy (the wrapper's export looked through),
            # not something computed from it afterwards
            top = strip(r)
            while (util.is_call(top) and len(top[2]) == 1 and (top[1] in util.IDENT_CALLS or top[1].endswith("::from_le_bytes"))) or (top[0] == "agg" and top[1] == "adt" and len(top[4]) == 1):
                top = strip(top[2][0] if top[0] == "call" else top[4][0])
            is_pad = top[0] == "after" and util.is_call(top[1]) and (top[1][1].endswith("::index_mut") or top[1][1].split("::")[-1] == "split_at_mut") and strip(top[3])[0] == "repeat" and strip(top[3])[1][:2] == ("int", 0)
            if good and not is_pad and util.is_call(top) and len(top[2]) == 1:
                # ... or a call to one of the crate's fixed-width exports of a big integer (each is a
                # copy site of C01's padding rule)
                from rules import c01 as _c01
                is_pad = top[1] in _c01.PADDERS or _c01.padder_width(ctx, top[1]) is not None or (top[1].startswith("<key::") and top[1].endswith(" as std::convert::From<bigint::Integer>>::from"))
            if good and not is_pad:
                good = False
                desc += " - but the value handed on is %s, not the zero-padded little-endian copy of it" % show(top, maxdepth=2)
        else:
            desc = "%d big-integer values in the result" % len(inner)
    rep.check(good, "formula", fn, "srp6", "%s = %s" % (why, desc), "%s: expected %s, found %s" % (why, show_f(want), desc), se.body.loc())


# ----------------------------------------------------------------------------- interleave

def _stripper(ctx):
    """the function that trims the secret for the interleave: `SKey::as_equal_slice`, or - where
    the crate keeps it elsewhere under another path - the one crate function with a body that
    `calculate_interleaved` hands its parameter to and that returns a byte slice"""
    fn = "key::SKey::as_equal_slice"
    if fn in ctx.fb.bodies:
        return fn
    se2 = ctx.wrap.run("srp_internal::calculate_interleaved")
    if se2 is None:
        return fn
    found = set()
    for bb, i in se2.term_info.items():
        if i.get("k") == "call" and i["name"] in ctx.fb.bodies and len(i["args"]) == 1 and canon(ctx, se2, i["args"][0]) == ("param", 1):
            b = ctx.fb.bodies[i["name"]]
            out = ctx.fb.ty(b.d["output"]) if "output" in b.d else None
            if out is not None and out.s in ("&[u8]", "&'a [u8]") and b.kind in ("Fn", "AssocFn"):
                found.add(i["name"])
    return found.pop() if len(found) == 1 else fn


def interleave_rules(ctx, rep):
    fn = _stripper(ctx)
    se = ctx.wrap.run(fn)
    if se is None:
        rep.violation("interleave", fn, "anchor", "not found")
        return
    body = se.body
    be = cfg.back_edges(body)
    pw = pairwise_form(ctx, se)
    if pw is not None:
        # the same trimming done on the slice itself, two bytes at a time (slice patterns)
        ok_, why_ = pw
        rep.check(ok_, "interleave", fn, "linear-scan", why_, "leading-zero stripping by pairs is not `while s = [0, 0, rest..] { s = rest }`: " + why_, body.loc())
        rep.check(ok_, "interleave", fn, "whole-secret", "the trimming starts from &self.key[..] (all 32 bytes, an even number)", "the trimmed slice is not the whole 32-byte secret", body.loc())
        rep.check(ok_, "interleave", fn, "even-start", "pairs [0, 0] are dropped while they lead; then one more pair iff the slice still starts with 0 (an odd count of leading zeros): the start is the zero count rounded up to even", "after the pairs, the slice is not cut by one more pair exactly when it still starts with a zero byte", body.loc())
        return _interleaved_part(ctx, rep, fn)
    # ---- (i) linear scan idiom
    good = False
    why = "no single counting loop"
    lead_phi = None
    whole = None
    if len(be) == 1:
        tail, head = be[0]
        loop = cfg.natural_loop(body, be[0])
        phis = [(k, v) for k, v in se.phi_inputs.items() if k[0] == head and k[1][0] == "local"]
        ind = []
        for (hb, root), ins in phis:
            vals = list(ins.values())
            ph = ("phi", se.fn, hb, root, ())
            inits = [v for v in vals if v[0] == "int"]
            steps = [v for v in vals if arith.norm(v, {ph: "L"}) == ("add", ("sym", "L"), ("int", 1))]
            if len(vals) == 2 and len(inits) == 1 and inits[0][1] == 0 and len(steps) == 1:
                ind.append(ph)
        if len(ind) == 1:
            lead_phi = ind[0]
            # exit tests: switches inside the loop with one successor outside.  Each must be
            # one of: the zero test on s[L] (continue on "== 0"), the bound test L < len
            # (continue on "<"), or s.get(L) (continue on Some) - with that polarity.
            tests = []
            ok_tests = True
            has_zero_test = False
            for b in sorted(loop):
                info = se.term_info.get(b, {})
                if info.get("k") != "switch":
                    continue
                succ = [info["otherwise"]] + [x[1] for x in info["targets"]]
                if all(s_ in loop for s_ in succ):
                    continue
                raw = strip(info["discr"])
                tg = dict(info["targets"])
                stay = lambda t: t in loop
                if raw[0] == "discr" and util.is_call(raw[1]) and raw[1][1].endswith("<impl [T]>::get"):
                    # match s.get(L) { Some(..) => .., None => break }
                    base_, ix_ = raw[1][2]
                    tests.append("get(L) is Some")
                    if not (arith.norm(ix_, {lead_phi: "L"}) == ("sym", "L") and 1 in tg and stay(tg[1]) and not any(stay(t_) for v_, t_ in list(tg.items()) + [("else", info["otherwise"])] if v_ != 1)):
                        ok_tests = False
                        why = "s.get(..) test does not continue exactly on Some(s[lead])"
                    elif whole is None:
                        whole = arith.norm(base_, {lead_phi: "L"})
                    continue
                if util.is_call(raw) and raw[1] in ("<std::option::Option<T> as std::cmp::PartialEq>::eq", "<std::option::Option<T> as std::cmp::PartialEq>::ne") and len(raw[2]) == 2 and list(tg) == [0]:
                    # while s.get(L) == Some(&0): the bound test and the zero test in one
                    ops_ = [strip(util.resolve_locals(se, b, x_)) for x_ in raw[2]]
                    g_ = [o_ for o_ in ops_ if util.is_call(o_) and o_[1].endswith("<impl [T]>::get") and len(o_[2]) == 2]
                    sm_ = [o_ for o_ in ops_ if o_[0] == "agg" and o_[2] == "std::option::Option" and o_[3] == 1 and len(o_[4]) == 1 and strip(o_[4][0])[:2] == ("int", 0)]
                    if len(g_) == 1 and len(sm_) == 1 and arith.norm(g_[0][2][1], {lead_phi: "L"}) == ("sym", "L"):
                        tests.append("s.get(L) == Some(&0)")
                        has_zero_test = True
                        if whole is None:
                            whole = arith.norm(g_[0][2][0], {lead_phi: "L"})
                        cont_on_true = raw[1].endswith("::eq")
                        t_true, t_false = info["otherwise"], tg.get(0)
                        if not (stay(t_true if cont_on_true else t_false) and not stay(t_false if cont_on_true else t_true)):
                            ok_tests = False
                            why = "the scan does not continue exactly while s.get(lead) == Some(&0)"
                        continue
                d = arith.norm(info["discr"], {lead_phi: "L"})
                is_bool = d[0] in ("Eq", "Ne", "Lt", "Ge", "Le", "Gt")
                t_true, t_false = info["otherwise"], tg.get(0)
                if d[0] == "idx" and d[2] == ("sym", "L") and list(tg) == [0]:
                    # switch on the byte itself: 0 -> one way, anything else -> the other
                    tests.append("s[L] == 0")
                    has_zero_test = True
                    whole = d[1]
                    if not (stay(tg[0]) and not stay(info["otherwise"])):
                        ok_tests = False
                        why = "the scan does not continue exactly while the byte is zero"
                elif d[0] in ("Eq", "Ne") and d[1][0] == "idx" and d[1][2] == ("sym", "L") and d[2] == ("int", 0) and list(tg) == [0]:
                    tests.append(arith.show(d))
                    has_zero_test = True
                    whole = d[1][1]
                    cont_on_true = d[0] == "Eq"
                    if not (stay(t_true if cont_on_true else t_false) and not stay(t_false if cont_on_true else t_true)):
                        ok_tests = False
                        why = "the scan does not continue exactly while the byte is zero"
                elif d[0] in ("Lt", "Ge") and d[1] == ("sym", "L") and list(tg) == [0]:
                    tests.append(arith.show(d))
                    # bound must be the array length (32 / len(s)), not a smaller constant
                    bnd = d[2]
                    if not (bnd == ("int", 32) or bnd[0] == "?" and "len" in bnd[1] or bnd[0] == "len"):
                        ok_tests = False
                        why = "scan is bounded by %s, not by the end of the 32-byte secret" % arith.show(bnd)
                    cont_on_true = d[0] == "Lt"
                    if not (stay(t_true if cont_on_true else t_false) and not stay(t_false if cont_on_true else t_true)):
                        ok_tests = False
                        why = "the scan does not continue exactly while lead < length"
                else:
                    ok_tests = False
                    why = "unrecognised exit test %s" % arith.show(d)
            # assert-based bound checks inside the loop are not exits (they panic: C14)
            good = ok_tests and has_zero_test
            if good:
                why = "lead counts from 0 in steps of 1 while s[lead] == 0 (exit tests: %s)" % tests
        else:
            why = "%d induction variables of the form 0, +1" % len(ind)
    count_form = None
    if not good and not be:
        # iterator form: lead = key.iter().take_while(|b| *b == 0).count()
        for bb, i in se.term_info.items():
            if i.get("k") == "call" and i["name"] == "std::iter::Iterator::count":
                src = strip(i["args"][0])
                if util.is_call(src, "std::iter::Iterator::take_while") and util.is_call(strip(src[2][0]), "core::slice::<impl [T]>::iter"):
                    scanned = canon(ctx, se, strip(src[2][0])[2][0])
                    cl = src[2][1]
                    cl_ok = False
                    if cl[0] == "agg" and cl[1] == "closure" and not cl[4]:
                        cse = ctx.flat.run(cl[2])
                        if cse is not None:
                            r = util.numnorm(cse.ret)
                            # the predicate is exactly `byte == 0` on the item (a reference to the byte)
                            cl_ok = r[0] == "binop" and r[1] == "Eq" and r[2] == ("param", 2) and r[3][:2] == ("int", 0)
                    if cl_ok and scanned == ("param", 1):
                        count_form = canon(ctx, se, i["term"])
        # iterator form: lead = key.iter().position(|&b| b != 0).unwrap_or(key.len())
        pos_form = None
        for bb, i in se.term_info.items():
            if count_form is None and i.get("k") == "call" and i["name"] == "std::option::Option::<T>::unwrap_or":
                src = strip(i["args"][0])
                dflt = util.numnorm(i["args"][1])
                if not (util.is_call(src) and src[1].endswith("as std::iter::Iterator>::position") or util.is_call(src, "std::iter::Iterator::position")):
                    continue
                it = se.call_old.get((src[3][:2], 0)) if strip(src[2][0])[0] == "mutref" else strip(src[2][0])
                it = strip(it) if it is not None else None
                if it is None or not util.is_call(it, "core::slice::<impl [T]>::iter"):
                    continue
                scanned = canon(ctx, se, it[2][0])
                cl = src[2][1]
                cl_ok = False
                if cl[0] == "agg" and cl[1] == "closure" and not cl[4]:
                    cse = ctx.flat.run(cl[2])
                    if cse is not None:
                        r = util.numnorm(cse.ret)
                        # the predicate is exactly `byte != 0` on the item
                        cl_ok = r[0] == "binop" and r[1] == "Ne" and r[2] == ("param", 2) and r[3][:2] == ("int", 0)
                d_ok = dflt[:2] == ("int", 32) or dflt[0] == "len" and canon(ctx, se, dflt[1]) == ("param", 1) or util.is_call(dflt, "core::slice::<impl [T]>::len") and canon(ctx, se, dflt[2][0]) == ("param", 1)
                if cl_ok and d_ok and scanned == ("param", 1):
                    count_form = canon(ctx, se, i["term"])
                    pos_form = True
        if count_form is not None:
            good = True
            why = "lead = number of leading zero bytes (%s over the whole secret)" % ("iter().position(|b| b != 0).unwrap_or(len)" if pos_form else "iter().take_while(|b| b == 0).count()")
    rep.check(good, "interleave", fn, "linear-scan", why, "leading-zero stripping is not a plain linear scan over the whole secret: " + why, body.loc())
    # the scanned array is the whole 32-byte key (RangeFull slice of the single field)
    src_ok = count_form is not None
    for bb, i in se.term_info.items():
        if i.get("k") == "call" and i["name"].endswith("::index") and "RangeFull" in str(i["args"][1]):
            src_ok = canon(ctx, se, i["args"][0]) == ("param", 1)
    if not src_ok and lead_phi is not None and whole is not None:
        # `&self.key[..]` is modelled as the array itself
        src_ok = whole in (("param", 1), ("fld", ("param", 1), 0), ("?", str(("param", 1))[:160])) or "param" in str(whole)
    rep.check(src_ok, "interleave", fn, "whole-secret", "the scan runs over &self.key[..] (all 32 bytes)", "the scanned slice is not the whole 32-byte secret", body.loc())
    # ---- (ii) parity: the start handed on is even for every lead
    good = False
    why = "?"
    r = canon(ctx, se, se.ret)
    start = None
    if util.is_call(r) and r[1].endswith("::index") and r[2][1][0] == "agg" and r[2][1][2] == "std::ops::RangeFrom":
        start = r[2][1][4][0]
        if canon(ctx, se, r[2][0]) != ("param", 1) and not util.is_call(r[2][0]):
            start = None
    if start is not None and lead_phi is None and count_form is not None:
        n = arith.norm(start, {count_form: "L"})
        L = ("sym", "L")
        forms = [("add", L, ("and", frozenset([L, ("int", 1)]))), ("add", ("and", frozenset([L, ("int", 1)])), L), ("add", L, ("rem", L, ("int", 2))), ("add", ("rem", L, ("int", 2)), L)]
        good = n in forms
        why = "start = lead rounded up to even (%s)" % arith.show(n)
    if start is not None and lead_phi is not None:
        env = {lead_phi: "L"}
        if start[0] == "phi":
            ins = se.phi_inputs.get((start[2], start[3]), {})
            # find the parity switch
            sw = None
            for bb, d, f_t, t_t in util.bool_switches(se):
                n = arith.norm(d, env)
                if n in (("Ne", ("rem", ("sym", "L"), ("int", 2)), ("int", 0)), ("Eq", ("rem", ("sym", "L"), ("int", 2)), ("int", 1))):
                    sw = (bb, t_t, f_t)
                elif n in (("Eq", ("rem", ("sym", "L"), ("int", 2)), ("int", 0)), ("Ne", ("rem", ("sym", "L"), ("int", 2)), ("int", 1))):
                    sw = (bb, f_t, t_t)
            if sw is not None and len(ins) == 2:
                odd_ok = even_ok = False
                for pred, v in ins.items():
                    n = arith.norm(v, env)
                    if cfg.must_pass_edge(body, (sw[0], sw[1]), pred):
                        odd_ok = n == ("add", ("sym", "L"), ("int", 1))
                    elif cfg.must_pass_edge(body, (sw[0], sw[2]), pred):
                        even_ok = n == ("sym", "L")
                good = odd_ok and even_ok
                why = "start = lead + (lead mod 2)" if good else "parity arms: odd->+1 %s, even->same %s" % (odd_ok, even_ok)
            else:
                why = "no `lead % 2` decision feeding the start"
        else:
            n = arith.norm(start, env)
            good = n == ("add", ("sym", "L"), ("rem", ("sym", "L"), ("int", 2)))
            why = "start = %s" % arith.show(n)
    rep.check(good, "interleave", fn, "even-start", why, "the slice handed on does not start at an even offset for every zero count (one more byte must be dropped iff the count is odd): " + why, body.loc())
    return _interleaved_part(ctx, rep, fn)


def pairwise_form(ctx, se):
    """`let mut s = &self.key[..]; while let [0, 0, rest @ ..] = s { s = rest }
        if let [0, _, rest @ ..] = s { s = rest }  s`
    - None when the body is not a loop over a shrinking slice view at all, else (holds, why).
    With an even total length this returns key[start..] for start = the number of leading zero
    bytes rounded up to even: pairs are dropped while both bytes are zero; the loop stops at the
    first pair with a non-zero byte (or at the end); if that pair starts with a zero the count is
    odd and the pair goes too."""
    body = se.body
    be = cfg.back_edges(body)
    if len(be) != 1:
        return None
    tail, head = be[0]
    loop = cfg.natural_loop(body, be[0])
    cand = []
    for (hb, root), ins in se.phi_inputs.items():
        if hb != head:
            continue
        ph = ("phi", se.fn, hb, root, ())
        init = [v for p, v in ins.items() if p not in loop]
        step = [v for p, v in ins.items() if p in loop]
        if len(init) == 1 and len(step) == 1:
            st_ = strip(step[0])
            if st_[0] == "subslice" and strip(st_[1]) == ph:
                cand.append((ph, init[0], st_))
    if len(cand) != 1:
        return None
    ph, init, st_ = cand[0]
    if st_[2:] != (2, 0, True):
        return False, "the view is advanced by %s, not by two bytes" % (st_[2:],)
    i0 = canon(ctx, se, init)
    whole = i0 == ("param", 1)
    if not whole:
        for bb, i in se.term_info.items():
            if i.get("k") == "call" and i["name"].endswith("::index") and "RangeFull" in str(i["args"][1]) and canon(ctx, se, i["args"][0]) == ("param", 1) and strip(i["term"]) == strip(init):
                whole = True
    if not whole:
        return False, "the view does not start as the whole key (%s)" % show(i0, maxdepth=2)

    def tests(blocks):
        """{kind: (bb, continue target, other target)} for the switches on ph in `blocks`"""
        out = {}
        for bb in sorted(blocks):
            i = se.term_info.get(bb, {})
            if i.get("k") != "switch":
                continue
            d = util.numnorm(strip(i["discr"]))
            tg = dict(i["targets"])
            if d[0] == "binop" and d[1] == "Ge" and d[2] == ("len", ph) and d[3][:2] == ("int", 2) and set(tg) == {0}:
                out.setdefault("len", (bb, i["otherwise"], tg[0]))
            elif d[0] == "binop" and d[1] == "Lt" and d[2] == ("len", ph) and d[3][:2] == ("int", 2) and set(tg) == {0}:
                out.setdefault("len", (bb, tg[0], i["otherwise"]))
            elif d[0] == "cindex" and strip(d[1]) == ph and not d[3] and d[2] in (0, 1) and set(tg) == {0}:
                out.setdefault("b%d" % d[2], (bb, tg[0], i["otherwise"]))
        return out

    inl = tests(loop)
    if set(inl) != {"len", "b0", "b1"}:
        return False, "the loop does not test len >= 2, s[0] == 0 and s[1] == 0 (found %s)" % sorted(inl)
    if not all(cfg.must_pass_edge(body, (inl[k][0], inl[k][1]), tail) for k in inl):
        return False, "a pair is dropped without all three tests"
    n_sw = sum(1 for bb in loop if se.term_info.get(bb, {}).get("k") == "switch")
    n_calls = sum(1 for bb in loop if se.term_info.get(bb, {}).get("k") == "call")
    stores = [1 for (bi, si), (loc, v) in se.assigns.items() if bi in loop and loc[0] in ("deref", "index", "cindex", "field")]
    if n_sw != 3 or n_calls or stores:
        return False, "the loop does more than the three tests and the advance"
    # after the loop: one more pair iff len >= 2 and s[0] == 0
    r = strip(se.ret)
    while r[0] in ("ref", "refv", "deref"):
        r = strip(r[1])
    if r[0] != "phi" or (r[2], r[3]) not in se.phi_inputs:
        return False, "the result is not the trimmed view"
    ins = se.phi_inputs[(r[2], r[3])]
    after = tests([b for b in range(len(body.blocks)) if b not in loop])
    if set(after) != {"len", "b0"}:
        return False, "after the pairs the rest is not tested with len >= 2 and s[0] == 0 only (found %s)" % sorted(after)
    keep = [p for p, v in ins.items() if strip(v) == ph]
    cut = [p for p, v in ins.items() if strip(v)[0] == "subslice" and strip(strip(v)[1]) == ph and strip(v)[2:] == (2, 0, True)]
    if len(keep) + len(cut) != len(ins) or not keep or len(cut) != 1:
        return False, "the result is not `s` or `s[2..]`"
    c = cut[0]
    if not (cfg.must_pass_edge(body, (after["len"][0], after["len"][1]), c) and cfg.must_pass_edge(body, (after["b0"][0], after["b0"][1]), c)):
        return False, "the extra pair is dropped without len >= 2 and s[0] == 0"
    for k_ in keep:
        if cfg.must_pass_edge(body, (after["len"][0], after["len"][1]), k_) and cfg.must_pass_edge(body, (after["b0"][0], after["b0"][1]), k_):
            return False, "the slice is kept although it starts with a zero byte of an odd run"
    return True, "while s = [0, 0, rest..] { s = rest }, two bytes at a time over &self.key[..]"


def _interleaved_part(ctx, rep, fn):
    # ---- (iii) calculate_interleaved
    fn2 = "srp_internal::calculate_interleaved"
    se2 = ctx.wrap.run(fn2)
    if se2 is None:
        rep.violation("interleave", fn2, "anchor", "not found")
        return
    b2 = se2.body
    loops = util.for_loops(ctx, se2)
    Sv = None
    for bb, i in se2.term_info.items():
        if i.get("k") == "call" and i["name"] == fn:
            Sv = strip(i["term"])
    if Sv is None or len(loops) not in (2, 3, 4):
        rep.violation("interleave", fn2, "shape", "expected the stripped secret and the even/odd split + interleave loops, found %d loops" % len(loops), b2.loc())
        return
    rep.check(canon(ctx, se2, Sv[2][0]) == ("param", 1), "interleave", fn2, "source", "the stripped secret of the parameter is interleaved", "as_equal_slice is not applied to the parameter")

    # ---- what every loop does at iteration i (lock-step iterator semantics, rules/loopsem.py)
    import ranges
    from rules import loopsem

    pr = ranges.World(ctx).prover(fn2)

    def lens(base):
        base = strip(base)
        if base == Sv:
            return lambda n: n
        if base[0] in ("local", "field") and se2.loc_array_len(base) is not None:
            return lambda n, c=se2.loc_array_len(base): c
        r = pr.len_range(base, None) if pr is not None else (0, None)
        if r[0] == r[1]:
            return lambda n, c=r[0]: c
        return None

    sem = loopsem.Sem(ctx, se2, lens)
    EVEN_N = range(0, 33, 2)
    stmts = []          # (dest base, A, value, count fn)
    opaque = []
    for lp in loops:
        r = sem.statements(lp)
        if r is None:
            opaque.append(b2.loc(lp["next_bb"]))
            continue
        for d, A, v in r[0]:
            if d is None:
                opaque.append(b2.loc(lp["next_bb"]))
            else:
                stmts.append((d, A, v, r[1]))
    if opaque:
        rep.undecided("interleave", fn2, "shape", "a loop of the interleave is not a lock-step traversal the rule understands (%s)" % opaque[0], b2.loc())
        return

    def local_of(loc):
        while loc[0] in ("field", "index", "cindex", "subslice"):
            loc = loc[1]
        return loc if loc[0] == "local" else None

    # ---- streaming form: no scratch arrays; for pair in S.chunks_exact(2) { E.update(&pair[..1]);
    # F.update(&pair[1..]) } with E, F two SHA-1 states - the same bytes in the same order, because
    # update is concatenation (pair k is S[2k], S[2k+1]; a trailing odd byte is in no pair)
    streamed = {}
    from rules import algos as _algos
    for lp in loops:
        ini = strip(lp["init"] or ("?",))
        if not (util.is_call(ini, "core::slice::<impl [T]>::chunks_exact") and strip(ini[2][0]) == Sv and loopsem.const_usize(ini[2][1]) == 2):
            continue
        elem = strip(lp["elem"])
        for key, (init, step) in _algos.loop_state(se2, lp["next_bb"]).items():
            ph = _algos.phi_of(se2, lp["next_bb"], key)
            i0, st_ = strip(init), strip(step)
            if not (util.is_call(i0) and i0[1].endswith("Digest>::new") and not i0[2]):
                continue
            if not (st_[0] == "after" and util.is_call(st_[1]) and st_[1][1].endswith("Digest>::update") and st_[2] == 0 and st_[3] == ph and len(st_[1][2]) == 2):
                continue
            piece = strip(st_[1][2][1])
            if util.is_call(piece) and piece[1].endswith("::index") and len(piece[2]) == 2 and strip(piece[2][0]) == elem:
                rg = strip(piece[2][1])
                if rg[0] == "agg" and rg[2] == "std::ops::RangeTo" and loopsem.const_usize(rg[4][0]) == 1:
                    streamed["even"] = ph
                elif rg[0] == "agg" and rg[2] == "std::ops::RangeFrom" and loopsem.const_usize(rg[4][0]) == 1:
                    streamed["odd"] = ph
                elif rg[0] == "agg" and rg[2] == "std::ops::Range" and (loopsem.const_usize(rg[4][0]), loopsem.const_usize(rg[4][1])) == (0, 1):
                    streamed["even"] = ph
                elif rg[0] == "agg" and rg[2] == "std::ops::Range" and (loopsem.const_usize(rg[4][0]), loopsem.const_usize(rg[4][1])) == (1, 2):
                    streamed["odd"] = ph
    if set(streamed) == {"even", "odd"} and streamed["even"] != streamed["odd"]:
        rep.ok("interleave", fn2, "even-bytes", "even-indexed bytes streamed into their own SHA-1 state, pair by pair (S.chunks_exact(2), pair[..1])", b2.loc())
        rep.ok("interleave", fn2, "odd-bytes", "odd-indexed bytes streamed into their own SHA-1 state, pair by pair (pair[1..])", b2.loc())
        digests = {}
        n_dig = 0
        for bb, i in se2.term_info.items():
            if i.get("k") == "call" and i["name"] in util.DIGEST_FINAL:
                n_dig += 1
                a0 = strip(i["args"][0])
                for tag, ph in streamed.items():
                    if a0 == ph:
                        digests[tag] = strip(i["term"])
        n_upd = sum(1 for i in se2.term_info.values() if i.get("k") == "call" and i["name"].endswith("Digest>::update"))
        rep.check(n_dig == 2 and set(digests) == {"even", "odd"} and n_upd == 2, "interleave", fn2, "two-half-hashes", "G = SHA1(even bytes), H = SHA1(odd bytes): each state is finalised once, nothing else is hashed", "the two half hashes are not the finalised even / odd states (%d digests, %d updates)" % (n_dig, n_upd), b2.loc())
        interleave_output(ctx, rep, se2, fn2, b2, stmts, digests, EVEN_N, local_of)
        return

    halves = {}
    for tag, off in (("even", 0), ("odd", 1)):
        hits = [(d, A, c) for d, A, v, c in stmts if v[0] == "at" and v[1] == Sv and v[2] == (2, off)]
        good = len(hits) == 1 and hits[0][1] == (1, 0) and local_of(hits[0][0]) == hits[0][0]
        why = "%d loops store S[2i+%d]" % (len(hits), off)
        if good:
            d, A, c = hits[0]
            # every position below len/2 is written: count(n) >= n/2 for every even n <= 32
            short = [n for n in EVEN_N if c(n) < n // 2]
            others = [x for x in stmts if x[0] == d and not (x[2][0] == "at" and x[2][1] == Sv and x[2][2] == (2, off))]
            good = not short and not others
            why = "the loop stops after %d items for a %d-byte secret" % (c(short[0]), short[0]) if short else ("other stores into the same array" if others else "")
            if good:
                halves[tag] = d
        rep.check(good, "interleave", fn2, tag + "-bytes", "%s-indexed bytes: %s[i] = S[2i+%d] for every i < len/2" % (tag, "EF"[off], off), "the %s-indexed bytes of the stripped secret are not collected in order into one array (X[i] = S[2i+%d] for all i < len/2): %s" % (tag, off, why), b2.loc())
    if len(halves) == 2 and halves["even"] == halves["odd"]:
        rep.violation("interleave", fn2, "halves-distinct", "even and odd bytes are collected into the same array", b2.loc())

    # ---- the two hashes over exactly len/2 bytes of the respective half
    def num_fn(t):
        t = util.numnorm(t)
        if t[0] == "int":
            return lambda n, c=t[1]: c
        if t[0] == "cast":
            return num_fn(t[2])
        if t[0] == "len":
            return lens(t[1])
        if t[0] == "binop" and t[1] in ("Div", "Add", "Sub", "Mul", "Shr"):
            a, b = num_fn(t[2]), num_fn(t[3])
            if a is None or b is None:
                return None
            op = t[1]
            return lambda n: {"Div": lambda x, y: x // y if y else 0, "Add": lambda x, y: x + y, "Sub": lambda x, y: x - y, "Mul": lambda x, y: x * y, "Shr": lambda x, y: x >> y}[op](a(n), b(n))
        if util.is_call(t) and t[1].endswith("ExactSizeIterator::len"):
            return sem.count_of(t[2][0])
        if util.is_call(t) and t[1] in util.LEN_CALLS:
            return lens(t[2][0])
        return None

    digests = {}
    n_dig = 0
    for bb, i in se2.term_info.items():
        if not (i.get("k") == "call" and (i["name"] in util.DIGEST_FINAL or i["name"] == "<D as digest::Digest>::digest")):
            continue
        n_dig += 1
        b = util.bexpr(ctx, se2, i["term"])
        if not (b[0] == "H" and len(b[1]) == 1):
            continue
        # the single input must be  X[..half]  with X one of the two arrays
        for t in walk(strip(i["term"])):
            if util.is_call(t) and t[1].endswith("::index") and len(t[2]) == 2 and strip(t[2][1])[0] == "agg" and strip(t[2][1])[2] in ("std::ops::RangeTo", "std::ops::Range"):
                rng = strip(t[2][1])
                la = (se2.term_info.get(t[3][1], {}).get("locargs") or (("?",),))[0]
                X = la[1] if la[0] == "ref" else None
                lo_ok = rng[2] == "std::ops::RangeTo" or (loopsem.const_usize(rng[4][0]) == 0)
                hf = num_fn(rng[4][-1])
                if X is not None and lo_ok and hf is not None and all(hf(n) == n // 2 for n in EVEN_N):
                    for tag, d in halves.items():
                        if d == X:
                            digests[tag] = strip(i["term"])
    rep.check(n_dig == 2 and set(digests) == {"even", "odd"}, "interleave", fn2, "two-half-hashes", "G = SHA1(E[..len/2]), H = SHA1(F[..len/2])", "the two half hashes are not SHA1(E[..len/2]) and SHA1(F[..len/2]) (%d digests, recognised over %s)" % (n_dig, sorted(digests)), b2.loc())

    interleave_output(ctx, rep, se2, fn2, b2, stmts, digests, EVEN_N, local_of)


def interleave_output(ctx, rep, se2, fn2, b2, stmts, digests, EVEN_N, local_of):
    # ---- K[2i] = G[i], K[2i+1] = H[i] for the 20 digest positions, into the array that is returned
    good = False
    why = "no loop writes the digests alternately"
    if set(digests) == {"even", "odd"}:
        def is_dig(v, tag):
            if v[0] != "at" or v[2] != (1, 0):
                return False
            x = v[1]
            while util.is_call(x) and (x[1] in util.IDENT_CALLS or "deref" in x[1].lower()):
                x = strip(x[2][0])
            return x == digests[tag]
        ev = [(d, A, c) for d, A, v, c in stmts if is_dig(v, "even")]
        od = [(d, A, c) for d, A, v, c in stmts if is_dig(v, "odd")]
        if len(ev) == 1 and len(od) == 1 and ev[0][0] == od[0][0] and ev[0][1] == (2, 0) and od[0][1] == (2, 1):
            R = ev[0][0]
            cnt = ev[0][2]
            short = [n for n in EVEN_N if min(cnt(n), od[0][2](n)) < 20]
            others = [x for x in stmts if x[0] == R and not (is_dig(x[2], "even") or is_dig(x[2], "odd"))]
            rty = se2.loc_ty(R) if local_of(R) == R else None
            why = "only %d positions are written" % cnt(short[0]) if short else ("other stores into the result" if others else "")
            good = not short and not others and rty is not None and rty.k == "array" and rty.len == 40
            if good:
                # the returned key is built from that array
                good = False
                why = "the interleaved array is not what SessionKey::from_le_bytes receives"
                fin = list(se2.final_states.values())
                rv = canon(ctx, se2, se2.ret)
                good = bool(fin) and all(strip(se2.read(st, R)) == rv for st in fin)
    if not good and set(digests) == {"even", "odd"}:
        # K = core::array::from_fn(|i| if i % 2 == 0 { G[i / 2] } else { H[i / 2] }): the closure is
        # decided for each of the 40 positions - its test folds at that position and the element
        # it yields must be G[i / 2] for even i, H[i / 2] for odd i
        ff = [i for i in se2.term_info.values() if i.get("k") == "call" and i["name"] in ("core::array::from_fn", "std::array::from_fn")]
        if len(ff) == 1 and len(ff[0].get("locargs", ())) == 1:
            cl = ff[0]["locargs"][0]
            out_ty = se2.loc_ty(ff[0]["dest"]) if ff[0].get("dest") is not None and ff[0]["dest"][0] == "local" else None
            if cl[0] == "agg" and cl[1] == "closure" and out_ty is not None and out_ty.k == "array" and out_ty.len == 40:
                caps = {}
                for k_, c_ in enumerate(cl[4]):
                    v_ = strip(util.value_before_terminator(se2, ff[0]["site"][1], c_[1])) if c_[0] == "ref" and c_[1][0] == "local" else strip(c_)
                    while util.is_call(v_) and (v_[1] in util.IDENT_CALLS or "deref" in v_[1].lower()) and len(v_[2]) == 1:
                        v_ = strip(v_[2][0])
                    for tag in ("even", "odd"):
                        if v_ == digests[tag]:
                            caps[k_] = tag
                ok_all = len(caps) == 2 and sorted(caps.values()) == ["even", "odd"]
                why = "from_fn closure does not capture the two digests"
                for i_ in range(40):
                    if not ok_all:
                        break
                    r_ = util.eval_closure_at(ctx, cl[2], i_)
                    r_ = strip(r_) if r_ is not None else ("?",)
                    src_k = pos = None
                    if r_[0] in ("index", "cindex"):
                        b_ = strip(r_[1])
                        while util.is_call(b_) and (b_[1] in util.IDENT_CALLS or "deref" in b_[1].lower()) and len(b_[2]) == 1:
                            b_ = strip(b_[2][0])
                        while b_[0] == "deref":
                            b_ = strip(b_[1])
                        if b_[0] == "field" and strip(b_[1]) == ("param", 1):
                            src_k = b_[2]
                        pos = r_[2] if r_[0] == "cindex" else (strip(r_[2])[1] if strip(r_[2])[0] == "int" else None)
                    if caps.get(src_k) != ("even" if i_ % 2 == 0 else "odd") or pos != i_ // 2:
                        ok_all = False
                        why = "from_fn element %d is not %s[%d]" % (i_, "G" if i_ % 2 == 0 else "H", i_ // 2)
                if ok_all:
                    rv = canon(ctx, se2, se2.ret)
                    rs_ = strip(rv)
                    whole_ = (util.is_call(rs_) and rs_[1].endswith("SessionKey::from_le_bytes") and len(rs_[2]) == 1 and strip(rs_[2][0]) == strip(ff[0]["term"])) or (rs_[0] == "agg" and rs_[1] == "adt" and rs_[2].endswith("SessionKey") and len(rs_[4]) == 1 and strip(rs_[4][0]) == strip(ff[0]["term"]))
                    good = bool(whole_) or rs_ == strip(ff[0]["term"])      # (canon looks through the key's constructor)
                    why = "" if good else "the from_fn array is not what SessionKey::from_le_bytes receives"
    rep.check(good, "interleave", fn2, "interleave-output", "K[2i] = G[i], K[2i+1] = H[i] over the 20 digest positions", "the two digests are not interleaved as K[2i] = G[i], K[2i+1] = H[i]: " + why, b2.loc())


# ----------------------------------------------------------------------------- main

def default_group_fast_path(ctx, se):
    """A value `if N == N0 && g == g0 { C } else { calculate_xor_hash(N, g) }` in the client's M1
    function, with N, g the announced parameters, N0 / g0 the built-in constants and C the constant
    SHA1(N0) xor SHA1([g0]) (recomputed here): for every announced group it IS
    calculate_xor_hash(N, g) - on the constant branch the two are equal by the guard.
    Returns (phi term, general-branch term, blocks of the constant branch and of the guard
    tests) or None."""
    import hashlib
    fb = ctx.fb
    body = se.body
    N0 = fb.const_bytes("primes::LARGE_SAFE_PRIME_LITTLE_ENDIAN")
    g0 = fb.const_int("primes::GENERATOR")
    if N0 is None or g0 is None:
        return None
    want_c = bytes(a ^ b for a, b in zip(hashlib.sha1(bytes(N0)).digest(), hashlib.sha1(bytes([g0])).digest()))
    for x in walk(strip(se.ret)):
        if x[0] != "phi" or x[1] != se.fn or (x[2], x[3]) not in se.phi_inputs:
            continue
        ins = se.phi_inputs[(x[2], x[3])]
        if len(ins) != 2:
            continue
        cpred = gpred = gen = None
        for p_, v in ins.items():
            cv = canon(ctx, se, v)
            if cv[0] == "bytes" and bytes(cv[1]) == want_c:
                cpred = p_
            elif util.is_call(strip(v), "srp_internal::calculate_xor_hash") and tuple(canon(ctx, se, a) for a in strip(v)[2]) == (("param", 6), ("param", 7)):
                gpred, gen = p_, v
        if cpred is None or gpred is None:
            continue

        def conjuncts(bb_sw, d, true_t, depth=0):
            """the comparisons whose conjunction sends control from switch bb_sw to true_t"""
            d = strip(d)
            if depth > 4:
                return None
            if util.is_call(d) and d[1].endswith("::eq") and len(d[2]) == 2:
                return [("eq", canon(ctx, se, d[2][0]), canon(ctx, se, d[2][1]), bb_sw)]
            if d[0] == "binop" and d[1] == "Eq":
                return [("eq", canon(ctx, se, d[2]), canon(ctx, se, d[3]), bb_sw)]
            if d[0] == "phi" and (d[2], d[3]) in se.phi_inputs:
                pins = se.phi_inputs[(d[2], d[3])]
                falses = [p2 for p2, v2 in pins.items() if strip(v2)[:2] == ("int", 0)]
                others = [(p2, v2) for p2, v2 in pins.items() if strip(v2)[:2] != ("int", 0)]
                if len(falses) != 1 or len(others) != 1:
                    return None
                # the `a && b` join: `false` comes from a's false edge, b is evaluated behind a's true edge
                for sb, d2, f_t, t_t in util.bool_switches(se):
                    if cfg.must_pass_edge(body, (sb, f_t), falses[0]) and cfg.must_pass_edge(body, (sb, t_t), others[0][0]):
                        a_ = conjuncts(sb, d2, t_t, depth + 1)
                        b_ = conjuncts(others[0][0], others[0][1], None, depth + 1)
                        if a_ is None or b_ is None:
                            return None
                        return a_ + b_
            return None

        for sb, d, f_t, t_t in util.bool_switches(se):
            # the constant branch is reachable through this switch's true edge only (an `|| true`
            # behind the test would add a second way in)
            if not (cfg.must_pass_edge(body, (sb, t_t), cpred) and cfg.must_pass_edge(body, (sb, f_t), gpred)):
                continue
            cj = conjuncts(sb, d, t_t)
            if cj is None or len(cj) != 2:
                continue
            n_ok = g_ok = False
            for _, a, b, _bb in cj:
                for u, w in ((a, b), (b, a)):
                    if u == ("param", 6) and w[0] == "bytes" and bytes(w[1]) == bytes(N0):
                        n_ok = True
                    if u == ("param", 7) and w[:2] == ("int", g0):
                        g_ok = True
            if n_ok and g_ok:
                guard_blocks = {b_ for _, _, _, b_ in cj} | {sb}
                # blocks of the comparisons themselves (where the built-in constants are read)
                for (bi, si), (loc, v) in se.assigns.items():
                    if strip(v)[0] == "binop" and strip(v)[1] == "Eq" and any(strip(v) == ("binop", "Eq") + tuple(strip(y) for y in ()) for _ in ()):
                        pass
                const_branch = {b_ for b_ in cfg.reachable(body, start=t_t) if cfg.must_pass_edge(body, (sb, t_t), b_) or b_ == t_t} - {x[2]} - set(cfg.reachable(body, start=x[2]))
                return x, gen, guard_blocks | const_branch
    return None


def transcripts(ctx, rep):
    fb = ctx.fb
    xor = fb.const_bytes("srp_internal::PRECALCULATED_XOR_HASH")
    table = [
        ("srp_internal::calculate_x", ("H", (P(3), ("H", (("text", P(1)), ("const", b":"), ("text", P(2)))))), "x = H(salt | H(U ':' P))"),
        ("srp_internal::calculate_u", ("H", (P(1), P(2))), "u = H(A | B)"),
        ("srp_internal::calculate_client_proof", ("H", (("const", xor), ("H", (("text", P(1)),)), P(5), P(3), P(4), P(2))), "M1 = H(xor | H(U) | salt | A | B | K)"),
        ("srp_internal_client::calculate_client_proof_with_custom_value", ("H", (("call", "srp_internal::calculate_xor_hash", (P(6), P(7))), ("H", (("text", P(1)),)), P(5), P(3), P(4), P(2))), "client M1 with the xor computed from the announced group"),
        ("srp_internal::calculate_server_proof", ("H", (P(1), P(2), P(3))), "M2 = H(A | M1 | K)"),
    ]
    for fn, want, why in table:
        se = ctx.wrap.run(fn)
        if se is None and fn == CLIENT_FNS[2]:
            cv = client_view(ctx)
            rep.check(cv["M1"], "transcript", CLIENT_ROOT, "M1:sha1", "end to end: client M1 = %s" % cv.get("M1_desc", "?")[:200], "end to end: the client's M1 is not H(xor_hash(N, g) | H(U) | salt | A | B | K) over the constructor's own values: %s" % cv.get("M1_desc", cv["why"])[:300], cv["loc"])
            continue
        if se is None:
            rep.violation("transcript", fn, "anchor", "function not found")
            continue
        ret_t = se.ret
        note = ""
        if fn == CLIENT_FNS[2]:
            fp = default_group_fast_path(ctx, se)
            if fp is not None:
                ret_t = util.map_term(strip(se.ret), lambda t_: strip(fp[1]) if t_ == fp[0] else None)
                note = " (the built-in constant is used exactly when the announced N, g equal the built-in ones, where it equals the computed value)"
        b = util.bexpr(ctx, se, ret_t)
        rep.check(b == util.cb(want), "transcript", fn, "sha1", "%s: %s%s" % (why, show_b(b), note), "%s: expected %s, found %s" % (why, show_b(want), show_b(b)), se.body.loc())
    # xor hash: H(N_le) xor H([g]) element-wise over all 20 positions
    fn = "srp_internal::calculate_xor_hash"
    se = ctx.wrap.run(fn)
    if se is None:
        rep.violation("transcript", fn, "anchor", "not found")
        return
    body = se.body
    hs = [(bb, util.bexpr(ctx, se, i["term"]), strip(i["term"])) for bb, i in se.term_info.items() if i.get("k") == "call" and (i["name"] in util.DIGEST_FINAL or i["name"] == "<D as digest::Digest>::digest")]
    want_n = ("H", (P(1),))
    want_g = ("H", (("arr", (P(2),)),))
    hn = [h for h in hs if h[1] == util.cb(want_n)]
    hg = [h for h in hs if h[1] == util.cb(want_g)]
    loops = util.for_loops(ctx, se)
    good = False
    why = "digests %s" % [show_b(h[1]) for h in hs]

    def peel(x):
        x = strip(x)
        while util.is_call(x) and (x[1] in util.IDENT_CALLS or x[1].split("::")[-1] in ("iter", "iter_mut", "into_iter")):
            x = strip(x[2][0])
        return x

    if len(hs) == 2 and len(hn) == 1 and len(hg) == 1 and len(loops) == 1 and not loops[0]["only_exit"]:
        why = "the xor loop can be left before its last byte (break / return inside the loop)"
    elif len(hs) == 2 and len(hn) == 1 and len(hg) == 1 and len(loops) == 1:
        lp = loops[0]
        t = strip(lp["init_call"][2][0]) if lp["init_call"] else None
        item = strip(lp["elem"])
        hset = {hn[0][2], hg[0][2]}
        out_local = None
        for (bi, si), (loc, v) in se.assigns.items():
            if v[0] == "repeat" and v[1][:2] == ("int", 0) and v[2] == 20 and loc[0] == "local":
                out_local = loc
        # position-wise sources of every loop component: map item projections to containers
        comp = {}

        def assign(it, proj):
            it = strip(it)
            if util.is_call(it) and it[1].endswith("::zip"):
                assign(it[2][0], ("field", proj, 0))
                assign(it[2][1], ("field", proj, 1))
            elif util.is_call(it) and it[1].endswith("::enumerate"):
                comp[("field", proj, 0)] = ("index",)
                assign(it[2][0], ("field", proj, 1))
            else:
                c_ = peel(it)
                raw = strip(it)
                while util.is_call(raw) and raw[1].split("::")[-1] in ("into_iter",):
                    raw = strip(raw[2][0])
                if util.is_call(raw) and raw[1].endswith("::iter_mut") and raw[2][0] == ("mutref", 0):
                    old = se.call_old.get((raw[3][:2], 0))
                    if old is not None and strip(old)[0] == "repeat" and strip(old)[1][:2] == ("int", 0) and strip(old)[2] == 20:
                        c_ = ("out",)
                    elif old is not None and peel(old) in hset:
                        # one digest written into the result first, the other xor-ed on top in place
                        comp[proj] = ("elem", peel(old), "inout")
                        return
                comp[proj] = ("elem", c_)

        if t is not None:
            assign(t, item)

        def origin(x):
            """(container, position token) of a byte operand: position is 'k' for the loop position"""
            x = strip(x)
            if x in comp and comp[x][0] == "elem":
                return comp[x][1], "k"
            if x[0] == "index" and x[2] in comp and comp[x[2]][0] == "index":
                return peel(x[1]), "k"
            if util.is_call(x) and x[1].endswith("::index") and strip(x[2][1]) in comp and comp[strip(x[2][1])][0] == "index":
                return peel(x[2][0]), "k"
            return None, None

        stores = []
        sblocks = []
        for (bi, si), (loc, v) in se.assigns.items():
            if loc[0] == "index" and out_local is not None and loc[1] == out_local and strip(loc[2]) in comp and comp[strip(loc[2])][0] == "index":
                stores.append(v)
                sblocks.append(bi)
            elif loc[0] == "deref" and strip(loc[1]) in comp and (comp[strip(loc[1])] == ("elem", ("out",)) or len(comp[strip(loc[1])]) == 3):
                stores.append(v)
                sblocks.append(bi)
        idom_ = cfg.dominators(body)
        if len(stores) == 1 and not all(cfg.dominates(idom_, sblocks[0], t_) for t_, h_ in cfg.back_edges(body) if h_ == lp["next_bb"]):
            why = "the store of the output byte is skipped on some iterations (a condition / `continue` in front of it)"
        elif len(stores) == 1:
            v = strip(stores[0])
            ops = None
            if v[0] == "binop" and v[1] == "BitXor":
                ops = [v[2], v[3]]
            elif util.is_call(v) and "std::ops::BitXor" in v[1] and v[1].endswith("::bitxor"):
                ops = [v[2][0], v[2][1]]
            if ops is not None:
                o1, o2 = origin(ops[0]), origin(ops[1])
                good = {o1[0], o2[0]} == hset and o1[1] == o2[1] == "k"
                why = "xor[k] = H(N_le)[k] ^ H([g])[k] for every position k of the 20-byte digests" if good else "xor operands come from %s / %s" % (show(o1[0], maxdepth=2) if o1[0] else "?", show(o2[0], maxdepth=2) if o2[0] else "?")
            else:
                why = "output byte is %s" % show(v, maxdepth=3)
        else:
            why = "%d stores to the output array per iteration" % len(stores)
    if len(hs) == 2 and len(hn) == 1 and len(hg) == 1 and len(loops) == 0:
        # the output written out element by element (core::array::from_fn or a literal)
        r = canon(ctx, se, se.ret)
        hset = {canon(ctx, se, hn[0][2]), canon(ctx, se, hg[0][2])}

        def at(x):
            x = strip(x)
            if x[0] == "cindex" and not x[3]:
                return peel(x[1]), x[2]
            if x[0] == "index" and strip(x[2])[0] == "int":
                return peel(x[1]), strip(x[2])[1]
            if util.is_call(x) and x[1].endswith("::index") and strip(x[2][1])[0] == "int":
                return peel(x[2][0]), strip(x[2][1])[1]
            return None, None

        if r[0] == "agg" and r[1] == "array" and len(r[4]) == 20:
            good = True
            for k_, v in enumerate(r[4]):
                v = strip(v)
                ops = [v[2], v[3]] if v[0] == "binop" and v[1] == "BitXor" else ([v[2][0], v[2][1]] if util.is_call(v) and v[1].endswith("::bitxor") else None)
                if ops is None:
                    good = False
                    why = "output byte %d is %s" % (k_, show(v, maxdepth=3))
                    break
                o1, o2 = at(ops[0]), at(ops[1])
                if not ({o1[0], o2[0]} == hset and o1[1] == o2[1] == k_):
                    good = False
                    why = "output byte %d does not xor position %d of the two digests" % (k_, k_)
                    break
            if good:
                why = "xor[k] = H(N_le)[k] ^ H([g])[k] for every position k of the 20-byte digests (element by element)"
        else:
            why = "no loop and the result is not a 20-element array"
    rep.check(good, "transcript", fn, "xor-of-hashes", why, "xor hash is not the element-wise xor of SHA1(N as 32 LE bytes) and SHA1([g]): " + why, body.loc())


def constants(ctx, rep):
    fb = ctx.fb
    nle = fb.const_bytes("primes::LARGE_SAFE_PRIME_LITTLE_ENDIAN")
    nbe = fb.const_bytes("primes::LARGE_SAFE_PRIME_BIG_ENDIAN")
    rep.check(nbe == N_BE, "constant", "primes::LARGE_SAFE_PRIME_BIG_ENDIAN", "value", "N (big endian) is the documented prime", "big-endian N differs from the documented WoW prime")
    rep.check(nle == N_BE[::-1], "constant", "primes::LARGE_SAFE_PRIME_LITTLE_ENDIAN", "value", "N (little endian) is the byte reverse", "little-endian N is not the byte-reverse of the documented prime")
    rep.check(fb.const_int("primes::GENERATOR") == G, "constant", "primes::GENERATOR", "value", "g = 7", "generator constant is %s" % fb.const_int("primes::GENERATOR"))
    rep.check(fb.const_int("primes::K_VALUE") == K, "constant", "primes::K_VALUE", "value", "k = 3", "k constant is %s" % fb.const_int("primes::K_VALUE"))
    lens = {"key::SALT_LENGTH": 32, "key::PUBLIC_KEY_LENGTH": 32, "key::PRIVATE_KEY_LENGTH": 32, "key::PROOF_LENGTH": 20, "key::SESSION_KEY_LENGTH": 40, "key::PASSWORD_VERIFIER_LENGTH": 32, "key::S_LENGTH": 32, "key::SHA1_HASH_LENGTH": 20, "primes::LARGE_SAFE_PRIME_LENGTH": 32}
    bad = {k: fb.const_int(k) for k, v in lens.items() if fb.const_int(k) != v}
    rep.check(not bad, "constant", "key", "lengths", "field widths 32/20/40", "length constants differ: %s" % bad)
    xor = fb.const_bytes("srp_internal::PRECALCULATED_XOR_HASH")
    if nle is not None and xor is not None:
        want = bytes(a ^ b for a, b in zip(hashlib.sha1(nle).digest(), hashlib.sha1(bytes([G])).digest()))
        rep.check(xor == want, "constant", "srp_internal::PRECALCULATED_XOR_HASH", "value", "precomputed xor = SHA1(N_LE) xor SHA1([7]) (recomputed)", "PRECALCULATED_XOR_HASH is not SHA1(N_LE) xor SHA1([g])")
    else:
        rep.violation("constant", "srp_internal::PRECALCULATED_XOR_HASH", "value", "constant not extractable")
    # the defaults are these constants
    for fn, cst in (("<primes::LargeSafePrime as std::default::Default>::default", ("bytes", N_BE[::-1])), ("<primes::Generator as std::default::Default>::default", ("int", G))):
        se = ctx.wrap.run(fn)
        good = False
        if se is not None:
            r = canon(ctx, se, se.ret)
            good = (r[0] == "bytes" and bytes(r[1]) == cst[1]) if cst[0] == "bytes" else (r[0] == "int" and r[1] == cst[1])
        rep.check(good, "constant", fn, "default", "built-in group default = the documented constant", "built-in default differs from the documented constant")


def client_group(ctx, rep):
    fb = ctx.fb
    root = "client::SrpClientChallenge::new"
    clo = util.call_graph_closure(fb, [root])
    forbidden_fns = {"<primes::LargeSafePrime as std::default::Default>::default", "<primes::Generator as std::default::Default>::default", "srp_internal::calculate_client_proof", "srp_internal::calculate_password_verifier", "srp_internal::calculate_server_public_key", "srp_internal::calculate_S"}
    forbidden_consts = {"primes::LARGE_SAFE_PRIME_LITTLE_ENDIAN", "primes::LARGE_SAFE_PRIME_BIG_ENDIAN", "primes::GENERATOR", "srp_internal::PRECALCULATED_XOR_HASH"}
    hit_f = sorted(clo & forbidden_fns)
    hit_c = sorted((p, c) for p in clo for c in util.const_uses(fb, fb.bodies[p]) if c in forbidden_consts)
    if hit_c:
        # an arm of a looked-through helper that this caller can never take (it matches on an enum
        # value the caller has just built with another variant) mentions nothing for this caller:
        # count the blocks the term engine reaches
        def live(p_):
            se_ = ctx.wrap.run(p_)
            return (set(se_.in_state) | {0}) if se_ is not None and getattr(se_, "converged", False) else None
        def live2(p_):
            lv = live(p_)
            if p_ == CLIENT_FNS[2]:
                se_ = ctx.wrap.run(p_)
                fp = default_group_fast_path(ctx, se_) if se_ is not None else None
                if fp is not None:
                    # the guard `N == N0 && g == g0` and the constant branch behind it: there the
                    # announced group IS the built-in one
                    eq_blocks = set()
                    for bi_, blk_ in enumerate(se_.body.blocks):
                        t_ = blk_["term"]
                        if t_["k"] == "call" and (t_.get("callee") or "").endswith("::eq"):
                            eq_blocks.add(bi_)
                        if any(s_["k"] == "assign" and s_["rv"].get("k") == "binop" and s_["rv"].get("op") == "Eq" for s_ in blk_["stmts"]):
                            eq_blocks.add(bi_)
                    base_ = lv if lv is not None else set(range(len(se_.body.blocks)))
                    return base_ - set(fp[2]) - eq_blocks
            return lv
        def promoted_exempt(pp):
            """a promoted constant (`&N0`) of the M1 function that is only read by the guard comparisons"""
            if "::promoted[" not in pp or pp.split("::promoted[")[0] != CLIENT_FNS[2]:
                return False
            k_ = int(pp.split("::promoted[")[1].rstrip("]"))
            ob = fb.bodies.get(CLIENT_FNS[2])
            lv = live2(CLIENT_FNS[2])
            if ob is None or lv is None:
                return False
            users = set()

            def scan(x, bi_):
                if isinstance(x, dict):
                    if x.get("k") == "const" and x.get("promoted") == k_:
                        users.add(bi_)
                    for v_ in x.values():
                        scan(v_, bi_)
                elif isinstance(x, list):
                    for v_ in x:
                        scan(v_, bi_)
            for bi_, blk_ in enumerate(ob.blocks):
                scan(blk_, bi_)
            return bool(users) and not (users & lv)
        hit_c = sorted((p, c) for p in {p_ for p_, _ in hit_c} if not promoted_exempt(p) for c in util.const_uses(fb, fb.bodies[p], live2(p)) if c in forbidden_consts)
    rep.check(root in clo and not hit_f and not hit_c, "client-group", root, "no-builtin-group", "%d functions in the client constructor's closure; none touches the built-in group" % len(clo), "the client handshake reaches the built-in group: functions %s, constants %s" % (hit_f, hit_c))
    # positive fixture: the server closure does reach the defaults (the rule is not vacuous)
    sclo = util.call_graph_closure(fb, ["server::SrpVerifier::into_proof", "server::SrpProof::into_server"])
    rep.check(bool(sclo & forbidden_fns), "client-group", "server::SrpProof::into_server", "fixture", "fixture: the server closure reaches the built-in defaults (rule can fire)", "fixture failed: the census does not see the server using the built-in group")
    # operands in the client wiring are the announced parameters
    se = ctx.api.run(root)
    if se is None:
        rep.violation("client-group", root, "anchor", "not found")
        return
    r = canon(ctx, se, se.ret)
    ok = True
    why = []
    calls = {}
    for t in walk(r):
        if util.is_call(t) and t[1] in fb.bodies:
            calls.setdefault(t[1], set()).add(t)
    def only(name):
        c = calls.get(name, set())
        return next(iter(c)) if len(c) == 1 else None
    A = only("srp_internal_client::calculate_client_public_key")
    S_ = only("srp_internal_client::calculate_client_S")
    M = only("srp_internal_client::calculate_client_proof_with_custom_value")
    X = only("srp_internal::calculate_x")
    U = only("srp_internal::calculate_u")
    KK = only("srp_internal::calculate_interleaved")
    if not all([A, S_, M]) and all([X, U, KK]) and not all(ctx.has(f) for f in CLIENT_FNS):
        # the client-only internals were folded into something else: decided end to end
        cv = client_view(ctx)
        rep.check(cv["operands"], "client-group", root, "announced-operands", "end to end: A, S and M1 are computed with (generator = arg3, prime = arg4)", "end to end: some client computation does not use the announced generator / prime parameters: " + cv["why"], se.body.loc())
        rep.check(cv["wiring"] and cv["ok"], "client-group", root, "wiring", "end to end: x(U,P,salt); u(A,B); S(B,x,a,u,g,N); K = interleave(S); M1(U,K,A,B,salt,N,g)", "end to end: client wiring differs from the protocol: " + cv["why"], se.body.loc())
        return
    if not all([A, S_, M, X, U, KK]):
        rep.violation("client-group", root, "wiring", "client wiring calls not found exactly once each", se.body.loc())
        return
    g, n = ("param", 3), ("param", 4)
    Aval = None
    for t in walk(r):
        if util.is_call(t) and t[1].endswith("::expect") and t[2][0] == A:
            Aval = t
    good = A[2][1] == g and A[2][2] == n and S_[2][4] == g and S_[2][5] == n and M[2][5] == n and M[2][6] == g
    rep.check(good, "client-group", root, "announced-operands", "A, S and M1 are computed with (generator = arg3, prime = arg4)", "some client computation does not use the announced generator / prime parameters", se.body.loc())
    wiring = (X[2] == (("param", 1), ("param", 2), ("param", 6)) and Aval is not None and U[2] == (Aval, ("param", 5)) and S_[2][0] == ("param", 5) and S_[2][1] == X and S_[2][3] == U and KK[2][0] == S_
              and M[2][0] == ("param", 1) and M[2][1] == KK and M[2][2] == Aval and M[2][3] == ("param", 5) and M[2][4] == ("param", 6))
    rep.check(wiring, "client-group", root, "wiring", "x(U,P,salt); u(A,B); S(B,x,a,u,g,N); K = interleave(S); M1(U,K,A,B,salt,N,g)", "client wiring differs from the protocol (see DESIGN C03)", se.body.loc())


CLIENT_FNS = ("srp_internal_client::calculate_client_public_key", "srp_internal_client::calculate_client_S", "srp_internal_client::calculate_client_proof_with_custom_value")
CLIENT_ROOT = "client::SrpClientChallenge::new"
_VIEW = {}


def client_view(ctx):
    """The client's handshake computations decided END TO END on the public constructor
    `SrpClientChallenge::new(U, P, g, N, B, salt)` instead of function by function: the three
    client-only internals (if they still exist as functions), the big-integer wrapper and every
    helper that did not exist on the pinned tree are looked through, and the fields of the
    returned object are compared with the protocol instantiated at the constructor's parameters:
        A  = client_try_from_bigint(g^a mod N, N)                (g = arg3, N = arg4)
        K  = interleave(pad32((B - k g^x)^(a + u x) mod N))      (x = calculate_x(U, P, salt), u = calculate_u(A, B))
        M1 = H(xor_hash(N, g) | H(U) | salt | A | B | K)
    This is what the per-function formula / transcript / wiring obligations add up to; it is
    used when a refactoring folded those internals into something else (methods of a private
    `SrpGroup`, say), so that there is no function left to hang the obligations on."""
    key = id(ctx.fb)
    if key in _VIEW:
        return _VIEW[key][1]
    from symex import Engine, wrapper_policy
    fb = ctx.fb
    wp = wrapper_policy(fb)
    bigpol = lambda path: path.startswith("bigint::") or path.startswith("<bigint::") or path.startswith("primes::") or path.startswith("<primes::") or path.endswith("::as_bigint")
    eng = Engine(fb, inline=lambda path, depth: bigpol(path) or path in CLIENT_FNS or ctx.fresh_pure(path, depth) or wp(path, depth))
    v = {"ok": False, "why": "constructor not found", "A": False, "S": False, "M1": False, "wiring": False, "operands": False, "m1_b": None, "loc": None}
    _VIEW[key] = (ctx.fb, v)
    se = eng.run(CLIENT_ROOT)
    if se is None:
        return v
    v["loc"] = se.body.loc()
    r = canon(ctx, se, se.ret)
    fs = fb.adt_fields("client::SrpClientChallenge") or []
    if not (r[0] == "agg" and r[2] == "client::SrpClientChallenge" and len(r[4]) == len(fs)):
        v["why"] = "the constructor does not return one SrpClientChallenge aggregate"
        return v
    by_ty = {}
    for i, f in enumerate(fs):
        by_ty.setdefault(fb.ty(f["ty"]).path, []).append(i)
    need = {"U": "normalized_string::NormalizedString", "M1": "key::Proof", "A": "key::PublicKey", "K": "key::SessionKey"}
    if any(len(by_ty.get(t, [])) != 1 for t in need.values()):
        v["why"] = "fields of SrpClientChallenge are not one each of NormalizedString / Proof / PublicKey / SessionKey"
        return v
    U_t, M_t, A_t, K_t = (r[4][by_ty[need[x]][0]] for x in ("U", "M1", "A", "K"))
    k = ("small", K)
    # ---- A
    a = strip(A_t)
    inner = strip(a[2][0]) if util.is_call(a) and a[1].split("::")[-1] in ("expect", "unwrap") and a[2] else None
    a_leaf = None
    if inner is not None and util.is_call(inner, "key::PublicKey::client_try_from_bigint") and len(inner[2]) == 2:
        fA = bigf(ctx, se, inner[2][0])
        if fA[0] == "modpow" and fA[1] == ("small", P(3)) and fA[3] == I(P(4)) and fA[2][0] == "int" and fA[2][1][0] == "call" and not fA[2][1][2]:
            a_leaf = fA[2]
            v["A"] = canon(ctx, se, inner[2][1]) == ("param", 4)
        v["A_desc"] = show_f(fA)
    # ---- K = interleave(S)
    kk = strip(K_t)
    if a_leaf is not None and util.is_call(kk, "srp_internal::calculate_interleaved") and len(kk[2]) == 1:
        ints = {x for x in find_bigint(ctx, se, kk[2][0])}
        if len(ints) == 1:
            fS = bigf(ctx, se, next(iter(ints)))
            X = ("call", "srp_internal::calculate_x", (P(1), P(2), P(6)))
            us = [t for t in walk(kk) if util.is_call(t, "srp_internal::calculate_u")]
            xs = [t for t in walk(kk) if util.is_call(t, "srp_internal::calculate_x")]
            if len(set(us)) == 1 and len(set(xs)) == 1:
                u_t = us[0]
                Uf = bytes_of(ctx, se, u_t)
                want = ("modpow", ("sub", I(P(5)), mul(k, ("modpow", ("small", P(3)), I(X), I(P(4))))), add(a_leaf, mul(I(Uf), I(X))), I(P(4)))
                v["S"] = fS == want
                v["S_desc"] = show_f(fS)
                v["wiring"] = tuple(canon(ctx, se, y) for y in u_t[2]) == (canon(ctx, se, A_t), ("param", 5)) and canon(ctx, se, U_t) == ("param", 1)
                # the padded export of S: a zeroed 32-byte array with the magnitude bytes in front
                v["S_pad"] = any(t[0] == "after" and strip(t[3])[0] == "repeat" and strip(t[3])[1][:2] == ("int", 0) and strip(t[3])[2] == 32 for t in walk(strip(kk[2][0])))
    # ---- M1
    b = util.bexpr(ctx, se, M_t)
    v["m1_b"] = b
    xor = ("call", "srp_internal::calculate_xor_hash", (P(4), P(3)))
    want_m = ("H", (xor, ("H", (("text", P(1)),)), P(6), util.bexpr(ctx, se, A_t), P(5), util.bexpr(ctx, se, K_t)))

    def unfield(x):
        # the hash wrapper's only field (`.0`) is the digest itself
        if isinstance(x, tuple) and x and x[0] == "field" and len(x) == 3 and x[2] == 0:
            return unfield(x[1])
        if isinstance(x, tuple):
            return tuple(unfield(y) for y in x)
        return x

    v["M1"] = unfield(util.cb(b)) == unfield(util.cb(want_m))
    v["M1_desc"] = show_b(b)
    draws = {t for t in walk(strip(r)) if util.is_call(t, "key::PrivateKey::randomized")}
    v["a_single_draw"] = bool(v["A"] and v["S"] and a_leaf == I(("call", "key::PrivateKey::randomized", ())) and len(draws) == 1)
    v["operands"] = v["A"] and v["S"] and v["M1"]       # g = arg3 and N = arg4 are the only group values in the three formulas
    v["ok"] = all(v[x] for x in ("A", "S", "M1", "wiring")) and bool(v.get("S_pad"))
    v["why"] = "A = %s; S = %s; M1 = %s" % (v.get("A_desc", "?")[:80], v.get("S_desc", "?")[:120], v.get("M1_desc", "?")[:120])
    return v


def formulas(ctx, rep):
    Nb = I(("const", N_BE[::-1]))
    g = ("small", G)
    k = ("small", K)
    formula_rule(ctx, rep, "srp_internal::calculate_password_verifier",
                 ("modpow", g, I(("call", "srp_internal::calculate_x", (P(1), P(2), P(3)))), Nb), None, "v = g^x mod N")
    formula_rule(ctx, rep, "srp_internal::calculate_server_public_key",
                 ("rem", add(mul(k, I(P(1))), ("modpow", g, I(P(2)), Nb)), Nb), "key::PublicKey::try_from_bigint", "B = (k*v + g^b) mod N")
    formula_rule(ctx, rep, "srp_internal::calculate_S",
                 ("modpow", mul(I(P(1)), ("modpow", I(P(2)), I(P(3)), Nb)), I(P(4)), Nb), "<key::SKey as std::convert::From<bigint::Integer>>::from", "S = (A * v^u)^b mod N")
    if ctx.has("srp_internal_client::calculate_client_public_key"):
        formula_rule(ctx, rep, "srp_internal_client::calculate_client_public_key",
                     ("modpow", ("small", P(2)), I(P(1)), I(P(3))), "key::PublicKey::client_try_from_bigint", "A = g^a mod N (announced g, N)")
    else:
        cv = client_view(ctx)
        rep.check(cv["A"], "formula", CLIENT_ROOT, "A:srp6", "end to end: A = client_try_from_bigint(%s, arg4)" % cv.get("A_desc", "?"), "end to end: the client's A is not client_try_from_bigint(g^a mod N, N) over the announced g = arg3, N = arg4: %s" % cv.get("A_desc", cv["why"]), cv["loc"])
    if ctx.has("srp_internal_client::calculate_client_S"):
        formula_rule(ctx, rep, "srp_internal_client::calculate_client_S",
                     ("modpow", ("sub", I(P(1)), mul(k, ("modpow", ("small", P(5)), I(P(2)), I(P(6))))), add(I(P(3)), mul(I(P(4)), I(P(2)))), I(P(6))), None, "S = (B - k*g^x)^(a + u*x) mod N (announced g, N)")
    else:
        cv = client_view(ctx)
        rep.check(cv["S"] and bool(cv.get("S_pad")), "formula", CLIENT_ROOT, "S:srp6", "end to end: S = %s, exported as 32 zero-padded bytes" % cv.get("S_desc", "?"), "end to end: the client's S is not pad32((B - k*g^x)^(a + u*x) mod N) over the announced group: %s" % cv.get("S_desc", cv["why"]), cv["loc"])


CARRIERS = ("server::SrpVerifier", "server::SrpProof", "server::SrpServer", "client::SrpClientChallenge", "client::SrpClient", "client::SrpClientReconnection",
            "key::PublicKey", "key::PrivateKey", "key::Salt", "key::Verifier", "key::SessionKey", "key::Proof", "key::SKey", "key::Sha1Hash", "key::ReconnectData",
            "normalized_string::NormalizedString", "primes::LargeSafePrime", "primes::Generator", "bigint::Integer")


def check(ctx, rep):
    # every handshake value is what was computed - also in a copy of the object that carries it
    util.clone_fidelity(ctx, rep, "carrier", CARRIERS)
    transcripts(ctx, rep)
    formulas(ctx, rep)
    client_group(ctx, rep)
    constants(ctx, rep)
    interleave_rules(ctx, rep)
    # "the values that come out of the public API": a value has to come out - for every input,
    # every announced group (C14's obligations over the SRP exchange, re-filed)
    if not isinstance(rep, util.Refile):
        from . import c14
        c14.totality(ctx, rep, "totality", lambda r: r.startswith(("client::", "server::", "srp_internal")), "the SRP exchange (client::, server::)")
