"""C17 - integrity hashes depend only on the concatenated files, salt and key.

Decides (A5/A3): Windows / Mac / generic = SHA1[client key | HMAC-SHA1(key = checksum salt;
files in declaration order)], every input once and whole; reconnect = SHA1[salt | 20 zero
bytes].  Equality under re-splitting of the byte string then follows from the streaming
contract of Mac::update (trusted)."""
from rules import util
from rules.util import P, show_b

EXPLANATION = __doc__
TRUSTED = ["rustc / extractor", "digest::Mac::update is streaming: update(a); update(b) == update(a||b)", "HMAC-SHA1 / SHA-1 collision resistance"]
NOT_DECIDED = ["HMAC / SHA-1 internals"]
FLOORS = {"transcript": 4}


def applicable(feats):
    return "integrity" in feats


def expand(ctx, b):
    """inline crate-local helper calls in a byte expression using the helper's own transcript"""
    if b[0] == "call":
        se = ctx.wrap.run(b[1])
        if se is None:
            return b
        inner = util.bexpr(ctx, se, se.ret)
        args = [expand(ctx, a) for a in b[2]]
        return subst(inner, args)
    if b[0] == "H":
        return ("H", tuple(expand(ctx, x) for x in b[1]))
    if b[0] == "HMAC":
        return ("HMAC", expand(ctx, b[1]), tuple(expand(ctx, x) for x in b[2]))
    return b


def subst(b, args):
    k = b[0]
    if k == "P":
        return args[b[1] - 1] if b[1] - 1 < len(args) else b
    if k == "H":
        return ("H", tuple(subst(x, args) for x in b[1]))
    if k == "HMAC":
        return ("HMAC", subst(b[1], args), tuple(subst(x, args) for x in b[2]))
    if k == "call":
        return ("call", b[1], tuple(subst(x, args) for x in b[2]))
    if k in ("text",):
        return (k, subst(b[1], args))
    if k in ("le", "be"):
        return (k, b[1], subst(b[2], args))
    return b


def check(ctx, rep):
    files5 = (P(1), P(2), P(3), P(4), P(5))
    want = {
        "integrity::login_integrity_check_windows": ("H", (P(7), ("HMAC", P(6), files5))),
        "integrity::login_integrity_check_mac": ("H", (P(7), ("HMAC", P(6), files5))),
        "integrity::login_integrity_check_generic": ("H", (P(3), ("HMAC", P(2), (P(1),)))),
        "integrity::reconnect_integrity_check": ("H", (P(1), ("zeros", 20))),
    }
    for fn, w in want.items():
        se = ctx.wrap.run(fn)
        if se is None:
            rep.violation("transcript", fn, "anchor", "function not found")
            continue
        b = expand(ctx, util.bexpr(ctx, se, se.ret))
        rep.check(b == util.cb(w), "transcript", fn, "sha1-hmac", show_b(b), "expected %s, found %s" % (show_b(w), show_b(b)), se.body.loc())
        # parameter types: files are byte slices, salt 16 bytes, key 32 bytes
        sig = [ctx.fb.ty(i).s for i in se.body.d["inputs"]]
        if fn.endswith("windows") or fn.endswith("mac"):
            good = sig == ["&[u8]"] * 5 + ["&[u8; 16]", "&[u8; 32]"]
        elif fn.endswith("generic"):
            good = sig == ["&[u8]", "&[u8; 16]", "&[u8; 32]"]
        else:
            good = sig == ["&[u8; 16]"]
        rep.check(good, "signature", fn, "widths", "parameters %s" % sig, "unexpected parameter types %s" % sig)
