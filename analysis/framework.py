"""Rule framework: obligations, reports, known findings, evidence, the per-property driver."""
import hashlib
import importlib
import json
import os
import sys
import time
import traceback

import extract
from facts import FactBase
from symex import Engine, inline_all, wrapper_policy, pure_policy

VERIF = extract.VERIF
LEVELS = {"C12": "proof"}


class Ob:
    __slots__ = ("prop", "rule", "fn", "role", "status", "detail", "loc", "cfg")

    def __init__(self, prop, rule, fn, role, status, detail, loc=None):
        self.prop, self.rule, self.fn, self.role = prop, rule, fn, role
        self.status, self.detail, self.loc = status, detail, loc
        self.cfg = None

    @property
    def key(self):
        return "%s|%s|%s|%s" % (self.prop, self.rule, self.fn, self.role)

    def as_dict(self):
        return {"key": self.key, "status": self.status, "detail": self.detail, "loc": self.loc, "cfg": self.cfg}


class Report:
    """collects obligations for one property in one configuration"""

    def __init__(self, prop, cfgname):
        self.prop = prop
        self.cfg = cfgname
        self.obs = []
        self.notes = []
        self.stats = {}

    def _add(self, rule, fn, role, status, detail, loc):
        o = Ob(self.prop, rule, fn, role, status, detail, loc)
        o.cfg = self.cfg
        self.obs.append(o)
        return o

    def ok(self, rule, fn, role, detail="", loc=None):
        return self._add(rule, fn, role, "ok", detail, loc)

    def violation(self, rule, fn, role, detail, loc=None):
        return self._add(rule, fn, role, "violation", detail, loc)

    def undecided(self, rule, fn, role, detail, loc=None):
        return self._add(rule, fn, role, "undecided", detail, loc)

    def check(self, cond, rule, fn, role, ok_detail, bad_detail, loc=None):
        if cond:
            return self.ok(rule, fn, role, ok_detail, loc)
        return self.violation(rule, fn, role, bad_detail, loc)

    def count(self, rule):
        return sum(1 for o in self.obs if o.rule == rule)


class Ctx:
    def __init__(self, fb, cfgname, tier):
        self.fb = fb
        self.cfg = cfgname
        self.tier = tier
        self.features = set(fb.features)
        # a crate-private function that did not exist on the pinned tree (not in the signature
        # table, not a renamed one) and is pure - no loop, no `&mut` parameter - is a helper that a
        # refactoring extracted: every view looks through it.  Functions of the pinned tree keep
        # their identity (rules name them).
        import facts as _facts
        _facts.rename_aliases(fb.d)
        known = set((_facts._ANCHORS or {}).get("functions", {}))
        pp = pure_policy(fb)
        wp0 = wrapper_policy(fb)

        def fresh_pure(path, depth):
            if not known or path in known or "::{closure" in path or "#" in path:
                return False
            b = fb.body(path)
            if b is None or b.kind not in ("Fn", "AssocFn") or b.d.get("instance_of") in known:
                return False
            if b.d.get("impl_trait"):
                if not fb.fresh_trait(b.d["impl_trait"]):
                    return False
            elif b.reachable() and b.is_pub():
                return False
            return depth < 4 and pp(path, depth)

        def wp(path, depth):
            # (a closure called as a function - `step(byte, key, prev)` on an `impl Fn` argument of a
            # monomorphic instance - is looked through when it is pure: its value is its body)
            return wp0(path, depth) or fresh_pure(path, depth) or ("::{closure#" in path and depth < 4 and fn_closure(path))

        import cfg as _cfg

        def fn_closure(path):
            b = fb.body(path)
            if b is None or b.kind != "Closure" or _cfg.back_edges(b):
                return False
            t1 = b.local_ty(1)          # `&{closure}`: an `Fn` closure - it cannot write through its captures
            if t1 is not None and t1.k == "ref" and not t1.d.get("mut"):
                return True
            # a by-value (`FnOnce`) closure that captured only shared references / plain values
            # cannot write through its captures either
            if t1 is not None and t1.k == "closure":
                ups = [fb.ty(u) for u in t1.d.get("upvars", [])]
                return all(not (u.k == "ref" and u.d.get("mut")) and u.k not in ("rawptr",) for u in ups)
            return False

        self.fresh_pure = fresh_pure
        self.wrap = Engine(fb, inline=wp)
        self.deep = Engine(fb, inline=inline_all)
        self.flat = Engine(fb, inline=None)
        self.pure = Engine(fb, inline=pp)
        # API view: additionally inline private helpers that have a single caller in their own
        # module (a function split in two by a refactoring is still one API operation)
        callers = {}
        for b in fb.bodies.values():
            for _, t in b.calls():
                r = t.get("resolved")
                if r in fb.bodies:
                    callers.setdefault(r, set()).add(b.path)

        def helper(path, depth):
            if wp(path, depth):
                return True
            if known and path in known:
                return False        # a function of the pinned tree keeps its identity
            b = fb.body(path)
            if b is None or b.kind not in ("Fn", "AssocFn") or b.is_pub() or "Crate" in b.d.get("vis", "") and False:
                return False
            cs = callers.get(path, set())
            if len(cs) != 1:
                return False
            c = next(iter(cs))
            mod = lambda p_: p_.lstrip("<").split("::")[0]
            vis = b.d.get("vis", "")
            private = "Restricted" in vis and not vis.endswith("DefId(0:0 ~ wow_srp))") and "crate" not in vis.lower().split("restricted")[-1][:0]
            return mod(c) == mod(path) and not b.reachable()

        self.api = Engine(fb, inline=helper)
        # big-integer view: inline the Integer wrapper, the group constants and the key
        # wrappers' as_bigint, plus pure structure; stop at every other crate function
        self.big = Engine(fb, inline=lambda path, depth: path.startswith("bigint::") or path.startswith("<bigint::") or path.startswith("<&bigint::") or path.startswith("<&mut bigint::") or path.startswith("primes::") or path.startswith("<primes::") or path.endswith("::as_bigint") or wp(path, depth))

    def has(self, path):
        return path in self.fb.bodies


def load_known():
    p = os.path.join(VERIF, "known_findings.json")
    if not os.path.exists(p):
        return []
    return json.load(open(p)).get("findings", [])


def configs_for(tier):
    base = extract.DEFAULT
    if tier == "quick":
        return [(base + ["matrix-card"], True), (base, True)]
    out = []
    for fs in extract.powerset_configs():
        out.append((fs, True))
    out.append((base + ["matrix-card"], False))
    out.append((base, False))
    return out


def checker_validation(prop):
    """thorough tier: test the checker both ways on the committed corpora - every seeded /
    surveyed change that breaks this property must be reported, every behaviour-preserving
    refactoring must stay silent.  Analysis only (no mutant is executed); never influences the
    verdict of the property on /repo."""
    import glob
    import subprocess
    import tempfile

    out = {}
    mt = os.path.join(VERIF, "tools", "mutest.py")
    env = dict(os.environ, WOWSRP_NO_VALIDATION="1", VERIF_TIER="quick")
    with tempfile.TemporaryDirectory() as td:
        breaking = sorted(glob.glob(os.path.join(VERIF, "seeded", prop + "-*", "patch.diff")))
        js = os.path.join(td, "b.json")
        files = breaking + sorted(glob.glob(os.path.join(VERIF, "mutants", "*", "*.json")))
        subprocess.run([sys.executable, mt, "--own", prop, "--jobs", "12", "--json", js] + files, env=env, capture_output=True, text=True)
        try:
            r = json.load(open(js))
        except Exception:
            r = []
        out["breaking_changes"] = len([x for x in r if x["status"] != "skipped"])
        out["breaking_reported"] = len([x for x in r if x["status"] == "caught"])
        out["breaking_missed"] = [x["name"] for x in r if x["status"] == "MISSED"]
        js2 = os.path.join(td, "r.json")
        refs = sorted(glob.glob(os.path.join(VERIF, "refactors", "*", "patch.diff")))
        if refs:
            subprocess.run([sys.executable, mt, "--props", prop, "--jobs", "12", "--json", js2] + refs, env=env, capture_output=True, text=True)
            try:
                r2 = json.load(open(js2))
            except Exception:
                r2 = []
            out["refactorings"] = len([x for x in r2 if x["status"] != "skipped"])
            out["refactorings_silent"] = len([x for x in r2 if x["status"] == "MISSED"])
            out["refactorings_alarmed"] = [x["name"] for x in r2 if x["status"] in ("caught", "CRASHED")]
        # catch rate under refactoring: each seeded change of this property on top of every
        # refactoring of the same files (where the two patches compose and compile)
        js3 = os.path.join(td, "x.json")
        subprocess.run([sys.executable, os.path.join(VERIF, "tools", "cross.py"), "--jobs", "12", "--seeds", os.path.join(VERIF, "seeded", prop + "-*", "patch.diff"), "--json", js3], env=env, capture_output=True, text=True)
        try:
            r3 = json.load(open(js3))
            out["breaking_on_refactored_trees"] = r3["combinations"] - r3["skipped"]
            out["breaking_on_refactored_trees_reported"] = r3["caught"]
            out["breaking_on_refactored_trees_missed"] = r3["missed"]
        except Exception:
            pass
    return out


def run_property(prop, tier="quick", replay=None, extra_checks=None):
    t0 = time.time()
    mod = importlib.import_module("rules." + prop.lower())
    seed = int(os.environ.get("VERIF_SEED", "0") or 0)
    all_obs = []
    cfg_infos = []
    errors = []
    notes = []
    n_cfg_applicable = 0
    keep_alive = []
    for feats, dbg in configs_for(tier):
        key = extract.cfg_key(feats, dbg)
        if hasattr(mod, "applicable") and not mod.applicable(set(feats)):
            continue
        try:
            path, info = extract.extract(feats, dbg)
        except RuntimeError as e:
            # a configuration that does not build is reported, not silently skipped, when it
            # is one of the two quick configurations; power-set members that the crate does
            # not support at all (also on the pinned tree) are listed in the evidence.
            if tier == "quick" or set(feats) >= set(extract.DEFAULT):
                errors.append("configuration %s does not compile: %s" % (key, str(e)[-600:]))
            else:
                notes.append("configuration %s does not compile (skipped)" % key)
            continue
        def evaluate(presentation):
            fb = FactBase(path, presentation)
            keep_alive.append(fb)
            ctx = Ctx(fb, key, tier)
            rep = Report(prop, key)
            mod.check(ctx, rep)
            # floors: fail closed when fewer instances than confirmed by reading are matched
            floors = getattr(mod, "FLOORS", {})
            if hasattr(mod, "floors_for"):
                floors = mod.floors_for(set(feats))
            for rule, n in floors.items():
                got = rep.count(rule)
                if got < n:
                    rep.violation("floor", rule, "count", "rule %s matched %d instances, floor is %d (anchor missing / fail closed)" % (rule, got, n))
            return fb, rep

        # PRESENTATIONS.  A helper function that did not exist on the pinned tree can be shown to
        # the rules spliced into its callers or as a function of its own; both are the same
        # program, and an obligation discharged on either presentation is discharged.  The first
        # presentation on which every obligation holds is taken; when none is, the report is the
        # one of the default presentation.
        try:
            fb, rep = evaluate("spliced")
            rewritten = bool(fb.spliced or getattr(fb, "desugared", None) or getattr(fb, "unzipped", None) or getattr(fb, "flatten", None) or getattr(fb, "delegations", None))
            if any(o.status != "ok" for o in rep.obs) and (rewritten or fb.fresh_loopy):
                best = (sum(1 for o in rep.obs if o.status != "ok"), fb, rep, "spliced")
                for alt in (["loops"] if fb.fresh_loopy else []) + (["written"] if rewritten else []):
                    try:
                        fb2, rep2 = evaluate(alt)
                    except Exception:
                        continue
                    nbad = sum(1 for o in rep2.obs if o.status != "ok")
                    if nbad == 0:
                        rep2.notes.append("configuration %s decided on presentation '%s' (new helper functions %s)" % (key, alt, "inlined including their loops" if alt == "loops" else "kept as written"))
                        best = (0, fb2, rep2, alt)
                        break
                    if nbad < best[0]:
                        best = (nbad, fb2, rep2, alt)
                # nothing discharges everything: report the presentation that leaves the least open
                # (its findings are the closest to the construct that is actually wrong)
                if best[0] and best[3] != "spliced":
                    best[2].notes.append("configuration %s: no presentation discharges every obligation; reported on presentation '%s'" % (key, best[3]))
                fb, rep = best[1], best[2]
        except Exception:
            errors.append("rule engine error in %s [%s]: %s" % (prop, key, traceback.format_exc()[-1500:]))
            continue
        n_cfg_applicable += 1
        cfg_infos.append(dict(info, cfg=key, obligations=len(rep.obs)))
        all_obs.extend(rep.obs)
        notes.extend(rep.notes)
    if extra_checks and tier == "thorough":
        for fn in extra_checks:
            try:
                all_obs.extend(fn(prop))
            except Exception:
                errors.append("thorough extra check failed: %s" % traceback.format_exc()[-1500:])
    if tier == "thorough" and prop in ("C02", "C04", "C06", "C12", "C13"):
        try:
            import witness

            all_obs.extend(witness.obligations(prop))
        except Exception:
            errors.append("witness harness failed: %s" % traceback.format_exc()[-1500:])
    validation = None
    if tier == "thorough" and not os.environ.get("WOWSRP_NO_VALIDATION") and extract.REPO == "/repo":
        validation = checker_validation(prop)
    if hasattr(mod, "thorough_extra") and tier == "thorough":
        try:
            all_obs.extend(mod.thorough_extra(prop))
        except Exception:
            errors.append("thorough extra check failed: %s" % traceback.format_exc()[-1500:])
    if n_cfg_applicable == 0 and not errors:
        errors.append("no applicable configuration analysed")

    # ---- merge by key
    merged = {}
    for o in all_obs:
        m = merged.get(o.key)
        if m is None:
            merged[o.key] = {"ob": o, "cfgs": [o.cfg], "bad": [o] if o.status != "ok" else []}
        else:
            m["cfgs"].append(o.cfg)
            if o.status != "ok":
                m["bad"].append(o)
    known = [k for k in load_known() if k.get("property") == prop and k.get("status") == "known"]
    known_keys = {k["key"]: k for k in known}
    violations = []
    known_hit = []
    for key, m in merged.items():
        if m["bad"]:
            if key in known_keys:
                known_hit.append((known_keys[key], m["bad"][0]))
            else:
                violations.append(m["bad"][0])
    # ---- output
    lines = []
    rpdir = os.environ.get("WOWSRP_REPLAY_DIR") or os.path.join(VERIF, "replay")
    os.makedirs(rpdir, exist_ok=True)
    for k, o in known_hit:
        lines.append("KNOWN-FINDING: property=%s %s" % (prop, k.get("what", o.detail)))
    for o in violations:
        h = hashlib.sha256(o.key.encode()).hexdigest()[:10]
        rp = os.path.join(rpdir, "%s-%s.json" % (prop, h))
        with open(rp, "w") as f:
            json.dump({"property": prop, "key": o.key, "rule": o.rule, "function": o.fn, "role": o.role, "status": o.status, "detail": o.detail, "loc": o.loc, "cfg": o.cfg}, f, indent=1)
        lines.append("VIOLATION property=%s replay=%s" % (prop, rp))
        lines.append("  rule      %s.%s%s" % (prop, o.rule, "  (UNDECIDED construct: reported fail-closed)" if o.status == "undecided" else ""))
        lines.append("  function  %s   (%s)" % (o.fn, o.loc or "?"))
        lines.append("  finding   %s" % o.detail)
        lines.append("  key       %s   [cfg %s]" % (o.key, o.cfg))
    for e in errors:
        h = hashlib.sha256(e.encode()).hexdigest()[:10]
        rp = os.path.join(rpdir, "%s-err-%s.json" % (prop, h))
        with open(rp, "w") as f:
            json.dump({"property": prop, "error": e}, f, indent=1)
        lines.append("VIOLATION property=%s replay=%s" % (prop, rp))
        lines.append("  engine/extraction failure (fail closed): %s" % e)
    n_total = len(merged)
    n_ok = sum(1 for m in merged.values() if not m["bad"])
    # ---- evidence
    level = LEVELS.get(prop, "other")
    rules = {}
    for key, m in merged.items():
        r = m["ob"].rule
        rules.setdefault(r, {"instances": 0, "holding": 0})
        rules[r]["instances"] += 1
        if not m["bad"]:
            rules[r]["holding"] += 1
    samples = []
    seen_rules = set()
    for key, m in merged.items():
        o = m["ob"]
        if o.rule not in seen_rules or m["bad"]:
            seen_rules.add(o.rule)
            samples.append({"key": key, "status": (m["bad"][0].status if m["bad"] else "ok"), "detail": (m["bad"][0].detail if m["bad"] else o.detail)[:400], "loc": o.loc, "configs": len(m["cfgs"])})
    cov = {
        "explanation": getattr(mod, "EXPLANATION", "").strip() or "static rule instances over rustc MIR of /repo",
        "obligations": n_total,
        "discharged": n_ok,
        "checker_cmd": "./check %s --tier %s" % (prop, tier),
        "trusted_base": getattr(mod, "TRUSTED", []),
        "rule": "one evaluation = one rule instance (rule x function x role) on the MIR of one feature configuration; distinct = distinct instance keys",
        "evaluations": len(all_obs),
        "distinct_nontrivial": n_total,
        "samples": samples[:60],
        "rules": rules,
        "configurations": cfg_infos,
        "functions_analysed": sum(c["bodies"] for c in cfg_infos),
        "basic_blocks_analysed": sum(c["blocks"] for c in cfg_infos),
        "undecided": sum(1 for m in merged.values() if m["bad"] and m["bad"][0].status == "undecided"),
        "known_findings_hit": [k["key"] for k, _ in known_hit],
        "not_decided_clauses": getattr(mod, "NOT_DECIDED", []),
        "notes": sorted(set(notes))[:40],
        "exhaustive": False,
        "tree_hash": extract.tree_hash(),
    }
    if validation is not None:
        cov["checker_validation"] = validation
    ev = {
        "property_id": prop,
        "tier": tier,
        "seed": seed,
        "level": level,
        "coverage": cov,
        "assumptions": getattr(mod, "TRUSTED", []),
        "wall_s": round(time.time() - t0, 2),
        "violations": len(violations) + len(errors),
    }
    evdir = os.environ.get("WOWSRP_EVIDENCE_DIR") or os.path.join(VERIF, "evidence")
    os.makedirs(evdir, exist_ok=True)
    with open(os.path.join(evdir, prop + ".json"), "w") as f:
        json.dump(ev, f, indent=1)
    print("%s [%s]: %d rule instances, %d hold, %d violations, %d known findings, %d configurations, %.1fs" % (prop, tier, n_total, n_ok, len(violations) + len(errors), len(known_hit), len(cfg_infos), time.time() - t0))
    for l in lines:
        print(l)
    extract.prune_cache()
    return 1 if (violations or errors) else 0
