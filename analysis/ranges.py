"""A7 (as built): interval reasoning over symbolic terms with dominating-guard refinement,
iterator-length summaries, struct-field invariants and parameter-pointee invariants.

`Prover(ctx, se)` answers, for the body behind `se`, questions of the form "is a < b at block
bb for every execution" from (1) constant folding, (2) structural ranges of the terms (types,
casts, `% c`, `& c`, lengths of arrays / sub-slices / iterator chains, enumerate indices),
(3) facts on switch edges every path to bb must cross, (4) invariants of integer fields of
crate structs (join over every store found by the field-write census) and of `&mut` integer
parameters (join over every call site)."""
import cfg
from symex import walk, show
from rules import util
from rules.util import strip

INF = float("inf")
TYPE_RANGE = {"u8": (0, 255), "u16": (0, 65535), "u32": (0, 2**32 - 1), "u64": (0, 2**64 - 1), "usize": (0, 2**64 - 1), "bool": (0, 1), "i32": (-2**31, 2**31 - 1), "i64": (-2**63, 2**63 - 1), "isize": (-2**63, 2**63 - 1), "char": (0, 0x10FFFF), "u128": (0, 2**128 - 1)}
TYPE_RANGE.update({"std::num::Wrapping<u8>": (0, 255), "core::num::Wrapping<u8>": (0, 255), "std::num::Wrapping<u16>": (0, 65535), "std::num::Wrapping<u32>": (0, 2**32 - 1)})
TOP = (-INF, INF)


def join(a, b):
    if a is None:
        return b
    if b is None:
        return a
    return (min(a[0], b[0]), max(a[1], b[1]))


def meet(a, b):
    return (max(a[0], b[0]), min(a[1], b[1]))


class World:
    """cross-function caches: field invariants, parameter invariants"""

    def __init__(self, ctx):
        self.ctx = ctx
        self.field_inv = {}
        self.param_inv = {}
        self.in_progress = set()
        self.iterating = 0
        self.provers = {}

    def prover(self, path):
        if path not in self.provers:
            se = self.ctx.wrap.run(path)
            if se is None:
                return None
            self.provers[path] = Prover(self, se)
        return self.provers[path]

    # ---- invariant of integer field `idx` of struct `adt`
    def field_range(self, adt, idx):
        key = (adt, idx)
        if key in self.field_inv:
            return self.field_inv[key]
        if key in self.in_progress:
            return None  # bottom while computing (least fixpoint)
        fb = self.ctx.fb
        fs = fb.adt_fields(adt)
        if not fs or idx >= len(fs):
            return TOP
        fty = fb.ty(fs[idx]["ty"])
        if fty.k != "int" and not (fty.k == "adt" and fty.s in TYPE_RANGE):
            return TOP
        tr = TYPE_RANGE.get(fty.s, TOP)
        if fs[idx]["pub"]:
            self.field_inv[key] = tr
            return tr
        self.in_progress.add(key)
        self.iterating += 1
        cur = None
        try:
            for it in range(6):
                self.field_inv.pop(key, None)
                new = None
                self._tmp_inv = cur
                # temporarily publish the current approximation for self-references
                if cur is not None:
                    self.field_inv[key] = cur
                    self.in_progress.discard(key)
                for r in self._field_writes(adt, idx):
                    if r is None or r[0] > r[1]:
                        continue
                    new = join(new, r)
                if cur is not None:
                    self.field_inv.pop(key, None)
                    self.in_progress.add(key)
                if new is None:
                    new = tr
                new = meet(new, tr) if new != TOP else tr
                if new == cur:
                    break
                cur = join(cur, new)
            else:
                # the ascending iteration did not settle (e.g. a counter reduced modulo a
                # constant climbs one step per round): descend from the type range instead -
                # every iterate of the descending chain is a sound invariant
                cur = tr
                for it in range(4):
                    self.field_inv[key] = cur
                    self.in_progress.discard(key)
                    new = None
                    for r in self._field_writes(adt, idx):
                        if r is None or r[0] > r[1]:
                            continue
                        new = join(new, r)
                    self.field_inv.pop(key, None)
                    self.in_progress.add(key)
                    new = meet(new, cur) if new is not None and new != TOP else cur
                    if new == cur:
                        break
                    cur = new
        finally:
            self.in_progress.discard(key)
            self.iterating -= 1
        res = cur if cur is not None else tr
        if not self.iterating:
            self.field_inv[key] = res
        return res

    def _field_writes(self, adt, idx):
        """ranges of every value stored to the field anywhere in the crate"""
        fb = self.ctx.fb
        out = []
        absorbed = fb.absorbed() if hasattr(fb, "absorbed") else set()
        for b in fb.bodies.values():
            if b.derived():
                continue
            if b.path in absorbed:
                continue        # a helper spliced into every caller: its writes are seen there, with the callers' values
            touches = False
            for bi in b.normal_blocks():
                for s in b.blocks[bi]["stmts"]:
                    if s["k"] == "assign":
                        if s["rv"]["k"] == "aggregate" and s["rv"].get("path") == adt:
                            touches = True
                        if _place_touches(fb, b, s["place"], adt, idx):
                            touches = True
                        if s["rv"]["k"] == "ref" and s["rv"].get("mut") and _place_touches(fb, b, s["rv"]["place"], adt, idx, borrow=True):
                            touches = True
            if not touches:
                continue
            pr = self.prover(b.path)
            if pr is None:
                out.append(TOP)
                continue
            se = pr.se
            for (bi, si), (loc, v) in se.assigns.items():
                if v[0] == "agg" and v[1] == "adt" and v[2] == adt and idx < len(v[4]):
                    out.append(pr.rng(v[4][idx], bi))
                root, path = se.split(loc)
                # direct store to the field
                if path and path[-1] == ("f", idx) and _loc_is_adt(self.ctx, se, loc[1] if loc[0] == "field" else None, adt):
                    out.append(pr.rng(v, bi))
            # mutable borrows handed to callees: the callee's effect on that parameter
            for bb, info in se.term_info.items():
                if info.get("k") != "call":
                    continue
                for ai, a in enumerate(info.get("locargs", ())):
                    if a[0] == "ref" and a[2] and a[1][0] == "field" and a[1][2] == idx and _loc_is_adt(self.ctx, se, a[1][1], adt):
                        callee = info["name"]
                        cp = self.prover(callee)
                        if cp is None:
                            out.append(TOP)
                            continue
                        eff = cp.se.param_effects().get(ai + 1)
                        if eff is None:
                            continue
                        out.append(cp.rng_final(eff))
        return out

    # ---- invariant of the pointee of `&mut <int>` / by-value int parameter k of fn
    def param_range(self, fn, k, pointee):
        key = (fn, k, pointee)
        if key in self.param_inv:
            return self.param_inv[key]
        if key in self.in_progress:
            return None
        self.in_progress.add(key)
        fb = self.ctx.fb
        res = None
        try:
            b = fb.body(fn)
            callers = util.callers_of(fb, fn)
            if b is None or not callers or b.reachable() and b.is_pub():
                res = TOP
            else:
                for cb, bi, t in callers:
                    pr = self.prover(cb.path)
                    if pr is None:
                        res = TOP
                        break
                    info = pr.se.term_info.get(bi)
                    if info is None or "locargs" not in info and "args" not in info:
                        res = TOP
                        break
                    la = info.get("locargs", info["args"])
                    if k - 1 >= len(la):
                        res = TOP
                        break
                    a = la[k - 1]
                    if pointee:
                        if a[0] == "ref":
                            st = pr.se.in_state.get(bi, {})
                            # value of the pointee at the call: read through the block's state
                            val = pr.se.call_old.get((info["site"], k - 1))
                            if val is None:
                                val = pr.se.read(pr.se.out_state.get(bi, {}), a[1]) if False else a[1]
                            res = join(res, pr.rng(val, bi))
                        else:
                            res = TOP
                            break
                    else:
                        res = join(res, pr.rng(a, bi))
        finally:
            self.in_progress.discard(key)
        if res is None:
            res = TOP
        if not self.iterating and not self.in_progress:
            self.param_inv[key] = res
        return res


def _param_len_range(self, fn, k):
    """range of the length of the slice handed in as parameter k of a function that is not
    reachable from outside the crate: the join over all its call sites"""
    key = (fn, k, "len")
    if key in self.param_inv:
        return self.param_inv[key]
    if key in self.in_progress:
        return None
    self.in_progress.add(key)
    fb = self.ctx.fb
    res = None
    try:
        b = fb.body(fn)
        callers = util.callers_of(fb, fn)
        if b is None or not callers or b.reachable() and b.is_pub():
            res = (0, INF)
        else:
            for cb, bi, t in callers:
                pr = self.prover(cb.path)
                info = pr.se.term_info.get(bi) if pr is not None else None
                if info is None or k - 1 >= len(info.get("args", ())):
                    res = (0, INF)
                    break
                a = info["args"][k - 1]
                val = pr.se.call_old.get((info["site"], k - 1)) if strip(a)[0] == "mutref" or a[0] == "mutref" else (a[1] if a[0] in ("refv", "ref") else a)
                if val is None:
                    res = (0, INF)
                    break
                res = join(res, pr.len_range(val, bi))
    finally:
        self.in_progress.discard(key)
    if res is None:
        res = (0, INF)
    if not self.iterating and not self.in_progress:
        self.param_inv[key] = res
    return res


World.param_len_range = _param_len_range


def _place_touches(fb, b, p, adt, idx, borrow=False):
    ty = b.local_ty(p["l"])
    for e in p["p"]:
        if ty is None:
            return False
        if e == "*":
            ty = ty.to
        elif "f" in e:
            if ty.k == "adt" and ty.path == adt and e["f"] == idx:
                return True
            ty = fb.ty(e["ty"])
        elif "i" in e or "ci" in e:
            ty = ty.elem
    return False


def _loc_is_adt(ctx, se, loc, adt):
    if loc is None:
        return False
    p = util.adt_path_of(ctx, se, strip(loc)) if loc[0] != "local" else None
    if loc[0] == "local":
        ty = se.body.local_ty(loc[1]).peel_refs()
        p = ty.path if ty.k == "adt" else None
    return p == adt


class Prover:
    def __init__(self, world, se):
        self.w = world
        self.ctx = world.ctx
        self.fb = world.ctx.fb
        self.se = se
        self.body = se.body
        self._facts = {}
        self._idom = None
        self._phi_stack = set()

    # ---------------------------------------------------------------- facts
    def facts(self, bb):
        """[(discriminant term, value)] for switch edges that every entry->bb path crosses"""
        if bb in self._facts:
            return self._facts[bb]
        out = []
        for sb, info in self.se.term_info.items():
            if info.get("k") != "switch":
                continue
            succ = [(v, t) for v, t in info["targets"]] + [("else", info["otherwise"])]
            for v, t in succ:
                if sb == bb and False:
                    continue
                if t == bb or cfg.must_pass_edge(self.body, (sb, t), bb):
                    # edge (sb -> t) with several values mapping to the same target is ambiguous
                    same = [vv for vv, tt in succ if tt == t]
                    if len(same) != 1:
                        continue
                    if not cfg.must_pass_edge(self.body, (sb, t), bb) and t != bb:
                        continue
                    if t == bb and len(self.body.preds()[bb]) != 1:
                        if not cfg.must_pass_edge(self.body, (sb, t), bb):
                            continue
                    if v == "else":
                        vals = [vv for vv, _ in info["targets"]]
                        out.append((info["discr"], ("not", tuple(vals))))
                    else:
                        out.append((info["discr"], ("is", v)))
        # a switch on a join of constants (`matches!(x, a..=b)` leaves a boolean phi): the value
        # taken tells which predecessors of the join were possible; what holds at all of them
        # holds here
        if not getattr(self, "_in_phi_facts", False):
            self._in_phi_facts = True
            try:
                for d, v in list(out):
                    dd = strip(d)
                    if dd[0] == "phi" and dd[1] == self.se.fn and (dd[2], dd[3]) in self.se.phi_inputs and v[0] in ("is", "not"):
                        ins = self.se.phi_inputs[(dd[2], dd[3])]
                        if not all(strip(x)[0] == "int" for x in ins.values()):
                            continue
                        if v[0] == "is":
                            preds = [p_ for p_, x in ins.items() if strip(x)[1] == v[1]]
                        else:
                            preds = [p_ for p_, x in ins.items() if strip(x)[1] not in v[1]]
                        if not preds:
                            continue
                        common = None
                        for p_ in preds:
                            fs = set((f_[0], f_[1]) for f_ in self.facts(p_))
                            # the edge p_ -> join itself, when p_ ends in a switch, is not needed:
                            # facts(p_) already holds everything established on the way to p_
                            common = fs if common is None else (common & fs)
                        for f_ in sorted(common or (), key=str):
                            if f_ not in out:
                                out.append(f_)
            finally:
                self._in_phi_facts = False
        for ab, info in self.se.term_info.items():
            if info.get("k") == "assert" and ab != bb and cfg.must_pass_block(self.body, ab, bb):
                out.append((info["cond"], ("is", 1 if info["expected"] else 0)))
        self._facts[bb] = out
        return out

    def bool_facts(self, bb):
        """comparison facts known true at bb: list of (op, a, b) over numnorm'ed terms"""
        res = []

        def ok_payload(x):
            """the `Ok(v)` payload of uN::try_from(y) is y as a number (it exists only where y fits)"""
            if x[0] == "field" and x[2] == 0 and x[1][0] == "downcast" and x[1][2] == 0 and util.is_call(x[1][1]) and "TryFrom<" in x[1][1][1] and x[1][1][1].endswith("::try_from") and " for u" in x[1][1][1] and len(x[1][1][2]) == 1:
                return util.numnorm(x[1][1][2][0])
            return None

        def one(d, v, depth=0):
            d = util.map_term(util.numnorm(d), ok_payload)
            truth = None
            if v[0] == "is":
                truth = bool(v[1])
            elif v[0] == "not" and v[1] == (0,):
                truth = True
            if truth is None:
                return
            while d[0] == "unop" and d[1] == "Not":
                truth = not truth
                d = d[2]
            if d[0] == "discr" and util.is_call(d[1], "std::option::Option::<T>::filter") and len(d[1][2]) == 2 and v == ("is", 1) and depth < 3:
                # opt.filter(pred) is Some exactly when opt is Some(p) and pred(&p) holds.  With
                # opt = uN::try_from(e).ok(): e fits uN and p is e as a number; pred is read off the
                # body of the (capture-free, loop-free) closure with its parameter standing for p
                X, cl = strip(d[1][2][0]), d[1][2][1]
                p_ = None
                if util.is_call(X, "std::result::Result::<T, E>::ok") and len(X[2]) == 1:
                    tf = strip(X[2][0])
                    if util.is_call(tf) and "TryFrom<" in tf[1] and tf[1].endswith("::try_from") and " for " in tf[1] and len(tf[2]) == 1:
                        tr_ = TYPE_RANGE.get(tf[1].split(" for ")[-1].split(">")[0])
                        if tr_ is not None:
                            p_ = util.numnorm(tf[2][0])
                            res.append(("Le", p_, ("int", tr_[1], "usize")))
                            res.append(("Ge", p_, ("int", tr_[0], "usize")))
                if p_ is not None and cl[0] == "agg" and cl[1] == "closure" and not cl[4]:
                    cse = self.ctx.flat.run(cl[2])
                    if cse is not None and not cfg.back_edges(cse.body):
                        def sub(t_):
                            if t_ in (("param", 2), ("deref", ("param", 2)), ("refv", ("deref", ("param", 2)))):
                                return p_
                            return None
                        one(util.map_term(util.numnorm(cse.ret), sub), ("is", 1), depth + 1)
                return
            if d[0] == "discr" and util.is_call(d[1]) and "TryFrom<" in d[1][1] and d[1][1].endswith("::try_from") and " for " in d[1][1] and v[0] == "is" and v[1] == 0:
                # uN::try_from(x) is Ok exactly when x fits uN
                tgt = d[1][1].split(" for ")[-1].split(">")[0]
                tr_ = TYPE_RANGE.get(tgt)
                if tr_ is not None:
                    x_ = util.numnorm(d[1][2][0])
                    res.append(("Le", x_, ("int", tr_[1], "usize")))
                    res.append(("Ge", x_, ("int", tr_[0], "usize")))
                return
            if d[0] == "discr" and util.is_call(d[1]) and d[1][1].endswith("<impl [T]>::get") and len(d[1][2]) == 2 and strip(d[1][2][1])[0] != "agg" and v[0] == "is" and v[1] in (0, 1):
                # s.get(i) is Some exactly when i < s.len()
                res.append(("Lt" if v[1] == 1 else "Ge", util.numnorm(d[1][2][1]), ("len", util.numnorm(d[1][2][0]))))
                return
            if d[0] == "binop" and d[1] in ("Lt", "Le", "Gt", "Ge", "Eq", "Ne"):
                op = d[1]
                if not truth:
                    op = {"Lt": "Ge", "Le": "Gt", "Gt": "Le", "Ge": "Lt", "Eq": "Ne", "Ne": "Eq"}[op]
                res.append((op, d[2], d[3]))
            elif util.is_call(d, "core::str::<impl str>::is_empty") or util.is_call(d, "core::slice::<impl [T]>::is_empty"):
                res.append(("Eq" if truth else "Ne", ("len", d[2][0]), ("int", 0, "usize")))
            elif util.is_call(d) and d[1] in ("<std::option::Option<T> as std::cmp::PartialEq>::eq", "<std::option::Option<T> as std::cmp::PartialEq>::ne") and len(d[2]) == 2 and truth == d[1].endswith("::eq"):
                # s.get(i) == Some(..) holds: i < s.len()
                ops_ = [strip(x_) for x_ in d[2]]
                g_ = [o_ for o_ in ops_ if util.is_call(o_) and o_[1].endswith("<impl [T]>::get") and len(o_[2]) == 2 and strip(o_[2][1])[0] != "agg"]
                sm_ = [o_ for o_ in ops_ if o_[0] == "agg" and o_[2] == "std::option::Option" and o_[3] == 1]
                if len(g_) == 1 and len(sm_) == 1:
                    res.append(("Lt", util.numnorm(g_[0][2][1]), ("len", util.numnorm(g_[0][2][0]))))
            elif truth and util.is_call(d) and d[1].endswith("::contains") and ("std::ops::RangeInclusive" in d[1] or "std::ops::Range::" in d[1]) and len(d[2]) == 2:
                # (a..=b).contains(&x) / (a..b).contains(&x) holds: a <= x and x <= b (x < b)
                r_ = strip(d[2][0])
                lo_ = hi_ = None
                if util.is_call(r_, "std::ops::RangeInclusive::<Idx>::new") and len(r_[2]) == 2:
                    lo_, hi_, op_ = r_[2][0], r_[2][1], "Le"
                elif r_[0] == "agg" and r_[2] == "std::ops::RangeInclusive":
                    lo_, hi_, op_ = r_[4][0], r_[4][1], "Le"
                elif r_[0] == "agg" and r_[2] == "std::ops::Range":
                    lo_, hi_, op_ = r_[4][0], r_[4][1], "Lt"
                if lo_ is not None:
                    x_ = util.numnorm(d[2][1])
                    res.append(("Ge", x_, util.numnorm(lo_)))
                    res.append((op_, x_, util.numnorm(hi_)))
        for d0, v0 in self.facts(bb):
            one(d0, v0)
        # a switch on an integer value itself (`match n { 0 => .., _ => .. }`)
        for d, v in self.facts(bb):
            d = util.map_term(util.numnorm(d), ok_payload)
            if d[0] in ("len",) or (d[0] == "cast" and d[1] == "IntToInt") or (d[0] in ("field", "param") and False):
                if v[0] == "is" and isinstance(v[1], int):
                    res.append(("Eq", d, ("int", v[1], "usize")))
                elif v[0] == "not":
                    for x_ in v[1]:
                        if isinstance(x_, int):
                            res.append(("Ne", d, ("int", x_, "usize")))
        return res

    # ---------------------------------------------------------------- ranges
    def rng_final(self, t):
        """range of a term that describes the function's final state (no block context)"""
        return self.rng(t, None)

    def rng(self, t, bb, depth=0):
        r = self._rng(util.numnorm(t), bb, depth)
        return r

    def ty_range_of_local(self, n):
        ty = self.body.local_ty(n)
        if ty is None:
            return TOP
        ty = ty.peel_refs() if ty.k == "ref" else ty
        return TYPE_RANGE.get(ty.s, TOP)

    def _rng(self, t, bb, depth):
        if depth > 24:
            return TOP
        k = t[0]
        r = self._rng0(t, bb, depth)
        # refine with dominating facts about exactly this term
        if bb is not None and k not in ("int",):
            for op, a, b in self.bool_facts(bb):
                # parity facts: t % 2 ==/!= 0|1 (congruence refinement of the interval ends)
                if a[0] == "binop" and a[1] == "Rem" and a[2] == t and a[3][:2] == ("int", 2) and b[0] == "int" and b[1] in (0, 1) and op in ("Eq", "Ne"):
                    odd = (op == "Ne") == (b[1] == 0)
                    lo, hi = r
                    want = 1 if odd else 0
                    if lo != -INF and lo != INF and int(lo) % 2 != want:
                        lo += 1
                    if hi != INF and hi != -INF and int(hi) % 2 != want:
                        hi -= 1
                    r = (lo, hi)
                    continue
                if a == t:
                    rb = self._rng0(b, bb, depth + 1) if b != t else TOP
                    r = _refine(r, op, rb)
                elif b == t:
                    ra = self._rng0(a, bb, depth + 1) if a != t else TOP
                    r = _refine(r, _flip(op), ra)
            # a fact about `t as uN` is a fact about t once t is known to fit uN
            for op, a, b in self.bool_facts(bb):
                for x, y, o in ((a, b, op), (b, a, _flip(op))):
                    if x[0] == "cast" and x[1] == "IntToInt" and x[2] == t and x[3] in TYPE_RANGE:
                        tr_ = TYPE_RANGE[x[3]]
                        if r[0] >= tr_[0] and r[1] <= tr_[1]:
                            ry = self._rng0(y, bb, depth + 1)
                            r = _refine(r, o, ry)
        return r

    def _rng0(self, t, bb, depth):
        k = t[0]
        d = depth + 1
        if k == "int":
            return (t[1], t[1])
        if k == "field" and self.body.kind == "Closure" and t[1] in (("param", 1), ("deref", ("param", 1))):
            cr = self._captured_scalar_range(t, d)
            if cr is not None:
                return cr
        if k == "param":
            tr = self.ty_range_of_local(t[1])
            if self.body.kind == "Closure" and t[1] == 2:
                fr = self.from_fn_index_range()
                if fr is not None:
                    return fr
            pr = self.w.param_range(self.se.fn, t[1], False)
            return meet(tr, pr) if pr is not None and pr != TOP else tr
        if k == "cast":
            inner = self._rng(t[2], bb, d)
            if inner[0] > inner[1]:
                return inner
            tr = TYPE_RANGE.get(t[3], TOP)
            if inner[0] >= tr[0] and inner[1] <= tr[1]:
                return inner
            return tr
        if k == "len":
            return self.len_range(t[1], bb, d)
        if k == "field" and t[1][0] == "binop" and t[1][1].endswith("WithOverflow") and t[2] == 0:
            return self._binop(t[1][1].replace("WithOverflow", ""), t[1][2], t[1][3], bb, d)
        if k == "binop":
            return self._binop(t[1], t[2], t[3], bb, d)
        if k == "phi":
            return self._phi(t, bb, d)
        if k == "field":
            cr = self.closure_item_range(t)
            if cr is not None:
                return cr
            b0 = strip(t[1])
            if b0[0] == "phi" and isinstance(t[2], int) and ("fld", b0[2], b0[3], t[2]) not in self._phi_stack:
                cr = self.counted(t, bb, d)
                if cr is not None:
                    return cr
            if b0[0] == "phi" and b0[1] == self.se.fn and (b0[2], b0[3]) in self.se.phi_inputs and isinstance(t[2], int) and ("fld", b0[2], b0[3], t[2]) not in self._phi_stack:
                # component of a value that is a tuple / struct built on every incoming path
                # (`let (bytes, length) = if large { (a, 5) } else { (b, 4) }`): join of the components
                ins = [strip(v) for v in self.se.phi_inputs[(b0[2], b0[3])].values() if strip(v)[0] != "uninit"]
                if ins and all(v[0] == "agg" and v[1] in ("tuple", "adt") and t[2] < len(v[4]) for v in ins):
                    self._phi_stack.add(("fld", b0[2], b0[3], t[2]))
                    try:
                        r = None
                        for v in ins:
                            r = join(r, self._rng(util.numnorm(v[4][t[2]]), None, d + 1))
                        return r
                    finally:
                        self._phi_stack.discard(("fld", b0[2], b0[3], t[2]))
            ri = self.range_item(t)
            if ri is not None:
                ra, rb = self._rng(ri[0], bb, d), self._rng(ri[1], bb, d)
                return (ra[0], rb[1] - 1)
            base = t[1]
            p = util.adt_path_of(self.ctx, self.se, base)
            if p is None:
                bt = self.type_of(base)
                bt = bt.peel_refs() if bt is not None else None
                p = bt.path if bt is not None and bt.k == "adt" else None
            if p and p in self.fb.adts:
                r = self.w.field_range(p, t[2])
                if r is not None:
                    return r
                return (INF, -INF)  # bottom during fixpoint
            return self._by_type(t)
        if k == "call":
            n = t[1]
            if n.endswith("ExactSizeIterator::len"):
                return self.iter_len(t[2][0], bb, d)
            if n in ("std::iter::Iterator::count",) or n.endswith("as std::iter::Iterator>::count"):
                l = self.iter_len(t[2][0], bb, d)
                return (0, l[1])
            if n in ("core::slice::<impl [T]>::len", "std::vec::Vec::<T, A>::len", "std::array::<impl [T; N]>::len"):
                return self.len_range(t[2][0], bb, d)
            if n == "std::option::Option::<T>::unwrap_or":
                # position(..).unwrap_or(d): an index below the iterator's length, or d
                src = util.strip(t[2][0])
                if util.is_call(src) and (src[1] == "std::iter::Iterator::position" or src[1].endswith("as std::iter::Iterator>::position")):
                    it = src[2][0]
                    if util.strip(it)[0] == "mutref":
                        it = self.se.call_old.get((src[3][:2], 0))
                    if it is not None:
                        l = self.iter_len(it, bb, d)
                        dr = self._rng(t[2][1], bb, d)
                        if l[1] != INF:
                            return (min(0, dr[0]), max(l[1] - 1, dr[1]))
                return self._by_type(t)
            if n in ("<T as std::convert::Into<U>>::into", "<usize as std::convert::From<u8>>::from") or n.endswith("as std::convert::From<u8>>::from") or n.startswith("std::convert::num::<impl std::convert::From<") or n.startswith("core::convert::num::<impl std::convert::From<"):
                inner = self._rng(t[2][0], bb, d)
                tr = self._by_type(t)
                return meet(inner, tr) if inner[0] >= tr[0] and inner[1] <= tr[1] else tr
            if n.startswith("core::num::<impl u") and n.split("::")[-1] in ("wrapping_add", "wrapping_sub", "wrapping_mul"):
                # (also the modelled operators of Wrapping<uN>, whose call site returns `()` for `+=`)
                ity = n[len("core::num::<impl "):].split(">")[0]
                if ity in TYPE_RANGE:
                    return TYPE_RANGE[ity]
            return self._by_type(t)
        if k in ("index", "cindex"):
            # element of a byte array / slice
            return self._elem_range(t)
        if k == "after" and util.is_call(t[1]) and len(t[1]) > 3:
            # a scalar that a closure handed to this call captured by `&mut` (a counter advanced in
            # `iter.fold(.., |..| { *index = ..; })`): afterwards it is what it was, or something the
            # closure stored there
            r_ = self._after_closure_call(t, bb, d)
            if r_ is not None:
                return r_
            return TOP
        if k == "after" or k == "upd":
            return TOP
        if k == "deref" or (k == "field" and self.body.kind == "Closure" and t[1] in (("param", 1), ("deref", ("param", 1)))):
            cr = self._captured_scalar_range(t, d)
            if cr is not None:
                return cr
        if k == "deref":
            # pointee of a reference parameter
            if t[1][0] == "param":
                n = t[1][1]
                ty = self.body.local_ty(n)
                tr = TYPE_RANGE.get(ty.to.s, TOP) if ty is not None and ty.k == "ref" else TOP
                pr = self.w.param_range(self.se.fn, n, True)
                if pr is None:
                    return (INF, -INF)
                return meet(tr, pr) if pr != TOP else tr
            return TOP
        return TOP

    # ---------------------------------------------------------------- scalars captured by closures
    def _closure_stores(self, cpath, k):
        """join of the ranges of everything the closure `cpath` stores to the scalar behind its
        capture k (a `&mut` to a reference held by the parent), None when it stores nothing there"""
        key = ("cstore", cpath, k)
        if key in self.w.__dict__.setdefault("_cstores", {}):
            return self.w._cstores[key]
        # while computing: nothing is assumed about the old value beyond its type
        cb = self.fb.body(cpath)
        cty = cb.local_ty(1).peel_refs() if cb is not None and cb.local_ty(1) is not None else None
        ups = cty.d.get("upvars", []) if cty is not None and cty.k == "closure" else []
        sty = self.fb.ty(ups[k]) if k < len(ups) else None
        while sty is not None and sty.k == "ref":
            sty = sty.to
        self.w._cstores[key] = TYPE_RANGE.get(sty.s, TOP) if sty is not None else TOP
        cp = self.w.prover(cpath)
        out = None
        if cp is not None:
            loc = ("deref", ("deref", ("field", ("deref", ("param", 1)), k)))
            for bb_, st_ in cp.se.final_states.items():
                v = st_.get(loc)
                if v is not None and v != loc:
                    out = join(out, cp.rng(v, None))
        self.w._cstores[key] = out
        return out

    def _after_closure_call(self, t, bb, d):
        call, old = t[1], t[3]
        info = self.se.term_info.get(call[3][1], {}) if call[3][0] == self.se.fn else {}
        cls = [a for a in info.get("locargs", ()) if isinstance(a, tuple) and a and a[0] == "agg" and len(a) > 4 and a[1] == "closure"]
        if not cls:
            return None
        so = strip(old)
        if so[0] == "param" and self.body.local_ty(so[1]) is not None and self.body.local_ty(so[1]).k == "ref":
            # (normalisation drops the dereference: what a `&mut` parameter pointed to at entry is meant)
            so = ("deref", so)
            r = self._rng0(so, bb, d)
        else:
            r = self._rng(old, bb, d)
        st_call = self.se.in_state.get(call[3][1], {})

        def cap_target(c):
            """the place a `&mut` capture leads to: the pointee of a parameter / local reference it captured, or the captured local itself"""
            L = c[1]
            if L[0] == "local":
                v = strip(self.se.read(st_call, L))
                if v[0] == "param":
                    return ("deref", v)
                if v[0] == "ref":
                    return v[1]
            return L

        for cl in cls:
            muts = [(k_, c) for k_, c in enumerate(cl[4]) if c[0] == "ref" and len(c) > 2 and c[2]]
            # the pointee asked about is still what the parameter pointed to at entry: only the
            # capture that leads to that very place can have written it (two `&mut` parameters do
            # not alias); otherwise every mutable capture is taken into account
            if so[0] == "deref" and so[1][0] == "param" and any(cap_target(c) == so for _, c in muts):
                muts = [(k_, c) for k_, c in muts if cap_target(c) == so]
            for k_, c in muts:
                s_ = self._closure_stores(cl[2], k_)
                if s_ is not None:
                    r = join(r, s_)
        return r

    def _captured_scalar_range(self, t, d):
        """in a closure body: the scalar behind capture k (`**env.k`): what the parent had there when
        the closure was made, or what the closure itself stored"""
        if self.body.kind != "Closure":
            return None
        x = t
        while x[0] == "deref":
            x = x[1]
        if not (x[0] == "field" and x[1] in (("param", 1), ("deref", ("param", 1))) and isinstance(x[2], int)) or x is t and False:
            return None
        k = x[2]
        cty = self.body.local_ty(1)
        cty = cty.peel_refs() if cty is not None else None
        ups = cty.d.get("upvars", []) if cty is not None and cty.k == "closure" else []
        if k >= len(ups):
            return None
        uty = self.fb.ty(ups[k])
        # only a captured reference to a reference to an integer (`&mut &mut u8`, `&&u8`): the scalar behind
        if not (uty.k == "ref" and uty.to is not None and uty.to.k == "ref" and uty.to.to is not None and uty.to.to.k == "int"):
            return None
        parent = self.body.d.get("parent")
        pse = self.ctx.wrap.run(parent) if parent else None
        pp = self.w.prover(parent) if parent else None
        if pse is None or pp is None:
            return None
        made = [(bi, v) for (bi, si), (loc, v) in pse.assigns.items() if v[0] == "agg" and v[1] == "closure" and v[2] == self.se.fn]
        if len(made) != 1 or k >= len(made[0][1][4]):
            return None
        bi, cl = made[0]
        c = cl[4][k]
        if c[0] != "ref":
            return None
        held = pse.read(pse.in_state.get(bi, {}), c[1])        # the reference the parent holds
        tgt = held[1] if held[0] == "ref" else ("deref", held)
        if tgt[0] == "deref" and tgt[1][0] == "param":
            r_in = pp._rng0(tgt, bi, d)           # (numnorm would drop the deref: the pointee is meant)
        else:
            r_in = pp._rng(util.numnorm(tgt), bi, d)
        r_in = meet(r_in, TYPE_RANGE.get(uty.to.to.s, TOP))
        own = self._closure_stores(self.se.fn, k)
        return join(r_in, own) if own is not None else r_in

    def _by_type(self, t):
        if t[0] == "call" and len(t) > 3:
            b = self.fb.body(t[3][0])
            if b is not None:
                term = b.blocks[t[3][1]]["term"]
                from symex import place_ty

                ty = place_ty(self.fb, b, term["dest"])
                if ty is not None:
                    return TYPE_RANGE.get(ty.s, TOP)
        if t[0] == "field":
            # enumerate index: handled by caller through iter_index_range
            r = self.iter_index_range(t)
            if r is not None:
                return r
            p = util.adt_path_of(self.ctx, self.se, t[1])
            fs = self.fb.adt_fields(p) if p else None
            if fs and t[2] < len(fs):
                return TYPE_RANGE.get(self.fb.ty(fs[t[2]]["ty"]).s, TOP)
            if t[2] == 0 and t[1][0] == "downcast" and t[1][2] == 1 and t[1][1][0] == "call" and len(t[1][1]) > 3:
                # the `Some(x)` payload of a call that returns Option<uN> (an iterator's next()): a uN
                b = self.fb.body(t[1][1][3][0])
                if b is not None:
                    from symex import place_ty

                    ty = place_ty(self.fb, b, b.blocks[t[1][1][3][1]]["term"]["dest"])
                    if ty is not None and ty.s.startswith("std::option::Option<") and ty.s.endswith(">"):
                        return TYPE_RANGE.get(ty.s[len("std::option::Option<"):-1], TOP)
        return TOP

    def _elem_range(self, t):
        return (0, 255) if True else TOP

    def _binop(self, op, a, b, bb, d):
        ra, rb = self._rng(a, bb, d), self._rng(b, bb, d)
        if ra[0] > ra[1] or rb[0] > rb[1]:
            return (INF, -INF)
        if op in ("Add", "AddUnchecked"):
            # x + (x & 1) and x + x % 2 round x up to the next even number
            for x, y in ((a, b), (b, a)):
                if y[0] == "binop" and ((y[1] == "BitAnd" and y[3][:2] == ("int", 1)) or (y[1] == "Rem" and y[3][:2] == ("int", 2))) and y[2] == x:
                    rx = self._rng(x, bb, d)
                    hi = rx[1] if rx[1] == INF or int(rx[1]) % 2 == 0 else rx[1] + 1
                    return (rx[0], hi)
            return (ra[0] + rb[0], ra[1] + rb[1])
        if op in ("Sub", "SubUnchecked"):
            return (ra[0] - rb[1], ra[1] - rb[0])
        if op in ("Mul", "MulUnchecked"):
            c = [ra[0] * rb[0], ra[0] * rb[1], ra[1] * rb[0], ra[1] * rb[1]] if INF not in (abs(ra[0]), abs(ra[1]), abs(rb[0]), abs(rb[1])) else None
            return (min(c), max(c)) if c else (0, INF) if ra[0] >= 0 and rb[0] >= 0 else TOP
        if op == "Rem":
            if rb[0] > 0 and ra[0] >= 0:
                return (0, min(ra[1], rb[1] - 1))
            return TOP
        if op == "Div":
            if rb[0] > 0 and ra[0] >= 0:
                return (ra[0] // rb[1] if rb[1] != INF else 0, ra[1] // rb[0] if ra[1] != INF else INF)
            return TOP
        if op == "BitAnd":
            hi = min(x for x in (ra[1], rb[1]) if x >= 0) if ra[0] >= 0 and rb[0] >= 0 else INF
            return (0, hi)
        if op in ("BitOr", "BitXor"):
            if ra[0] >= 0 and rb[0] >= 0 and ra[1] != INF and rb[1] != INF:
                m = max(ra[1], rb[1])
                bits = int(m).bit_length()
                return (0, (1 << bits) - 1)
            return TOP
        if op in ("Lt", "Le", "Gt", "Ge", "Eq", "Ne"):
            return (0, 1)
        if op == "Shr":
            return (0, ra[1]) if ra[0] >= 0 else TOP
        if op == "Shl":
            # the result wraps at the type width: never above the unwrapped value
            if ra[0] >= 0 and rb[0] >= 0 and ra[1] != INF and rb[1] != INF and rb[1] < 128:
                return (0, int(ra[1]) << int(rb[1]))
            return TOP
        return TOP

    def counted(self, c, bb, d=0):
        """The counter lemma.  c is a value carried round a `for` loop - the phi of a local at the
        loop head, or a field of the phi of a struct - that starts at a constant c0 and is
        increased by exactly 1 on every way round.  The loop's iterator yields at most M items,
        so c is in [c0, c0 + M - 1] inside the body (an item was obtained: fewer than M were
        consumed before) and in [c0, c0 + M] anywhere else.  None when c is not such a counter."""
        c = strip(c)
        ph, fld = (c, None)
        if c[0] == "field" and isinstance(c[2], int) and strip(c[1])[0] == "phi":
            ph, fld = strip(c[1]), c[2]
        if ph[0] != "phi" or ph[1] != self.se.fn or (ph[2], ph[3]) not in self.se.phi_inputs or ph[4] != ():
            return None
        if not hasattr(self, "_loops_cache"):
            self._loops_cache = {lp["next_bb"]: lp for lp in util.for_loops(self.ctx, self.se)}
        lp = self._loops_cache.get(ph[2])
        if lp is None or lp["init_call"] is None:
            return None
        import cfg as _cfg
        loop = set()
        for e in _cfg.back_edges(self.body):
            if e[1] == ph[2]:
                loop |= _cfg.natural_loop(self.body, e)
        c0 = None
        for pred, v in self.se.phi_inputs[(ph[2], ph[3])].items():
            v = strip(v)
            if fld is not None:
                # component fld of the struct value flowing in
                w = v
                comp = None
                while w[0] == "upd" and w[2][0] == "f":
                    if w[2][1] == fld and comp is None:
                        comp = w[3]
                    w = strip(w[1])
                if comp is None:
                    if w == ph:
                        comp = c
                    elif w[0] == "agg" and fld < len(w[4]):
                        comp = w[4][fld]
                    else:
                        return None
                v = strip(comp)
            n = util.numnorm(v)
            if n[0] == "field" and n[2] == 0 and n[1][0] == "binop" and n[1][1] == "AddWithOverflow":
                n = ("binop", "Add", n[1][2], n[1][3])
            if pred in loop:
                if not (n[0] == "binop" and n[1] in ("Add", "AddUnchecked") and util.numnorm(n[2]) == util.numnorm(c) and n[3][:2] == ("int", 1)):
                    return None
            else:
                if n[0] != "int" or (c0 is not None and c0 != n[1]):
                    return None
                c0 = n[1]
        if c0 is None:
            return None
        # (what is known where the loop is entered - a length gate - bounds the item count)
        m = self.iter_len(lp["init_call"][2][0], ph[2], d + 1)
        if m[1] == INF:
            return None
        if bb is not None and lp["body_bb"] is not None and _cfg.dominates(_cfg.dominators(self.body), lp["body_bb"], bb):
            return (c0, c0 + max(m[1] - 1, 0))
        return (c0, c0 + m[1])

    def _phi(self, t, bb, d):
        key = (t[2], t[3])
        cr = self.counted(t, bb, d) if key not in self._phi_stack else None
        if cr is not None:
            return cr
        if t[1] != self.se.fn or key not in self.se.phi_inputs or t[4] != ():
            # phi of an inlined callee or unknown: type range of the root when it is a local
            return TOP
        if key in self._phi_stack:
            return (INF, -INF)  # bottom: least fixpoint over the cycle
        self._phi_stack.add(key)
        try:
            ins = list(self.se.phi_inputs[key].items())
            r = None
            rec = []
            for pred, v in ins:
                vv = util.numnorm(v)
                if vv[0] == "uninit":
                    continue
                # the value flowing in along the edge pred -> header is constrained by the facts at pred
                if any(s == t for s in walk(vv)):
                    rec.append((pred, vv))
                    continue
                x = self._rng(vv, pred if isinstance(pred, int) else None, d)
                if x[0] > x[1]:
                    continue  # bottom (a value still being computed in an enclosing fixpoint)
                r = join(r, x)
            if r is None:
                r = (INF, -INF) if rec else TOP
            # widening for self-dependent inputs: evaluate them once more under the first estimate
            if rec:
                est = r
                if est[0] > est[1]:
                    # no base value yet: start from the recursive inputs evaluated on bottom
                    est = None
                    for pred, vv in rec:
                        x = self._rng_assume(vv, pred if isinstance(pred, int) else None, d, t, (INF, -INF))
                        if x[0] <= x[1]:
                            est = join(est, x)
                    if est is None:
                        return (INF, -INF)
                stable = False
                for _ in range(3):
                    nxt = est
                    for pred, vv in rec:
                        x = self._rng_assume(vv, pred if isinstance(pred, int) else None, d, t, est)
                        nxt = join(nxt, x)
                    if nxt == est:
                        stable = True
                        break
                    prev, est = est, nxt
                if not stable:
                    # widen the side that keeps growing, then check the widened value is a post-fixpoint
                    lo = est[0] if est[0] >= prev[0] else -INF
                    hi = est[1] if est[1] <= prev[1] else INF
                    est = (lo, hi)
                    nxt = est
                    for pred, vv in rec:
                        nxt = join(nxt, self._rng_assume(vv, pred if isinstance(pred, int) else None, d, t, est))
                    if nxt != est:
                        est = TOP
                    else:
                        # narrowing: re-evaluate under the widened estimate; keep while it is a post-fixpoint
                        for _ in range(2):
                            nar = r if r[0] <= r[1] else None
                            for pred, vv in rec:
                                x = self._rng_assume(vv, pred if isinstance(pred, int) else None, d, t, est)
                                if x[0] <= x[1]:
                                    nar = join(nar, x)
                            if nar is None or nar == est:
                                break
                            chk = nar
                            for pred, vv in rec:
                                x = self._rng_assume(vv, pred if isinstance(pred, int) else None, d, t, nar)
                                if x[0] <= x[1]:
                                    chk = join(chk, x)
                            if chk == nar:
                                est = nar
                            else:
                                break
                r = est
            root = t[3]
            if root[0] == "local":
                r = meet(r, self.ty_range_of_local(root[1])) if r != TOP else self.ty_range_of_local(root[1])
            return r
        finally:
            self._phi_stack.discard(key)

    def _rng_assume(self, vv, bb, d, phi, est):
        """range of vv where occurrences of `phi` have range est (and facts at bb refine phi)"""
        saved = self._phi_override if hasattr(self, "_phi_override") else {}
        self._phi_override = dict(saved)
        self._phi_override[phi] = est
        try:
            return self._rng_o(vv, bb, d)
        finally:
            self._phi_override = saved

    def _rng_o(self, t, bb, d):
        ov = getattr(self, "_phi_override", {})
        if t in ov:
            r = ov[t]
            if bb is not None:
                for op, a, b in self.bool_facts(bb):
                    if a == t:
                        r = _refine(r, op, self._rng_o(b, bb, d + 1) if b != t else TOP)
                    elif b == t:
                        r = _refine(r, _flip(op), self._rng_o(a, bb, d + 1) if a != t else TOP)
            return r
        k = t[0]
        if k == "field" and t[1][0] == "binop" and t[1][1].endswith("WithOverflow") and t[2] == 0:
            op = t[1][1].replace("WithOverflow", "")
            ra, rb = self._rng_o(t[1][2], bb, d + 1), self._rng_o(t[1][3], bb, d + 1)
            return _arith(op, ra, rb)
        if k == "binop":
            ra, rb = self._rng_o(t[2], bb, d + 1), self._rng_o(t[3], bb, d + 1)
            return _arith(t[1], ra, rb)
        if k == "cast":
            inner = self._rng_o(t[2], bb, d + 1)
            tr = TYPE_RANGE.get(t[3], TOP)
            return inner if inner[0] >= tr[0] and inner[1] <= tr[1] else tr
        return self._rng(t, bb, d)

    # ---------------------------------------------------------------- lengths
    def len_range(self, x, bb, d=0):
        """range of the length of the slice / array / vec value denoted by x"""
        x = strip(x)
        while util.is_call(x) and (x[1] in util.IDENT_CALLS or x[1].endswith("::to_vec") or "Deref" in x[1] and "deref" in x[1]):
            tl = self._typed_len(x)
            if tl is not None:
                return tl
            x = strip(x[2][0])
        k = x[0]
        if k == "bytes":
            return (len(x[1]), len(x[1]))
        if k == "repeat" and isinstance(x[2], int):
            return (x[2], x[2])
        if k == "agg" and x[1] == "array":
            return (len(x[4]), len(x[4]))
        if k == "after":
            if util.is_call(x[1]) and x[1][1] == "std::vec::Vec::<T, A>::extend_from_slice" and x[2] == 0:
                b0 = self.len_range(x[3], bb, d + 1)
                b1 = self.len_range(x[1][2][1], bb, d + 1)
                return (b0[0] + b1[0], b0[1] + b1[1])
            if util.is_call(x[1]) and x[1][1].startswith("std::vec::Vec::<T, A>::") and x[2] == 0 and x[1][1].split("::")[-1] not in ("sort", "sort_unstable", "reverse", "fill", "swap", "copy_from_slice", "clone_from_slice"):
                return (0, INF)  # a length-changing Vec method that is not modelled
            return self.len_range(x[3], bb, d + 1)
        if k == "upd":
            return self.len_range(x[1], bb, d + 1)
        if k == "phi":
            key = (x[2], x[3])
            if x[1] == self.se.fn and key in self.se.phi_inputs and key not in self._phi_stack:
                self._phi_stack.add(key)
                try:
                    r = None
                    shrinking = False
                    for p, v in self.se.phi_inputs[key].items():
                        sv = strip(v)
                        if sv[0] == "uninit":
                            continue
                        # a view of the joined slice itself (`s = &s[2..]` on the way round a loop):
                        # never longer than what it is a view of
                        y = sv
                        while y[0] in ("subslice", "deref", "ref", "refv") or (util.is_call(y) and (y[1].endswith("::index") or y[1].endswith("::index_mut")) and len(y[2]) == 2):
                            y = strip(y[2][0]) if y[0] == "call" else strip(y[1])
                        if y == x and sv != x:
                            shrinking = True
                            continue
                        r = join(r, self.len_range(v, None, d + 1))
                    if shrinking and r is not None:
                        r = (0, r[1])
                    return r if r is not None else (0, INF)
                finally:
                    self._phi_stack.discard(key)
        if k == "subslice" and isinstance(x[2], int) and isinstance(x[3], int):
            # `&s[a..]`, `&s[a..b]`, `[_, _, rest @ ..]`: (from, to, counted from the end?)
            b_ = self.len_range(x[1], bb, d + 1)
            if x[4]:
                return (max(0, b_[0] - x[2] - x[3]), max(0, b_[1] - x[2] - x[3]) if b_[1] != INF else INF)
            return (max(0, x[3] - x[2]), max(0, x[3] - x[2]))
        if k == "deref":
            return self.len_range(x[1], bb, d + 1)
        tl = self._typed_len(x)
        if tl is not None:
            return tl
        # a chunk yielded by chunks_exact(c) has exactly c elements
        ck = self._chunk_len(x, bb)
        if ck is not None:
            return ck
        if util.is_call(x):
            n = x[1]
            a = x[2]
            if n.endswith("::index") or n.endswith("::index_mut"):
                base = self.len_range(a[0], bb, d + 1)
                rng = a[1]
                if rng[0] == "agg" and rng[2] and rng[2].startswith("std::ops::Range"):
                    kind = rng[2].split("::")[-1]
                    if kind == "RangeFull":
                        return base
                    if kind == "RangeFrom":
                        s = self.rng(rng[4][0], bb)
                        return (max(0, base[0] - s[1]) if s[1] != INF else 0, max(0, base[1] - s[0]))
                    if kind == "RangeTo":
                        e = self.rng(rng[4][0], bb)
                        return (max(0, e[0]), min(base[1], e[1]))
                    if kind == "Range":
                        s, e = self.rng(rng[4][0], bb), self.rng(rng[4][1], bb)
                        return (max(0, e[0] - s[1]), min(base[1], e[1] - s[0]))
                return (0, base[1])
            if n in self.fb.bodies:
                # crate-local function returning a slice: use its own return term
                pr = self.w.prover(n)
                if pr is not None and pr is not self:
                    r = pr.len_range(pr.se.ret, None, d + 1)
                    return r
            if n == "std::vec::from_elem":
                return self.rng(a[1], bb)
            # views that keep the byte length: from_utf8(x).unwrap(), s.as_bytes()
            if n.split("::")[-1] in ("unwrap", "expect", "unwrap_unchecked") and util.is_call(strip(a[0])) and strip(a[0])[1].split("::")[-1] in ("from_utf8", "from_utf8_unchecked"):
                return self.len_range(strip(a[0])[2][0], bb, d + 1)
            if n in ("core::str::<impl str>::as_bytes", "std::string::String::as_bytes", "std::string::String::as_str"):
                return self.len_range(a[0], bb, d + 1)
            if n in ("std::vec::Vec::<T>::new", "std::vec::Vec::<T>::with_capacity"):
                return (0, 0)
            if n.endswith("pin::pin_to_bytes"):
                return (0, 10)
        if k == "param" and d < 8:
            r = self.w.param_len_range(self.se.fn, x[1])
            if r is not None:
                return (r[0], min(r[1], ISIZE_MAX)) if self._is_byte_slice(x) else r
        # no slice of bytes is longer than isize::MAX (language guarantee on allocations)
        if self._is_byte_slice(x):
            return (0, ISIZE_MAX)
        return (0, INF)

    def _is_byte_slice(self, x):
        ty = self.type_of(x)
        if ty is None:
            return False
        t2 = ty.peel_refs()
        return t2.s in ("[u8]", "str", "std::vec::Vec<u8>", "std::string::String")

    def _typed_len(self, x):
        ty = self.type_of(x)
        if ty is not None:
            t2 = ty.peel_refs()
            if t2.k == "array" and t2.len is not None:
                return (t2.len, t2.len)
            if t2.k == "adt" and "GenericArray<u8" in t2.s and "UInt<" in t2.s:
                n = typenum_value(t2.s)
                if n is not None:
                    return (n, n)
        return None

    def _chunk_len(self, x, bb):
        """x is (a component of) a for-loop item that is a chunk yielded by chunks_exact(c):
        exactly c elements.  The component is found by walking the tuple structure of the
        item (enumerate: (counter, inner); zip: (left, right)) along x's field path."""
        for lp in util.for_loops(self.ctx, self.se):
            if lp["init_call"] is None:
                continue
            item = strip(lp["elem"])
            path = []
            y = x
            while y != item and y[0] == "field" and isinstance(y[2], int):
                path.append(y[2])
                y = y[1]
            if y != item:
                continue
            comp = strip(lp["init_call"][2][0])
            ok = True
            for f in reversed(path):
                while util.is_call(comp) and comp[1].split("::")[-1] in ("into_iter", "by_ref", "copied", "cloned"):
                    comp = strip(comp[2][0])
                if util.is_call(comp) and comp[1].endswith("::enumerate") and f == 1:
                    comp = strip(comp[2][0])
                elif util.is_call(comp) and comp[1].endswith("::zip") and f in (0, 1):
                    comp = strip(comp[2][f])
                else:
                    ok = False
                    break
            if not ok:
                continue
            while util.is_call(comp) and comp[1].split("::")[-1] in ("into_iter", "by_ref"):
                comp = strip(comp[2][0])
            if util.is_call(comp) and comp[1].split("::")[-1] in ("chunks_exact", "chunks_exact_mut"):
                c = self.rng(comp[2][1], bb)
                if c[0] == c[1]:
                    return c
        return None

    def from_fn_index_range(self):
        """this body is a closure whose only use is as the argument of core::array::from_fn::<T, N>:
        its index parameter ranges over 0..N"""
        if getattr(self, "_ffr", "unset") != "unset":
            return self._ffr
        self._ffr = None
        parent = self.body.d.get("parent")
        pb = self.fb.body(parent) if parent else None
        if pb is None:
            return None
        ns = []
        made = 0
        for blk in pb.blocks:
            for s_ in blk["stmts"]:
                if s_["k"] == "assign" and s_["rv"]["k"] == "aggregate" and s_["rv"].get("ak") == "closure" and s_["rv"].get("path") == self.se.fn:
                    made += 1
        for bi, t in pb.calls():
            if t.get("resolved") in ("std::array::from_fn", "core::array::from_fn"):
                ras = t.get("resolved_args", [])
                cl = [self.fb.ty(a["ty"]) for a in ras if "ty" in a]
                if any(c.k == "closure" and c.d.get("path") == self.se.fn for c in cl):
                    n = [a.get("val") for a in ras if "const" in a]
                    if n and n[0] is not None:
                        ns.append(int(n[0]))
            else:
                # the closure must not be handed to anything else
                for a in t.get("resolved_args", []):
                    if "ty" in a:
                        c = self.fb.ty(a["ty"])
                        if c.k == "closure" and c.d.get("path") == self.se.fn:
                            return None
        if len(ns) == 1 and made == 1 and ns[0] >= 1:
            self._ffr = (0, ns[0] - 1)
        return self._ffr

    def closure_item_range(self, t):
        """t = field k of the item parameter (param 2) of a closure driven by for_each over
        zip(Range{a,b}, ..) / enumerate(..): range of that component"""
        if self.body.kind != "Closure" or not (t[0] == "field" and t[1] in (("param", 2), ("param", 3))):
            return None
        parent = self.body.d.get("parent")
        pse = self.ctx.flat.run(parent) if parent else None
        if pse is None:
            return None
        pp = self.w.prover(parent)
        uses = []
        for i in pse.term_info.values():
            # for_each(|item| ..): item is param 2; fold(init, |acc, item| ..): item is param 3
            is_fe = i.get("k") == "call" and i["name"] == "std::iter::Iterator::for_each" and t[1] == ("param", 2)
            is_fold = i.get("k") == "call" and i["name"].endswith("Iterator>::fold") or i.get("k") == "call" and i["name"] == "std::iter::Iterator::fold"
            if is_fe or (is_fold and t[1] == ("param", 3)):
                cl = i["locargs"][1 if is_fe else 2] if "locargs" in i and len(i["locargs"]) > (1 if is_fe else 2) else None
                if cl is not None and cl[0] == "agg" and cl[1] == "closure" and cl[2] == self.se.fn:
                    uses.append(strip(i["args"][0]))
        # the closure value must not be used anywhere else
        others = 0
        for (bi, si), (loc, v) in pse.assigns.items():
            if v[0] == "agg" and v[1] == "closure" and v[2] == self.se.fn:
                others += 1
        if len(uses) != 1 or others != 1:
            return None
        it = uses[0]
        if util.is_call(it) and it[1].endswith("::zip") and t[2] == 0:
            a = strip(it[2][0])
            if a[0] == "agg" and a[2] == "std::ops::Range" and a[4][0][0] == "int" and a[4][1][0] == "int":
                return (a[4][0][1], a[4][1][1] - 1)
        if util.is_call(it) and it[1].endswith("::enumerate") and t[2] == 0 and pp is not None:
            l = pp.iter_len(it[2][0])
            if l[1] != INF:
                return (0, max(0, l[1] - 1))
        return None

    def type_of(self, x):
        from symex import place_ty

        k = x[0]
        if k == "param":
            return self.body.local_ty(x[1])
        if k == "field":
            p = util.adt_path_of(self.ctx, self.se, x[1])
            fs = self.fb.adt_fields(p) if p else None
            if fs and x[2] < len(fs):
                return self.fb.ty(fs[x[2]]["ty"])
            bt = self.type_of(x[1]) if p is None else None
            if bt is not None:
                bt = bt.peel_refs()
                if bt.k == "closure" and x[2] < len(bt.d.get("upvars", [])):
                    return self.fb.ty(bt.d["upvars"][x[2]])
                if bt.k == "adt":
                    fs = self.fb.adt_fields(bt.path)
                    if fs and x[2] < len(fs):
                        return self.fb.ty(fs[x[2]]["ty"])
                if bt.k == "tuple" and x[2] < len(bt.elems):
                    return bt.elems[x[2]]
        if k in ("after",):
            return self.type_of(x[3])
        if k == "upd":
            return self.type_of(x[1])
        if k == "call" and len(x) > 3:
            b = self.fb.body(x[3][0])
            if b is not None:
                return place_ty(self.fb, b, b.blocks[x[3][1]]["term"]["dest"])
        if k == "phi" and x[3][0] == "local" and x[1] == self.se.fn:
            return self.body.local_ty(x[3][1])
        if k == "phi" and x[3][0] == "deref" and x[3][1][0] == "param" and x[1] == self.se.fn:
            t = self.body.local_ty(x[3][1][1])
            return t.to if t is not None and t.k == "ref" else None
        if k == "deref":
            t = self.type_of(x[1])
            return t.to if t is not None and t.k == "ref" else None
        return None

    # iterator item summaries ------------------------------------------------------
    def iter_len(self, it, bb=None, d=0):
        """(lo, hi) number of items an iterator-valued term yields"""
        it = strip(it)
        if d > 12:
            return (0, INF)
        if it[0] == "phi":
            key = (it[2], it[3])
            ins = self.se.phi_inputs.get(key, {}) if it[1] == self.se.fn else {}
            r = None
            for p, v in ins.items():
                v = strip(v)
                while v[0] == "after":
                    v = strip(v[3])
                if v == it or v[0] == "uninit":
                    continue
                r = join(r, self.iter_len(v, None, d + 1))
            return r if r is not None else (0, INF)
        if it[0] == "after":
            return self.iter_len(it[3], bb, d + 1)
        if it[0] == "agg" and it[2] == "std::ops::Range":
            s, e = self.rng(it[4][0], bb), self.rng(it[4][1], bb)
            return (max(0, e[0] - s[1]), max(0, e[1] - s[0]))
        if util.is_call(it):
            n = it[1].split("::")[-1]
            a = it[2]
            full = it[1]
            if n == "into_iter":
                return self.iter_len(a[0], bb, d + 1) if _is_iter_term(a[0]) else self.len_range(a[0], bb, d + 1)
            if n in ("iter", "iter_mut") and "slice" in full:
                base = a[0]
                if strip(base)[0] == "mutref" and len(it) > 3:
                    # `x.iter_mut()`: as many items as the borrowed slice had when it was borrowed
                    base = self.se.call_old.get((it[3][:2], 0), base)
                return self.len_range(base, bb, d + 1)
            if n == "chars":
                l = self.len_range(a[0], bb, d + 1) if False else self.rng(("len", a[0]), bb)
                return (0, l[1])
            if n == "enumerate":
                return self.iter_len(a[0], bb, d + 1)
            if n == "step_by":
                l = self.iter_len(a[0], bb, d + 1)
                s = self.rng(a[1], bb)
                if s[0] >= 1:
                    up = -(-l[1] // s[0]) if l[1] != INF else INF
                    return (0, up)
                return (0, l[1])
            if n == "skip":
                l = self.iter_len(a[0], bb, d + 1)
                s = self.rng(a[1], bb)
                return (0, max(0, l[1] - s[0]) if l[1] != INF else INF)
            if n == "zip":
                l1, l2 = self.iter_len(a[0], bb, d + 1), self.iter_len(a[1], bb, d + 1)
                return (0, min(l1[1], l2[1]))
            if n == "cycle":
                return (0, INF)
            if n in ("chunks_exact", "chunks", "chunks_exact_mut", "chunks_mut"):
                base = a[0]
                if strip(base)[0] == "mutref":
                    base = self.se.call_old.get((it[3][:2], 0), base)
                l = self.len_range(base, bb, d + 1)
                c = self.rng(a[1], bb)
                if c[0] >= 1 and l[1] != INF:
                    return (0, l[1] // c[0] if n.startswith("chunks_exact") else -(-l[1] // c[0]))
                return (0, l[1])
            if n == "take":
                s = self.rng(a[1], bb)
                l = self.iter_len(a[0], bb, d + 1)
                return (0, min(s[1], l[1]))
            if n in ("take_while", "filter", "skip_while", "map", "copied", "cloned", "rev", "inspect", "filter_map", "map_while", "peekable", "fuse", "by_ref"):
                l = self.iter_len(a[0], bb, d + 1)
                return (0, l[1]) if n in ("take_while", "filter", "skip_while", "filter_map", "map_while") else l
        return (0, INF)

    def range_item(self, t):
        """t = (next(Range{a,b}) as Some).0  ->  (a term, b term) of the range it iterates;
        also the component of a zip(..) item that comes from a Range"""
        if t[0] == "field" and t[1][0] == "field" and t[1][2] == 0 and t[1][1][0] == "downcast":
            for lp in util.for_loops(self.ctx, self.se):
                if strip(lp["elem"]) == t[1] and lp["init_call"] is not None:
                    src = strip(lp["init_call"][2][0])
                    if util.is_call(src) and src[1].endswith("::zip") and t[2] in (0, 1):
                        comp = strip(src[2][t[2]])
                        if comp[0] == "agg" and comp[2] == "std::ops::Range":
                            return util.numnorm(comp[4][0]), util.numnorm(comp[4][1])
        if t[0] == "field" and t[2] == 0 and t[1][0] == "downcast":
            nx = t[1][1]
            if util.is_call(nx) and nx[1].endswith("::next") and "Range" in nx[1]:
                for lp in util.for_loops(self.ctx, self.se):
                    if strip(lp["elem"]) == t and lp["init_call"] is not None:
                        src = strip(lp["init_call"][2][0])
                        if src[0] == "agg" and src[2] == "std::ops::Range":
                            return util.numnorm(src[4][0]), util.numnorm(src[4][1])
        return None

    def iter_index_range(self, t):
        """t = (next(enumerate it) as Some).0.0 -> [0, len-1]"""
        if t[0] == "field" and t[2] == 0 and t[1][0] == "field" and t[1][2] == 0 and t[1][1][0] == "downcast":
            nx_ = t[1][1][1]
            if util.is_call(nx_) and "CharIndices" in nx_[1] and nx_[1].endswith("::next"):
                # the byte offset of a character of s: below s.len()
                for lp in util.for_loops(self.ctx, self.se):
                    if strip(lp["elem"]) == t[1] and lp["init_call"] is not None:
                        src = strip(lp["init_call"][2][0])
                        if util.is_call(src, "core::str::<impl str>::char_indices"):
                            l = self.rng(("len", src[2][0]), lp["next_bb"])
                            if l[1] != INF:
                                return (0, max(0, l[1] - 1))
                return None
        if t[0] == "field" and t[2] == 0 and t[1][0] == "field" and t[1][2] == 0 and t[1][1][0] == "downcast":
            nx = t[1][1][1]
            if util.is_call(nx) and "Enumerate" in nx[1] and nx[1].endswith("::next"):
                # find the loop this next belongs to
                for lp in util.for_loops(self.ctx, self.se):
                    if strip(lp["elem"])[1][1] == nx or strip(lp["elem"]) == t[1]:
                        ic = lp["init_call"]
                        if ic is None:
                            return None
                        src = strip(ic[2][0])
                        if util.is_call(src) and src[1].endswith("::enumerate"):
                            l = self.iter_len(src[2][0], lp["next_bb"])
                            if l[1] != INF:
                                return (0, max(0, l[1] - 1))
                return None
        return None

    # ---------------------------------------------------------------- proofs
    def infeasible(self, bb):
        """some comparison fact that every path to bb has established cannot hold for the
        value ranges of its operands: bb is unreachable.  Returns (bool, reason)."""
        for op, a, b in self.bool_facts(bb):
            ra, rb = self.rng(a, bb), self.rng(b, bb)
            if ra[0] > ra[1] or rb[0] > rb[1]:
                return True, "guard %s %s %s cannot hold here" % (show(a, maxdepth=2), op, show(b, maxdepth=2))
        return False, ""

    def prove_lt(self, a, b, bb):
        """a < b at bb"""
        na, nb = util.numnorm(a), util.numnorm(b)
        for op, x, y in self.bool_facts(bb):
            if op == "Lt" and x == na and y == nb:
                return True, "dominating guard %s < %s" % (show(na, maxdepth=2), show(nb, maxdepth=2))
            if op == "Gt" and y == na and x == nb:
                return True, "dominating guard"
        ri = self.range_item(na)
        if ri is not None and (ri[1] == nb or (nb[0] == "len" and ri[1][0] == "len" and strip_len(ri[1]) == strip_len(nb))):
            return True, "loop variable of `for _ in a..b` with b = the bound"
        ra, rb = self.rng(na, bb), self.rng(nb, bb)
        if ra[1] < rb[0]:
            return True, "%s in [%s, %s] < %s in [%s, %s]" % (show(na, maxdepth=2), ra[0], ra[1], show(nb, maxdepth=2), rb[0], rb[1])
        # enumerate index against the length it enumerates
        r = self.iter_index_range(na)
        if r is not None and r[1] < rb[0]:
            return True, "enumerate index <= %s < %s" % (r[1], rb[0])
        return False, "%s in [%s, %s] is not provably < %s in [%s, %s]" % (show(na, maxdepth=3), ra[0], ra[1], show(nb, maxdepth=3), rb[0], rb[1])

    def prove_le(self, a, b, bb):
        na, nb = util.numnorm(a), util.numnorm(b)
        if na == nb:
            return True, "same term"
        for op, x, y in self.bool_facts(bb):
            if op in ("Le", "Lt") and x == na and y == nb:
                return True, "dominating guard"
            if op in ("Ge", "Gt") and y == na and x == nb:
                return True, "dominating guard"
        ra, rb = self.rng(na, bb), self.rng(nb, bb)
        if ra[1] <= rb[0]:
            return True, "[%s, %s] <= [%s, %s]" % (ra[0], ra[1], rb[0], rb[1])
        return False, "%s in [%s, %s] is not provably <= %s in [%s, %s]" % (show(na, maxdepth=3), ra[0], ra[1], show(nb, maxdepth=3), rb[0], rb[1])

    def prove_nonzero(self, a, bb):
        r = self.rng(a, bb)
        if r[0] > 0 or r[1] < 0:
            return True, "in [%s, %s]" % r
        return False, "%s may be 0" % show(util.numnorm(a), maxdepth=3)


def strip_len(t):
    """the object whose length a ("len", x) term measures, modulo update history of a slice
    (writes to elements do not change a slice's length)"""
    x = t[1] if t[0] == "len" else t
    while True:
        if x[0] in ("ref", "refv"):
            x = x[1]
        elif x[0] == "upd":
            x = x[1]
        elif x[0] == "after":
            x = x[3]
        elif x[0] == "phi":
            x = x[3]
            if x[0] == "local":
                return ("local-root", x[1])
        else:
            break
    return strip(x)


def _is_iter_term(t):
    t = strip(t)
    if t[0] == "agg" and t[2] == "std::ops::Range":
        return True
    return util.is_call(t) and t[1].split("::")[-1] in ("iter", "iter_mut", "enumerate", "step_by", "skip", "zip", "cycle", "chars", "take", "into_iter", "rev", "take_while", "filter", "map", "copied", "cloned", "skip_while", "chunks_exact", "chunks")


def _monotone_up(vv, phi):
    vv = util.numnorm(vv)
    if vv[0] == "field" and vv[1][0] == "binop" and vv[1][1] == "AddWithOverflow" and vv[1][2] == phi:
        return True
    if vv[0] == "binop" and vv[1] == "Add" and vv[2] == phi:
        return True
    if vv == phi:
        return True
    return False


def _arith(op, ra, rb):
    if ra[0] > ra[1] or rb[0] > rb[1]:
        return (INF, -INF)
    if op in ("Add", "AddUnchecked"):
        return (ra[0] + rb[0], ra[1] + rb[1])
    if op in ("Sub", "SubUnchecked"):
        return (ra[0] - rb[1], ra[1] - rb[0])
    if op == "Rem":
        if rb[0] > 0 and ra[0] >= 0:
            return (0, min(ra[1], rb[1] - 1))
        return TOP
    if op in ("Mul",):
        if ra[0] >= 0 and rb[0] >= 0:
            return (ra[0] * rb[0], ra[1] * rb[1] if INF not in (ra[1], rb[1]) else INF)
        return TOP
    if op == "Div":
        if rb[0] > 0 and ra[0] >= 0:
            return (0, ra[1] // rb[0] if ra[1] != INF else INF)
        return TOP
    return TOP


def _flip(op):
    return {"Lt": "Gt", "Le": "Ge", "Gt": "Lt", "Ge": "Le", "Eq": "Eq", "Ne": "Ne"}[op]


ISIZE_MAX = 2 ** 63 - 1


def _refine(r, op, other):
    lo, hi = r
    if op == "Lt":
        hi = min(hi, other[1] - 1)
    elif op == "Le":
        hi = min(hi, other[1])
    elif op == "Gt":
        lo = max(lo, other[0] + 1)
    elif op == "Ge":
        lo = max(lo, other[0])
    elif op == "Eq":
        lo, hi = max(lo, other[0]), min(hi, other[1])
    elif op == "Ne":
        if other[0] == other[1]:
            if lo == other[0]:
                lo += 1
            if hi == other[0]:
                hi -= 1
    return (lo, hi)


def typenum_value(s):
    """decode typenum's UInt<UInt<..UTerm, B1>, B0>.. binary encoding from a type string"""
    i = s.find("UInt<")
    if i < 0:
        return None
    bits = []
    import re

    for m in re.finditer(r"typenum::(B[01])>", s[i:]):
        bits.append(1 if m.group(1) == "B1" else 0)
    if not bits:
        return None
    v = 0
    for b in bits:
        v = v * 2 + b
    return v
