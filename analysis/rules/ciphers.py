"""Loop-body step functions of the Vanilla/TBC byte ciphers (C07, C08) and shared pieces."""
import cfg
from rules import util, arith
from rules.arith import S, I, wadd, xor
from rules.util import strip, canon
from symex import show, walk


def raw_callee(ctx, method, default):
    """the per-byte operation a half's raw method delegates to: its single crate-local callee
    (by resolved name, so a shared const-generic function is seen as its instance)"""
    b = ctx.fb.body(method)
    if b is None:
        return default
    local = [t.get("resolved") for _, t in b.calls() if t.get("resolved") in ctx.fb.bodies]
    return local[0] if len(local) == 1 else default


def _traversal(ctx, se, dparam=1, only=None):
    """how the data slice (param 1) is walked: returns dict(mode, head, loop (blocks), in_term
    (the byte before the step), out_terms, writes) or (None, reason).  Modes: `for b in data`
    (slice IterMut), `for i in 0..data.len()`, and `while let Some((b, tail)) =
    mem::take(&mut rest).split_first_mut()` - each visits every element once, in order."""
    body = se.body
    data_root = ("deref", ("param", dparam))
    loops = util.for_loops(ctx, se) if only is None else [only]
    be = cfg.back_edges(body)
    if len(loops) == 1:
        lp = loops[0]
        head = lp["next_bb"]
        loop = set()
        for e in be:
            l_ = cfg.natural_loop(body, e)
            if head in l_:
                loop |= l_
        st_in = se.in_state.get(head, {})
        src = strip(lp["init_call"][2][0]) if lp["init_call"] is not None else None
        if strip(lp["init"] or ("?",)) == ("param", dparam) and "slice::IterMut" in (lp["resolved"] or "") and lp["init_call"] is not None and lp["init_call"][1].endswith("for &'a mut [T]>::into_iter"):
            elem_in = ("deref", lp["elem"])
            writes = [(k, v) for k, v in se.assigns.items() if v[0] == elem_in or (v[0][0] == "deref" and strip(v[0][1]) == strip(lp["elem"]))]
            return {"mode": "iter", "head": head, "loop": loop, "in_term": strip(elem_in), "out_terms": [w[1][1] for w in writes], "writes": writes, "what": lp["resolved"]}
        def over_data(call_):
            """iter_mut() taken on the data parameter's slice (whatever an earlier pass left in it)"""
            if se.call_old.get((call_[3][:2], 0)) == data_root:
                return True
            la_ = (se.term_info.get(call_[3][1], {}).get("locargs") or (("?",),))[0]
            return only is not None and la_[0] == "ref" and la_[1] == data_root
        if src is not None and util.is_call(src, "core::slice::<impl [T]>::iter_mut") and "slice::IterMut" in (lp["resolved"] or "") and over_data(src):
            # `for b in data.iter_mut()`: the same walk, spelled with the explicit adaptor
            elem_in = ("deref", lp["elem"])
            writes = [(k, v) for k, v in se.assigns.items() if v[0] == elem_in or (v[0][0] == "deref" and strip(v[0][1]) == strip(lp["elem"]))]
            return {"mode": "iter", "head": head, "loop": loop, "in_term": strip(elem_in), "out_terms": [w[1][1] for w in writes], "writes": writes, "what": lp["resolved"]}
        if src is not None and src[0] == "agg" and src[2] == "std::ops::Range" and util.numnorm(src[4][0])[:2] == ("int", 0):
            # index loop `for i in 0..data.len()`: element i is read and written exactly once
            from ranges import strip_len

            end = util.numnorm(src[4][1])
            phi_data = st_in.get(data_root)
            i_t = strip(lp["elem"])
            if end[0] == "len" and strip_len(end) == ("param", dparam) and phi_data is not None and phi_data[0] == "phi":
                ins = se.phi_inputs[(phi_data[2], phi_data[3])]
                steps = [v for p_, v in ins.items() if v != data_root]
                if len(steps) == 1 and steps[0][0] == "upd" and steps[0][1] == phi_data and steps[0][2][0] == "i" and strip(steps[0][2][1]) == i_t:
                    writes = [(k, v) for k, v in se.assigns.items() if v[0][0] == "index" and strip(v[0][2]) == i_t and v[0][1] == data_root]
                    return {"mode": "index", "head": head, "loop": loop, "in_term": ("index", strip(phi_data), i_t), "out_terms": [steps[0][3]], "writes": writes, "what": "index loop"}
        if src is not None and util.is_call(src, "std::iter::Iterator::zip"):
            # for (b, k) in data.iter_mut().zip(key.iter().cycle().skip(idx0)): byte n meets
            # key[(idx0 + n) mod len(key)]
            a_, b_ = strip(src[2][0]), strip(src[2][1])
            over_data = False
            if util.is_call(a_, "core::slice::<impl [T]>::iter_mut"):
                old = se.call_old.get((a_[3][:2], 0))
                over_data = old == data_root
                if not over_data and only is not None:
                    la_ = (se.term_info.get(a_[3][1], {}).get("locargs") or (("?",),))[0]
                    over_data = la_[0] == "ref" and la_[1] == data_root
            ks = None
            if util.is_call(b_, "std::iter::Iterator::skip") and util.is_call(strip(b_[2][0]), "std::iter::Iterator::cycle"):
                it = strip(strip(b_[2][0])[2][0])
                if util.is_call(it, "core::slice::<impl [T]>::iter"):
                    ks = (strip(it[2][0]), b_[2][1])
            elif util.is_call(b_, "std::iter::Iterator::cycle") and util.is_call(strip(b_[2][0]), "std::iter::Iterator::chain"):
                # (head, tail) = key.split_at(idx); tail.iter().chain(head).cycle(): item n is
                # key[(idx + n) mod len] as well
                ch = strip(b_[2][0])
                first, second = strip(ch[2][0]), strip(ch[2][1])
                if util.is_call(first, "core::slice::<impl [T]>::iter"):
                    first = strip(first[2][0])
                if util.is_call(second, "core::slice::<impl [T]>::iter"):
                    second = strip(second[2][0])
                if first[0] == "field" and second[0] == "field" and first[2] == 1 and second[2] == 0 and first[1] == second[1] and util.is_call(first[1], "core::slice::<impl [T]>::split_at") and len(first[1][2]) == 2:
                    ks = (strip(first[1][2][0]), first[1][2][1])
            if over_data and ks is not None:
                elem = lp["elem"]
                b_ref = ("field", elem, 0)
                elem_in = ("deref", b_ref)
                writes = [(k, v) for k, v in se.assigns.items() if v[0] == elem_in or (v[0][0] == "deref" and strip(v[0][1]) == strip(b_ref))]
                return {"mode": "zip-keystream", "head": head, "loop": loop, "in_term": strip(elem_in), "out_terms": [w[1][1] for w in writes], "writes": writes, "what": "zip with the cycled key", "key_byte": strip(("deref", ("field", elem, 1))), "key_source": ks[0], "key_skip": ks[1]}
        return None, "data is not traversed by a plain in-order loop over the whole slice (%s)" % lp["resolved"]
    if len(loops) == 0 and len(be) == 1:
        # while let Some((first, tail)) = mem::take(&mut rest).split_first_mut() { ..; rest = tail; }
        tail_bb, head = be[0]
        loop = cfg.natural_loop(body, be[0])
        sf = [(bb, i) for bb, i in se.term_info.items() if bb in loop and i.get("k") == "call" and i["name"] == "core::slice::<impl [T]>::split_first_mut"]
        if len(sf) == 1:
            bb, info = sf[0]
            old = se.call_old.get((info["site"], 0))
            la = info["locargs"][0]
            # the receiver is the value taken out of the loop-carried `rest`
            rest_phi = None
            if la[0] == "ref" and la[1][0] == "deref" and la[1][1][0] == "phi":
                rest_phi = la[1][1]     # split_first_mut(&mut *taken) with taken = the loop-carried slice
            sw = se.term_info.get(body.blocks[bb]["term"]["target"], {})
            T = info["term"]
            payload = ("field", ("downcast", T, 1), 0)
            if rest_phi is not None and rest_phi[0] == "phi" and rest_phi[2] == head and sw.get("k") == "switch" and strip(sw["discr"]) == ("discr", strip(T)):
                tg = dict(sw["targets"])
                succ = [t_ for t_ in list(tg.values()) + [sw["otherwise"]]]
                some_t = tg.get(1)
                others_exit = all(t_ not in loop or t_ == some_t for t_ in succ)
                ins = se.phi_inputs.get((rest_phi[2], rest_phi[3]), {})
                init = [v for p_, v in ins.items() if p_ not in loop]
                back = [v for p_, v in ins.items() if p_ in loop]
                tail_ok = len(back) == 1 and strip(back[0]) == strip(("field", payload, 1))
                if some_t in loop and others_exit and len(init) == 1 and strip(init[0]) == ("param", dparam) and tail_ok:
                    elem = ("field", payload, 0)
                    elem_in = ("deref", elem)
                    writes = [(k, v) for k, v in se.assigns.items() if v[0][0] == "deref" and strip(v[0][1]) == strip(elem)]
                    return {"mode": "split-first", "head": head, "loop": loop, "in_term": strip(elem_in), "out_terms": [w[1][1] for w in writes], "writes": writes, "what": "while let Some((first, tail)) = rest.split_first_mut()"}
        return None, "the single loop is neither a for loop over the data nor a split_first_mut walk"
    return None, "expected exactly one loop over the data, found %d" % len(loops)


def _select(se, t, env):
    """normal form of a two-way join value: ("ite", condition, value-if-true, value-if-false)"""
    body = se.body
    if t[0] != "phi" or t[1] != se.fn or (t[2], t[3]) not in se.phi_inputs:
        return arith.norm(t, env)
    ins = se.phi_inputs[(t[2], t[3])]
    if len(ins) != 2:
        return arith.norm(t, env)
    for bb, d, f_t, t_t in util.bool_switches(se):
        vt = [v for p, v in ins.items() if p == bb and t[2] == t_t or cfg.must_pass_edge(body, (bb, t_t), p)]
        vf = [v for p, v in ins.items() if p == bb and t[2] == f_t or cfg.must_pass_edge(body, (bb, f_t), p)]
        if len(vt) == 1 and len(vf) == 1 and vt[0] is not vf[0]:
            return ("ite", arith.norm(d, env), arith.norm(vt[0], env), arith.norm(vf[0], env))
    return arith.norm(t, env)


def step_rule(ctx, rep, fn, direction, keylen, method_of=None):
    """fn(data: &mut [u8], key, index: &mut u8, previous_value: &mut u8).  Decides the per-byte
    transfer function, the state discipline inside the function and the traversal idiom."""
    se = ctx.wrap.run(fn)
    if se is None:
        rep.violation("step", fn, "anchor", "function not found")
        return
    body = se.body
    if method_of is not None:
        return _step_rule_method(ctx, rep, fn, direction, keylen, se, method_of)
    if not util.for_loops(ctx, se) and not cfg.back_edges(body) and _step_rule_fold(ctx, rep, fn, direction, keylen, se):
        return
    if not util.for_loops(ctx, se) and not cfg.back_edges(body) and _step_rule_for_each(ctx, rep, fn, direction, keylen, se):
        return
    if len(util.for_loops(ctx, se)) == 2 and _step_rule_two_pass(ctx, rep, fn, direction, keylen, se):
        return
    tr = _traversal(ctx, se)
    if isinstance(tr, tuple):
        rep.violation("traversal", fn, "loop" if "found" in tr[1] else "in-order-whole-slice", tr[1], body.loc())
        return
    head, loop = tr["head"], tr["loop"]
    idx_root = ("deref", ("param", 3))
    prev_root = ("deref", ("param", 4))
    kty = body.local_ty(2).peel_refs()
    klen = kty.len if kty.k == "array" else None
    rep.check(klen == keylen, "step", fn, "key-length", "key is [u8; %s]" % klen, "key array has length %s, expected %d" % (klen, keylen), body.loc())
    # loop-carried state: the values that enter the loop as *index / *previous_value (held in
    # place or in local copies that are stored back after the loop)
    def carried(root):
        out = []
        for (bb, key), ins in se.phi_inputs.items():
            if bb != head:
                continue
            init = [v for p_, v in ins.items() if p_ not in loop]
            if len(init) == 1 and init[0] == root:
                out.append((("phi", se.fn, bb, key, ()), ins))
        return out

    ci, cp = carried(idx_root), carried(prev_root)
    if tr["mode"] == "zip-keystream" and len(cp) == 1 and not ci:
        return _step_rule_keystream(ctx, rep, fn, direction, keylen, se, tr, cp[0])
    if len(ci) != 1 or len(cp) != 1:
        rep.violation("step", fn, "state", "index / previous value are not loop-carried state (no update per byte?)", body.loc())
        return
    (phi_idx, ins_idx), (phi_prev, ins_prev) = ci[0], cp[0]
    rep.ok("traversal", fn, "in-order-whole-slice", "plain in-order traversal of the whole slice, every element once (%s)" % tr["mode"], body.loc(head))
    in_term, out_terms, writes = tr["in_term"], tr["out_terms"], tr["writes"]
    wb = writes[0][0][0] if writes else None
    env = {strip(phi_idx): "idx", strip(phi_prev): "prev", in_term: "in", ("param", 2): "key"}
    back_idx = [v for p, v in ins_idx.items() if p in loop]
    back_prev = [v for p, v in ins_prev.items() if p in loop]
    # the key position wrapped in a one-field private newtype (`KeyIndex(u8)`): the position is that field
    pty = body.local_ty(3)
    pty = pty.peel_refs() if pty is not None else None
    if pty is not None and pty.k == "adt" and pty.path in ctx.fb.adts:
        fs_ = ctx.fb.adt_fields(pty.path) or []
        if len(fs_) == 1 and ctx.fb.ty(fs_[0]["ty"]).s == "u8":
            env = {("field", strip(phi_idx), 0): "idx", strip(phi_prev): "prev", in_term: "in", ("param", 2): "key"}
            nb = []
            for v in back_idx:
                v = strip(v)
                if v[0] == "upd" and v[1] == strip(phi_idx) and v[2] == ("f", 0):
                    nb.append(v[3])
                elif v[0] == "agg" and v[1] == "adt" and v[2] == pty.path and len(v[4]) == 1:
                    nb.append(v[4][0])
                else:
                    nb.append(v)
            back_idx = nb
    if len(out_terms) != 1 or len(back_idx) != 1 or len(back_prev) != 1 or wb is None:
        rep.violation("step", fn, "shape", "per-byte step is not one store to the byte, one index update, one previous-value update (%d/%d/%d)" % (len(out_terms), len(back_idx), len(back_prev)), body.loc())
        return
    out = arith.norm(out_terms[0], env)
    nidx = _select(se, back_idx[0], env)
    nprev = arith.norm(back_prev[0], env)
    kb = ("idx", S("key"), S("idx"))
    if direction == "enc":
        want_out = wadd(xor(S("in"), kb), S("prev"))
        want_prev = want_out
    else:
        want_out = xor(("wsub", S("in"), S("prev")), kb)
        want_prev = S("in")
    nx = ("add", S("idx"), I(1))
    want_idx = ("rem", nx, I(keylen))
    idx_ok = nidx == want_idx
    idx_how = "idx' = %s" % arith.show(nidx)
    if not idx_ok and nidx in (("ite", ("Eq", nx, I(keylen)), I(0), nx), ("ite", ("Ne", nx, I(keylen)), nx, I(0)), ("ite", ("Ge", nx, I(keylen)), I(0), nx), ("ite", ("Lt", nx, I(keylen)), nx, I(0))):
        # compare-and-reset equals (idx + 1) % K on idx < K; the key lookup key[idx] (bounds
        # check against the K-byte key) on every iteration establishes idx < K before the update
        idom = cfg.dominators(body)
        bes = [e for e in cfg.back_edges(body) if e[1] == head]
        guards = []
        for bb, i in se.term_info.items():
            if i.get("k") == "assert" and body.blocks[bb]["term"].get("msg") == "BoundsCheck" and bb in loop:
                ln, ix = [arith.norm(x, env) for x in i["msg_ops"]]
                if ln == I(keylen) and ix == S("idx") and all(cfg.dominates(idom, bb, t_) for t_, h_ in bes):
                    guards.append(bb)
        idx_ok = bool(guards)
        idx_how = "idx' = idx + 1, reset to 0 at %d; idx < %d by the key lookup's bounds check in every iteration" % (keylen, keylen)
    rep.check(out == want_out, "step", fn, "output-byte", "out = %s" % arith.show(out), "output byte is %s, expected %s" % (arith.show(out), arith.show(want_out)), body.loc(writes[0][0][0]))
    rep.check(idx_ok, "step", fn, "index-update", idx_how, "index update is %s, expected %s" % (arith.show(nidx), arith.show(want_idx)), body.loc())
    rep.check(nprev == want_prev, "step", fn, "previous-update", "prev' = %s" % arith.show(nprev), "previous-value update is %s, expected %s" % (arith.show(nprev), arith.show(want_prev)), body.loc())
    # state discipline inside the function: at exit the state is exactly the loop-carried value
    eff = se.param_effects()
    ok_state = eff.get(3) == phi_idx and eff.get(4) == phi_prev and len(ins_idx) == 2 and len(ins_prev) == 2
    rep.check(ok_state, "state-discipline", fn, "only-the-step-writes", "index/previous value are written by the per-byte step only (empty input leaves them untouched)", "index / previous value are also written outside the per-byte step (e.g. on empty or long input): idx=%s prev=%s" % (show(eff.get(3), maxdepth=2), show(eff.get(4), maxdepth=2)), body.loc())
    # every iteration performs the three stores (they dominate the back edge)
    idom = cfg.dominators(body)
    be = [e for e in cfg.back_edges(body) if e[1] == head or cfg.dominates(idom, head, e[0])]
    rep.check(bool(be) and all(cfg.dominates(idom, wb, t) for t, h in be), "step", fn, "unconditional", "the step is executed for every byte", "the byte/state update is conditional inside the loop", body.loc(wb))


def _step_rule_two_pass(ctx, rep, fn, direction, keylen, se):
    """The cipher as two plain passes over the whole slice.  Encrypt: (A) `d[n] ^= key[(idx + n) mod K]`
    then (B) the running sum `d[n] = d[n] + prev; prev = d[n]`; decrypt: (B') the adjacent
    difference `d[n] = c[n] - prev; prev = c[n]` then (A).  Substituting what the first pass leaves
    in d[n] into the second gives the one-pass recurrence `out = (in ^ k) + prev` /
    `out = (in - prev) ^ k`, byte by byte and in order, because pass A touches no state and pass
    B / B' reads only d[n] and its own carried value.  Returns False (nothing reported) when the
    function is not two such loops one after the other."""
    body = se.body
    loops = util.for_loops(ctx, se)
    trs = []
    for lp in loops:
        tr = _traversal(ctx, se, 1, only=lp)
        if isinstance(tr, tuple):
            return False
        trs.append(tr)
    ks = [t for t in trs if t["mode"] == "zip-keystream"]
    pl = [t for t in trs if t["mode"] == "iter"]
    if len(ks) != 1 or len(pl) != 1:
        return False
    A, B = ks[0], pl[0]
    if A["loop"] & B["loop"]:
        return False
    a_first = cfg.must_pass_block(body, A["head"], B["head"])
    b_first = cfg.must_pass_block(body, B["head"], A["head"])
    if a_first == b_first:
        return False
    want_a_first = direction == "enc"
    idx_root = ("deref", ("param", 3))
    prev_root = ("deref", ("param", 4))
    rep.ok("traversal", fn, "in-order-whole-slice", "two plain in-order passes over the whole slice (key-stream xor pass, chaining pass), every element once in each", body.loc(A["head"]))
    kty = body.local_ty(2).peel_refs()
    klen = kty.len if kty.k == "array" else None
    rep.check(klen == keylen, "step", fn, "key-length", "key is [u8; %s]" % klen, "key array has length %s, expected %d" % (klen, keylen), body.loc())
    # ---- pass A: d[n] ^= kb, nothing carried
    okA = len(A["out_terms"]) == 1 and A["key_source"] == ("param", 2) and arith.norm(A["key_skip"], {strip(idx_root): "idx0"}) == S("idx0")
    outA = arith.norm(A["out_terms"][0], {A["in_term"]: "in", A["key_byte"]: "kb"}) if okA else ("?",)
    okA = okA and outA == xor(S("in"), S("kb"))
    carriedA = [k_ for (bb_, k_), ins in se.phi_inputs.items() if bb_ == A["head"] and k_[0] == "deref" and k_ in (idx_root, prev_root)]
    okA = okA and not carriedA
    # ---- pass B: one carried byte started from *previous_value
    carried = []
    for (bb_, k_), ins in se.phi_inputs.items():
        if bb_ != B["head"]:
            continue
        init = [v for p_, v in ins.items() if p_ not in B["loop"]]
        back = [v for p_, v in ins.items() if p_ in B["loop"]]
        if len(init) == 1 and len(back) == 1 and strip(init[0]) in (strip(prev_root), prev_root):
            carried.append((("phi", se.fn, bb_, k_, ()), back[0]))
    okB = len(carried) == 1 and len(B["out_terms"]) == 1
    outB = nprev = ("?",)
    if okB:
        phi_prev, back_prev = carried[0]
        envB = {strip(phi_prev): "prev", B["in_term"]: "in"}
        outB = arith.norm(B["out_terms"][0], envB)
        nprev = arith.norm(back_prev, envB)
    if direction == "enc":
        wantB, want_prev = wadd(S("in"), S("prev")), wadd(S("in"), S("prev"))
        composed = "out = (in ^ key[(idx + n) mod %d]) +8 prev; prev' = out" % keylen
    else:
        wantB, want_prev = ("wsub", S("in"), S("prev")), S("in")
        composed = "out = (in -8 prev) ^ key[(idx + n) mod %d]; prev' = in" % keylen
    order_ok = (a_first if want_a_first else b_first)
    rep.check(okA and okB and outB == wantB and order_ok, "step", fn, "output-byte", composed + " (the two passes composed)", "the two passes do not compose to the cipher step: xor pass %s, chaining pass %s, order %s" % (arith.show(outA) if outA != ("?",) else "?", arith.show(outB) if outB != ("?",) else "?", "xor first" if a_first else "chaining first"), body.loc(A["head"]))
    rep.check(okB and nprev == want_prev, "step", fn, "previous-update", "prev' = %s" % arith.show(nprev) if nprev != ("?",) else "prev'", "previous-value update is %s, expected %s" % (arith.show(nprev) if nprev != ("?",) else "?", arith.show(want_prev)), body.loc(B["head"]))
    # ---- index: written once from the call's length, as in the key-stream form
    eff = se.param_effects()
    e3 = eff.get(3)
    good_idx = False
    n3 = ("?",)
    if e3 is not None:
        r3 = util.numnorm(e3)
        idx0 = strip(idx_root)

        def is_len_data(x):
            if x[0] != "len":
                return False
            y = strip(x[1])
            while y[0] in ("after", "phi") and y[0] == "after":
                y = strip(y[3])
            return y == ("param", 1) or (y[0] == "phi")

        def widened(x):
            return x == ("cast", "IntToInt", idx0, "usize") or (util.is_call(x) and x[1].endswith("From<u8> for usize>::from") and strip(x[2][0]) == idx0)
        if r3[0] == "cast" and r3[1] == "IntToInt" and r3[3] == "u8" and r3[2][0] == "binop" and r3[2][1] == "Rem":
            m_ = r3[2][3]
            if util.is_call(m_) and "From<u8> for usize" in m_[1]:
                m_ = util.numnorm(m_[2][0])
            add = r3[2][2]
            if add[0] == "field" and add[2] == 0 and add[1][0] == "binop" and add[1][1] == "AddWithOverflow":
                add = ("binop", "Add", add[1][2], add[1][3])
            if m_[:2] == ("int", keylen) and add[0] == "binop" and add[1] == "Add":
                good_idx = (widened(add[2]) and is_len_data(add[3])) or (widened(add[3]) and is_len_data(add[2]))
        n3 = arith.norm(e3, {idx0: "idx0"}, wide=())
    rep.check(good_idx, "step", fn, "index-update", "idx' = ((idx as usize + data.len()) %% %d) as u8, stored once" % keylen, "index update is %s, expected ((idx as usize + len(data)) mod %d) truncated last" % (arith.show(n3)[:160] if n3 != ("?",) else "missing", keylen), body.loc())
    e4 = eff.get(4)
    ok_state = okB and e4 is not None and strip(e4) == strip(carried[0][0]) and set(eff) <= {1, 3, 4}
    rep.check(ok_state, "state-discipline", fn, "only-the-step-writes", "previous value = the carried byte of the chaining pass, stored back once; index written once from the call's length", "index / previous value are also written elsewhere: %s" % {k_: show(v_, maxdepth=2) for k_, v_ in eff.items()}, body.loc())
    idom = cfg.dominators(body)
    unc = True
    for T in (A, B):
        wb = T["writes"][0][0][0] if T["writes"] else None
        be_ = [e for e in cfg.back_edges(body) if e[1] == T["head"]]
        unc = unc and wb is not None and bool(be_) and all(cfg.dominates(idom, wb, t_) for t_, h_ in be_)
    rep.check(unc, "step", fn, "unconditional", "each pass stores to every byte", "a pass skips bytes", body.loc())
    return True


def _step_rule_fold(ctx, rep, fn, direction, keylen, se):
    """`*previous_value = data.iter_mut().fold(*previous_value, |prev, byte| { step; new prev })`:
    slice::IterMut::fold calls the closure once per element, in order, threading the accumulator;
    the per-byte step is the closure body (key and index reached through its captures).  Returns
    False when the function is not of this form (nothing is reported then)."""
    body = se.body
    folds = [i for i in se.term_info.values() if i.get("k") == "call" and (i["name"].endswith("as std::iter::Iterator>::fold") or i["name"] == "std::iter::Iterator::fold")]
    others = [i for i in se.term_info.values() if i.get("k") == "call" and i not in folds and i["name"] != "core::slice::<impl [T]>::iter_mut"]
    if len(folds) != 1 or others or "slice::IterMut" not in folds[0]["name"]:
        return False
    f = folds[0]
    it = strip(f["args"][0])
    over_data = util.is_call(it, "core::slice::<impl [T]>::iter_mut") and se.call_old.get((it[3][:2], 0)) == ("deref", ("param", 1))
    cl = f["locargs"][2] if len(f.get("locargs", ())) > 2 else ("?",)
    if not over_data or not (cl[0] == "agg" and cl[1] == "closure"):
        return False
    caps = cl[4]
    # captures: the key parameter (by shared reference) and the index parameter (by unique reference)
    def cap_of(n):
        ks = [k for k, c in enumerate(caps) if c[0] == "ref" and c[1] == ("local", n)]
        return ks[0] if len(ks) == 1 else None
    ck, ci_ = cap_of(2), cap_of(3)
    if ck is None or ci_ is None or len(caps) != 2 or caps[ci_][2] is not True:
        return False
    cse = ctx.flat.run(cl[2])
    if cse is None or cfg.back_edges(cse.body) or len(cse.final_states) != 1:
        return False
    fin = next(iter(cse.final_states.values()))
    env_root = ("deref", ("param", 1))
    key_t = ("deref", ("deref", ("field", env_root, ck)))
    idx_loc = ("deref", ("deref", ("field", env_root, ci_)))
    rep.ok("traversal", fn, "in-order-whole-slice", "data.iter_mut().fold(..): the closure runs once per element of the whole slice, in order", body.loc(f["site"][1]))
    kty = body.local_ty(2).peel_refs()
    klen = kty.len if kty.k == "array" else None
    rep.check(klen == keylen, "step", fn, "key-length", "key is [u8; %s]" % klen, "key array has length %s, expected %d" % (klen, keylen), body.loc())
    env = {strip(idx_loc): "idx", ("param", 2): "prev", strip(("deref", ("param", 3))): "in", strip(key_t): "key"}
    out_t = fin.get(("deref", ("param", 3)))
    idx_t = fin.get(idx_loc)
    if out_t is None or idx_t is None:
        rep.violation("step", fn, "shape", "the fold closure does not store the byte and advance the index", body.loc())
        return True
    out = arith.norm(out_t, env)
    nidx = arith.norm(idx_t, env)
    nprev = arith.norm(cse.ret, env)
    kb = ("idx", S("key"), S("idx"))
    if direction == "enc":
        want_out = wadd(xor(S("in"), kb), S("prev"))
        want_prev = want_out
    else:
        want_out = xor(("wsub", S("in"), S("prev")), kb)
        want_prev = S("in")
    want_idx = ("rem", ("add", S("idx"), I(1)), I(keylen))
    rep.check(out == want_out, "step", fn, "output-byte", "out = %s" % arith.show(out), "output byte is %s, expected %s" % (arith.show(out), arith.show(want_out)), cse.body.loc())
    rep.check(nidx == want_idx, "step", fn, "index-update", "idx' = %s" % arith.show(nidx), "index update is %s, expected %s" % (arith.show(nidx), arith.show(want_idx)), cse.body.loc())
    rep.check(nprev == want_prev, "step", fn, "previous-update", "prev' = %s (the accumulator handed to the next element)" % arith.show(nprev), "previous-value update is %s, expected %s" % (arith.show(nprev), arith.show(want_prev)), cse.body.loc())
    # nothing else is written through the closure; outside it only `*previous_value = fold(..)`
    extra = [k for k in fin if k[0] == "deref" and k not in (("deref", ("param", 3)), idx_loc)]
    eff = se.param_effects()
    ok_state = not extra and strip(f["args"][1]) in (("deref", ("param", 4)), ("param", 4)) and f["args"][1] != ("param", 4) and eff.get(4) is not None and strip(eff.get(4)) == strip(f["term"]) and set(eff) <= {1, 3, 4}
    rep.check(ok_state, "state-discipline", fn, "only-the-step-writes", "index written by the per-byte step only; previous value = the accumulator started from *previous_value and stored back once", "index / previous value are also written outside the per-byte step: %s" % {k: show(v, maxdepth=2) for k, v in eff.items()}, body.loc())
    rep.ok("step", fn, "unconditional", "the closure body is straight-line: the step is executed for every byte", cse.body.loc())
    return True


def _step_rule_for_each(ctx, rep, fn, direction, keylen, se):
    """`data.iter_mut().for_each(|byte| { step })`: slice::IterMut::for_each calls the closure once
    per element, in order; the per-byte step is the closure body, key / index / previous value
    reached through its captures (the three parameters, each captured once).  Returns False when
    the function is not of this form (nothing is reported then)."""
    body = se.body
    fes = [i for i in se.term_info.values() if i.get("k") == "call" and (i["name"].endswith("as std::iter::Iterator>::for_each") or i["name"] == "std::iter::Iterator::for_each")]
    others = [i for i in se.term_info.values() if i.get("k") == "call" and i not in fes and i["name"] != "core::slice::<impl [T]>::iter_mut"]
    if len(fes) != 1 or others or not (fes[0]["name"].startswith("<std::slice::IterMut<") or fes[0]["name"] == "std::iter::Iterator::for_each"):
        return False
    f = fes[0]
    it = strip(f["args"][0])
    over_data = util.is_call(it, "core::slice::<impl [T]>::iter_mut") and se.call_old.get((it[3][:2], 0)) == ("deref", ("param", 1))
    cl = f["locargs"][1] if len(f.get("locargs", ())) > 1 else ("?",)
    if not over_data or not (cl[0] == "agg" and cl[1] == "closure"):
        return False
    caps = cl[4]

    def cap_of(n):
        ks = [k for k, c in enumerate(caps) if c[0] == "ref" and c[1] == ("local", n)]
        return ks[0] if len(ks) == 1 else None
    ck, ci_, cp_ = cap_of(2), cap_of(3), cap_of(4)
    if ck is None or ci_ is None or cp_ is None or len(caps) != 3 or caps[ci_][2] is not True or caps[cp_][2] is not True:
        return False
    cse = ctx.flat.run(cl[2])
    if cse is None or cfg.back_edges(cse.body) or len(cse.final_states) != 1:
        return False
    fin = next(iter(cse.final_states.values()))
    env_root = ("deref", ("param", 1))
    key_t = ("deref", ("deref", ("field", env_root, ck)))
    idx_loc = ("deref", ("deref", ("field", env_root, ci_)))
    prev_loc = ("deref", ("deref", ("field", env_root, cp_)))
    rep.ok("traversal", fn, "in-order-whole-slice", "data.iter_mut().for_each(..): the closure runs once per element of the whole slice, in order", body.loc(f["site"][1]))
    kty = body.local_ty(2).peel_refs()
    klen = kty.len if kty.k == "array" else None
    rep.check(klen == keylen, "step", fn, "key-length", "key is [u8; %s]" % klen, "key array has length %s, expected %d" % (klen, keylen), body.loc())
    env = {strip(idx_loc): "idx", strip(prev_loc): "prev", strip(("deref", ("param", 2))): "in", strip(key_t): "key"}
    out_t = fin.get(("deref", ("param", 2)))
    idx_t = fin.get(idx_loc)
    prev_t = fin.get(prev_loc)
    if out_t is None or idx_t is None or prev_t is None:
        rep.violation("step", fn, "shape", "the for_each closure does not store the byte, advance the index and record the previous value", body.loc())
        return True
    out = arith.norm(out_t, env)
    nidx = arith.norm(idx_t, env)
    nprev = arith.norm(prev_t, env)
    kb = ("idx", S("key"), S("idx"))
    if direction == "enc":
        want_out = wadd(xor(S("in"), kb), S("prev"))
        want_prev = want_out
    else:
        want_out = xor(("wsub", S("in"), S("prev")), kb)
        want_prev = S("in")
    want_idx = ("rem", ("add", S("idx"), I(1)), I(keylen))
    rep.check(out == want_out, "step", fn, "output-byte", "out = %s" % arith.show(out), "output byte is %s, expected %s" % (arith.show(out), arith.show(want_out)), cse.body.loc())
    rep.check(nidx == want_idx, "step", fn, "index-update", "idx' = %s" % arith.show(nidx), "index update is %s, expected %s" % (arith.show(nidx), arith.show(want_idx)), cse.body.loc())
    rep.check(nprev == want_prev, "step", fn, "previous-update", "prev' = %s" % arith.show(nprev), "previous-value update is %s, expected %s" % (arith.show(nprev), arith.show(want_prev)), cse.body.loc())
    # nothing else is written through the closure, and the function itself writes the state nowhere else
    extra = [k for k in fin if k[0] == "deref" and k not in (("deref", ("param", 2)), idx_loc, prev_loc)]
    eff = se.param_effects()

    def only_call(e):
        e_ = e
        return e_ is not None and e_[0] == "after" and util.is_call(e_[1]) and e_[1][3][:2] == f["site"][:2] and strip(e_[3])[0] in ("param", "deref")
    ok_state = not extra and only_call(eff.get(3)) and only_call(eff.get(4)) and set(eff) <= {1, 3, 4}
    rep.check(ok_state, "state-discipline", fn, "only-the-step-writes", "index and previous value are written by the per-byte step only", "index / previous value are also written outside the per-byte step: %s" % {k: show(v, maxdepth=2) for k, v in eff.items()}, body.loc())
    rep.ok("step", fn, "unconditional", "the closure body is straight-line: the step is executed for every byte", cse.body.loc())
    return True


def _step_rule_keystream(ctx, rep, fn, direction, keylen, se, tr, prev):
    """the key position is not stepped per byte: byte n of the call is combined with
    key.iter().cycle().skip(idx0) item n = key[(idx0 + n) mod K], and the index is stored once
    after the loop as (idx0 + len(data)) mod K computed without truncation"""
    body = se.body
    head, loop = tr["head"], tr["loop"]
    idx_root = ("deref", ("param", 3))
    phi_prev, ins_prev = prev
    rep.ok("traversal", fn, "in-order-whole-slice", "plain in-order traversal of the whole slice, every element once (%s)" % tr["mode"], body.loc(head))
    in_term, out_terms, writes = tr["in_term"], tr["out_terms"], tr["writes"]
    wb = writes[0][0][0] if writes else None
    back_prev = [v for p, v in ins_prev.items() if p in loop]
    if len(out_terms) != 1 or len(back_prev) != 1 or wb is None:
        rep.violation("step", fn, "shape", "per-byte step is not one store to the byte and one previous-value update", body.loc())
        return
    # the key stream: the whole key parameter, cycled, skipping exactly the entry index
    skip_n = arith.norm(tr["key_skip"], {strip(idx_root): "idx0"})
    ks_ok = tr["key_source"] == ("param", 2) and skip_n == S("idx0")
    env = {strip(phi_prev): "prev", in_term: "in", tr["key_byte"]: "kb"}
    out = arith.norm(out_terms[0], env)
    nprev = arith.norm(back_prev[0], env)
    if direction == "enc":
        want_out = wadd(xor(S("in"), S("kb")), S("prev"))
        want_prev = want_out
    else:
        want_out = xor(("wsub", S("in"), S("prev")), S("kb"))
        want_prev = S("in")
    rep.check(out == want_out and ks_ok, "step", fn, "output-byte", "out = %s with kb = key[(idx + n) mod %d] (key.iter().cycle().skip(idx))" % (arith.show(out), keylen), "output byte is %s over key stream %s skipped by %s, expected %s over the key cycled from the current index" % (arith.show(out), show(tr["key_source"], maxdepth=2), arith.show(skip_n), arith.show(want_out)), body.loc(writes[0][0][0]))
    rep.check(nprev == want_prev, "step", fn, "previous-update", "prev' = %s" % arith.show(nprev), "previous-value update is %s, expected %s" % (arith.show(nprev), arith.show(want_prev)), body.loc())
    eff = se.param_effects()
    e3 = eff.get(3)
    # idx' = ((idx0 as usize + data.len()) % K) as u8: widened before the addition, reduced before the truncation
    from ranges import strip_len
    env2 = {strip(idx_root): "idx0"}
    n3 = arith.norm(e3, env2, wide=()) if e3 is not None else ("?", "the index is not written at all")

    def is_len_data(x):
        return x[0] == "?" and "len" in x[1] and "param', 1" in x[1] or x[0] == "len"

    good_idx = False
    r3 = util.numnorm(e3) if e3 is not None else ("?",)
    # `% session_key.len()`: the key parameter is an array (or a reference to one) of the key length
    kty = body.local_ty(2)
    kty = kty.peel_refs() if kty is not None else None
    if kty is not None and kty.k == "array" and kty.len == keylen:
        def _klen(x):
            if x[0] == "len" and strip(x[1]) == ("param", 2):
                return ("int", keylen, "usize")
            if util.is_call(x) and x[1].endswith("<impl [T]>::len") and len(x[2]) == 1 and strip(x[2][0]) == ("param", 2):
                return ("int", keylen, "usize")
            return None
        r3 = util.numnorm(util.map_term(r3, _klen))
    idx0 = strip(idx_root)

    def widened_idx(x):
        return x == ("cast", "IntToInt", idx0, "usize") or (util.is_call(x) and x[1].endswith("From<u8> for usize>::from") and strip(x[2][0]) == idx0)

    def len_of_data(x):
        if x[0] != "len":
            return False
        y = strip(x[1])
        while y[0] == "after":
            y = strip(y[3])
        return y == ("param", 1)

    if r3[0] == "cast" and r3[1] == "IntToInt" and r3[3] == "u8" and r3[2][0] == "binop" and r3[2][1] == "Rem" and r3[2][3][:2] == ("int", keylen):
        add = r3[2][2]
        if add[0] == "field" and add[2] == 0 and add[1][0] == "binop" and add[1][1] == "AddWithOverflow":
            add = ("binop", "Add", add[1][2], add[1][3])
        if add[0] == "binop" and add[1] == "Add":
            a_, b_ = add[2], add[3]
            good_idx = (widened_idx(a_) and len_of_data(b_)) or (widened_idx(b_) and len_of_data(a_))
    if not good_idx and e3 is not None:
        # any other spelling: decide  idx' == (idx0 + len) mod K  over the integers.  Every cast and
        # every addition on the way must be exact in its machine type (interval check from
        # idx0 in [its entry invariant], len in [0, isize::MAX]); a reduction `x % m` keeps the
        # value modulo K exactly when K divides m; what remains must be idx0 + len.
        import ranges
        ir = ranges.World(ctx).param_range(fn, 3, True)
        ir = ranges.meet(ir, (0, 255)) if ir is not None else (0, 255)
        TR = ranges.TYPE_RANGE

        def zf(t):
            """(linear form {atom: coeff} modulo K, (lo, hi), type) or None"""
            if t == idx0:
                return ({"idx0": 1}, ir, "u8")
            if len_of_data(t):
                return ({"len": 1}, (0, ranges.ISIZE_MAX), "usize")
            if t[0] == "int":
                return ({1: t[1] % keylen}, (t[1], t[1]), t[2] if len(t) > 2 else "usize")
            if util.is_call(t) and "From<u8> for u" in t[1] and t[1].endswith("::from") and len(t[2]) == 1:
                r = zf(strip(t[2][0]))
                return (r[0], r[1], t[1].split(" for ")[1].split(">")[0]) if r else None
            if t[0] == "cast" and t[1] == "IntToInt":
                r = zf(t[2])
                if r is None or t[3] not in TR or not (TR[t[3]][0] <= r[1][0] and r[1][1] <= TR[t[3]][1]):
                    return None
                return (r[0], r[1], t[3])
            if t[0] == "field" and t[2] == 0 and t[1][0] == "binop" and t[1][1] == "AddWithOverflow":
                t = ("binop", "Add", t[1][2], t[1][3])
            if t[0] == "binop" and t[1] == "Add":
                a, b = zf(t[2]), zf(t[3])
                if a is None or b is None or a[2] != b[2] or a[2] not in TR:
                    return None
                lo, hi = a[1][0] + b[1][0], a[1][1] + b[1][1]
                if hi > TR[a[2]][1]:
                    return None
                lin = dict(a[0])
                for k_, c_ in b[0].items():
                    lin[k_] = (lin.get(k_, 0) + c_) % keylen
                return (lin, (lo, hi), a[2])
            if t[0] == "binop" and t[1] == "Rem" and t[3][0] == "int" and t[3][1] > 0:
                a = zf(t[2])
                if a is None or t[3][1] % keylen != 0:
                    return None
                return (a[0], (0, min(a[1][1], t[3][1] - 1)), a[2])
            return None

        if r3[0] == "binop" and r3[1] == "Rem" and r3[3][:2] == ("int", keylen) or (r3[0] == "cast" and r3[2][0] == "binop" and r3[2][1] == "Rem" and r3[2][3][:2] == ("int", keylen)):
            z = zf(r3)
            good_idx = z is not None and {k_: c_ for k_, c_ in z[0].items() if c_} == {"idx0": 1, "len": 1}
    rep.check(good_idx, "step", fn, "index-update", "idx' = ((idx as usize + data.len()) %% %d) as u8, stored once after the loop" % keylen, "index update is %s, expected ((idx as usize + len(data)) mod %d) truncated last" % (arith.show(n3)[:160], keylen), body.loc())
    ok_state = eff.get(4) == phi_prev and len(ins_prev) == 2 and e3 is not None
    rep.check(ok_state, "state-discipline", fn, "only-the-step-writes", "previous value written by the per-byte step only; index written once from the call's length", "index / previous value are also written elsewhere: idx=%s prev=%s" % (show(eff.get(3), maxdepth=2), show(eff.get(4), maxdepth=2)), body.loc())
    idom = cfg.dominators(body)
    be = [e for e in cfg.back_edges(body) if e[1] == head or cfg.dominates(idom, head, e[0])]
    rep.check(bool(be) and all(cfg.dominates(idom, wb, t_) for t_, h in be), "step", fn, "unconditional", "the step is executed for every byte", "the byte/state update is conditional inside the loop", body.loc(wb))


def _step_rule_method(ctx, rep, fn, direction, keylen, se, half):
    """the per-byte step written directly in the half's method `fn(&mut self, data)`: the state
    is (self.index, self.previous_value), the key is self.<key field>"""
    fb = ctx.fb
    body = se.body
    tr = _traversal(ctx, se, dparam=2)
    if isinstance(tr, tuple):
        rep.violation("traversal", fn, "loop" if "found" in tr[1] else "in-order-whole-slice", tr[1], body.loc())
        return
    head, loop = tr["head"], tr["loop"]
    fs = fb.adt_fields(half)
    tys = [fb.ty(f["ty"]) for f in fs]
    kf = [i for i, t in enumerate(tys) if t.k == "array"]
    u8s = [i for i, t in enumerate(tys) if t.k == "int" and t.bits == 8 and not t.signed]
    klen = tys[kf[0]].len if len(kf) == 1 else None
    rep.check(klen == keylen and len(u8s) == 2 and len(fs) == 3, "step", fn, "key-length", "state = key [u8; %s] + two u8 counters" % klen, "half fields are %s, expected a [u8; %d] key and two u8 state bytes" % ([t.s for t in tys], keylen), body.loc())
    if not (klen == keylen and len(u8s) == 2):
        return
    self_root = ("deref", ("param", 1))
    phi_self = None
    ins_self = None
    for (bb, key), ins in se.phi_inputs.items():
        if bb == head and key == self_root:
            init = [v for p_, v in ins.items() if p_ not in loop]
            if len(init) == 1 and init[0] == self_root:
                phi_self, ins_self = ("phi", se.fn, bb, key, ()), ins
    if phi_self is None:
        rep.violation("step", fn, "state", "index / previous value are not loop-carried state (no update per byte?)", body.loc())
        return
    rep.ok("traversal", fn, "in-order-whole-slice", "plain in-order traversal of the whole slice, every element once (%s)" % tr["mode"], body.loc(head))
    back = [v for p, v in ins_self.items() if p in loop]
    in_term, out_terms, writes = tr["in_term"], tr["out_terms"], tr["writes"]
    wb = writes[0][0][0] if writes else None
    upd = {}
    t = back[0] if len(back) == 1 else ("?",)
    while t[0] == "upd" and t[2][0] == "f":
        upd.setdefault(t[2][1], t[3])
        t = t[1]
    if len(out_terms) != 1 or len(back) != 1 or wb is None or t != phi_self or set(upd) != set(u8s):
        rep.violation("step", fn, "shape", "per-byte step is not one store to the byte and one update of each of the two state bytes (fields written: %s)" % sorted(upd), body.loc())
        return
    sp = strip(phi_self)
    # roles of the two state bytes: the index is the one used to look the key up
    kb_terms = [x for x in walk(strip(out_terms[0])) if x[0] == "index" and strip(x[1]) == ("field", sp, kf[0])]
    fi = None
    for c in u8s:
        envc = {("field", sp, c): "idx"}
        if any(arith.norm(x[2], envc) == S("idx") for x in kb_terms):
            fi = c
    if fi is None:
        rep.violation("step", fn, "index-update", "the key is not looked up at one of the two state bytes", body.loc())
        return
    fp = [c for c in u8s if c != fi][0]
    env = {("field", sp, fi): "idx", ("field", sp, fp): "prev", in_term: "in", ("field", sp, kf[0]): "key"}
    out = arith.norm(out_terms[0], env)
    # `% self.key.len() as u8` with the key handed on as a slice: the length of the key field
    # is the length of its array type
    klen_ty = tys[kf[0]].len if tys[kf[0]].k == "array" else None

    def fold_key_len(x):
        if util.is_call(x) and x[1].endswith("<impl [T]>::len") and len(x[2]) == 1 and klen_ty is not None:
            y = strip(x[2][0])
            while util.is_call(y) and y[1] in util.IDENT_CALLS and len(y[2]) == 1:
                y = strip(y[2][0])
            if y == ("field", sp, kf[0]):
                return ("int", klen_ty, "usize")
        return None

    upd_i = util.map_term(upd[fi], fold_key_len) if isinstance(upd[fi], tuple) else upd[fi]
    nidx = _select(se, upd_i, env)
    nprev = arith.norm(upd[fp], env)
    kb = ("idx", S("key"), S("idx"))
    if direction == "enc":
        want_out = wadd(xor(S("in"), kb), S("prev"))
        want_prev = want_out
    else:
        want_out = xor(("wsub", S("in"), S("prev")), kb)
        want_prev = S("in")
    want_idx = ("rem", ("add", S("idx"), I(1)), I(keylen))
    rep.check(out == want_out, "step", fn, "output-byte", "out = %s" % arith.show(out), "output byte is %s, expected %s" % (arith.show(out), arith.show(want_out)), body.loc(writes[0][0][0]))
    rep.check(nidx == want_idx, "step", fn, "index-update", "idx' = %s" % arith.show(nidx), "index update is %s, expected %s" % (arith.show(nidx), arith.show(want_idx)), body.loc())
    rep.check(nprev == want_prev, "step", fn, "previous-update", "prev' = %s" % arith.show(nprev), "previous-value update is %s, expected %s" % (arith.show(nprev), arith.show(want_prev)), body.loc())
    eff = se.param_effects()
    rep.check(eff.get(1) == phi_self and len(ins_self) == 2, "state-discipline", fn, "only-the-step-writes", "index/previous value are written by the per-byte step only (empty input leaves them untouched)", "the half's state is also written outside the per-byte step: %s" % show(eff.get(1), maxdepth=2), body.loc())
    idom = cfg.dominators(body)
    be = [e for e in cfg.back_edges(body) if e[1] == head or cfg.dominates(idom, head, e[0])]
    rep.check(bool(be) and all(cfg.dominates(idom, wb, t_) for t_, h in be), "step", fn, "unconditional", "the step is executed for every byte", "the byte/state update is conditional inside the loop", body.loc(wb))
    return kf[0]


def field_writers(fb, adt_path):
    """A4b census: every place in the crate where a field of `adt_path` is stored to or mutably
    borrowed, and every aggregate construction: (body path, kind, field index)"""
    out = []
    for b in fb.bodies.values():
        if b.derived():
            continue

        def scan_place(p, kind, bi):
            ty = b.local_ty(p["l"])
            for e in p["p"]:
                if ty is None:
                    return
                if e == "*":
                    ty = ty.to
                elif "f" in e:
                    base = ty
                    if base is not None and base.k == "adt" and base.path == adt_path:
                        out.append((b.path, kind, e["f"], b.loc(bi)))
                    ty = fb.ty(e["ty"])
                elif "i" in e or "ci" in e:
                    ty = ty.elem if ty is not None else None
            # whole-object store / borrow
            return

        for bi in b.normal_blocks():
            for s in b.blocks[bi]["stmts"]:
                if s["k"] != "assign":
                    continue
                scan_place(s["place"], "store", bi)
                rv = s["rv"]
                if rv["k"] == "ref" and rv.get("mut"):
                    scan_place(rv["place"], "mutborrow", bi)
                    # &mut of the whole object
                    pt = __import__("symex").place_ty(fb, b, rv["place"])
                    if pt is not None and pt.k == "adt" and pt.path == adt_path:
                        out.append((b.path, "mutborrow-whole", None, b.loc(bi)))
                if rv["k"] == "aggregate" and rv.get("ak") == "adt" and rv["path"] == adt_path:
                    out.append((b.path, "aggregate", None, b.loc(bi)))
            t = b.blocks[bi]["term"]
            if t["k"] == "call":
                scan_place(t["dest"], "store", bi)
    return out


def state_census(ctx, rep, half, key_role_ctor, allowed_writers, state_field_count=2):
    """index / previous value of a half are written only by `new` (constants 0) and through the
    raw operation; nobody else in the crate stores to or mutably borrows them."""
    fb = ctx.fb
    fc = util.faithful_clones(ctx)        # a proved field-for-field copy creates no new state
    ws = [w for w in field_writers(fb, half) if w[0] not in fc]
    bad = [w for w in ws if w[1] in ("store", "mutborrow") and w[0] not in allowed_writers]
    rep.check(not bad, "state-writers", half, "field-census", "%d write/borrow sites, all in %s" % (len([w for w in ws if w[1] != 'mutborrow-whole']), sorted(allowed_writers)), "cipher state of %s is written outside its raw operation: %s" % (half, [(w[0], w[3]) for w in bad]))
    # every construction site (helpers extracted by a refactoring are seen at their call sites)
    # starts the cipher at index 0, previous value 0
    aggs = [w for w in ws if w[1] == "aggregate" and w[0] not in getattr(fb, "fresh_paths", ())]
    site_fns = sorted({w[0] for w in aggs})
    rep.check(bool(aggs), "state-writers", half, "constructed-only-in-new", "constructed in %s" % site_fns, "%s is never constructed" % half)
    tys = [fb.ty(f["ty"]) for f in fb.adt_fields(half)]
    state_ix = [i for i, t in enumerate(tys) if util.scalar_kind(fb, t) == "int"]
    bad_sites = []
    n_seen = 0
    for fn_ in site_fns:
        se = ctx.wrap.run(fn_)
        if se is None:
            bad_sites.append((fn_, "not analysable"))
            continue
        vals = [v for (bi, si), (loc, v) in se.assigns.items() if v[0] == "agg" and v[1] == "adt" and v[2] == half]
        for v in vals:
            n_seen += 1
            if not (len(state_ix) == state_field_count and len(v[4]) == state_field_count + 1 and all(util.unwrap_newtype_value(fb, v[4][i])[:2] == ("int", 0) for i in state_ix)):
                bad_sites.append((fn_, show(v, maxdepth=2)))
    rep.check(n_seen > 0 and not bad_sites, "initial-state", key_role_ctor, "zero", "index = 0, previous value = 0 at every construction site %s" % site_fns, "initial cipher state is not (index 0, previous 0): %s" % bad_sites[:2])
    # derived PartialEq covers all fields (observation point of the property)
    rep.check("std::cmp::PartialEq" in fb.derived_traits(half), "initial-state", half, "derived-eq", "== on the half is derived (all fields)", "== on %s is hand-written" % half)
