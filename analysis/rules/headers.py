"""Tables shared by the header-cipher rules (C07-C12): the combined objects, their halves,
the facade methods.  Types are identified by their public paths; fields by *type role*
(which field holds the encrypting half / the decrypting half), never by field name."""
from rules import util

COMBINED = [
    # (feature or None, combined type, encrypter half, decrypter half)
    (None, "vanilla_header::HeaderCrypto", "vanilla_header::encrypt::EncrypterHalf", "vanilla_header::decrypt::DecrypterHalf"),
    ("tbc-header", "tbc_header::HeaderCrypto", "tbc_header::encrypt::EncrypterHalf", "tbc_header::decrypt::DecrypterHalf"),
    ("wrath-header", "wrath_header::ClientCrypto", "wrath_header::encrypt::ClientEncrypterHalf", "wrath_header::decrypt::ClientDecrypterHalf"),
    ("wrath-header", "wrath_header::ServerCrypto", "wrath_header::encrypt::ServerEncrypterHalf", "wrath_header::decrypt::ServerDecrypterHalf"),
]
INNER = {"wrath-header": ["wrath_header::inner_crypto::InnerCrypto", "rc4::Rc4"]}

ENC_FAMILY = ("encrypt", "write_encrypted_server_header", "write_encrypted_client_header", "encrypt_server_header", "encrypt_client_header")
DEC_FAMILY = ("decrypt", "read_and_decrypt_server_header", "read_and_decrypt_client_header", "decrypt_server_header", "decrypt_client_header", "attempt_decrypt_server_header", "decrypt_large_server_header")


def active(ctx):
    return [c for c in COMBINED if c[0] is None or c[0] in ctx.features]


def half_field(ctx, combined, half):
    fs = ctx.fb.adt_fields(combined) or []
    ix = [i for i, f in enumerate(fs) if ctx.fb.ty(f["ty"]).path == half]
    return ix[0] if len(ix) == 1 else None


def facade_methods(ctx, combined):
    """public methods of the combined type that take &mut self, by family"""
    out = []
    pre = combined + "::"
    for p, b in ctx.fb.bodies.items():
        if p.startswith(pre) and b.kind == "AssocFn" and "::" not in p[len(pre):]:
            name = p[len(pre):]
            if name in ENC_FAMILY:
                out.append((name, "enc", b))
            elif name in DEC_FAMILY:
                out.append((name, "dec", b))
    return out


def half_short(path):
    return path.split("::")[-1]
