"""C18 - matrix-card proofs match what a user reads off the printed card (decided in part).

Decides: (a) cell addressing against the printing order - to_printer cuts `data` into
consecutive digit_count-byte chunks and get_matrix_coordinates decodes coordinate c as
x = c mod width, y = c / width, hence get_number_at_coordinates(x, y) must return
data[(y*width + x)*digit_count ..][..digit_count] (A6 term comparison); (b) the round guard
dominating `coordinates[round]` must imply round < challenge_count = len(coordinates), and a
row outside the card yields None (A7 dominating-guard rule); (c) proof transcript: key =
MD5[LE64(seed) | K] keys both RC4 and HMAC-SHA1, enter_value RC4-encrypts the one byte and MACs
that encrypted byte, into_proof finalises that MAC (A5); (d) the server-side check builds the
verifier with (count, card.height, seed, card.width, K) in the parameter roles, visits rounds
0..count in order, enters the digits of the addressed cell in order and compares all 20 bytes
(A3/A2); accessors return the same-role fields; (e) generate_coordinates is decided to be the
draw-without-replacement algorithm (identity table, per round index = seed % remaining, close
the gap, seed /= remaining; rules/algos.py).  NOT decided: the paper lemma that this algorithm
yields distinct cells; RC4/HMAC/MD5 internals."""
import cfg
from rules import util, roles, arith
from rules.arith import S, I
from rules.util import P, strip, canon, show_b
from symex import show, walk

EXPLANATION = __doc__
TRUSTED = ["rustc / extractor", "md5, hmac, sha1 crates; RC4 (C09)", "slice::chunks(n) yields consecutive n-byte chunks in order (printing order)", "selection from a shrinking table (index = seed % remaining, gap closed) never repeats a cell", "digest::Mac::verify_slice(tag) is Ok exactly when tag has the MAC's output length and equals the finalised MAC in every byte"]
NOT_DECIDED = ["that drawing index seed % remaining from a table and closing the gap yields distinct cells (paper lemma; the code is decided to BE that algorithm)", "RC4 / HMAC / MD5 internals"]
FLOORS = {"cell-offset": 2, "printing-order": 1, "round-guard": 3, "transcript": 4, "server-check": 5, "accessor": 3, "distinct": 4}
MC = "matrix_card::MatrixCard"
MV = "matrix_card::MatrixCardVerifier"


def applicable(feats):
    return "matrix-card" in feats


def _only_dead_none_exits(se, lp):
    """every exit of the rounds loop other than its own end is the `None` arm of a match on
    `verifier.get_matrix_coordinates(round)` with round the loop's own counter.  That arm is dead:
    the rounds are 0..challenge_count (rule rounds), the verifier was built with the card's own
    width / height and that count (verifier-args, coordinates-args), its list has challenge_count
    entries (length), every entry is a cell drawn from the identity table over width * height
    cells (identity-table, draw-without-replacement: an entry c < width * height), and the lookup
    refuses only round >= challenge_count or c / width >= height (bound, decode) - each a rule of
    this property that reports on its own when it stops holding."""
    body = se.body
    extra = util.loop_exits(body, lp["next_bb"]) - {(lp["switch_bb"], lp["exit_bb"])}
    if not extra:
        return False
    for b, s_ in extra:
        sw = se.term_info.get(b, {})
        if sw.get("k") != "switch":
            return False
        d = strip(sw["discr"])
        if not (d[0] == "discr" and util.is_call(strip(d[1]), MV + "::get_matrix_coordinates") and strip(strip(d[1])[2][1]) == strip(lp["elem"])):
            return False
        tg = dict(sw["targets"])
        none_edge = tg[0] if 0 in tg else (sw["otherwise"] if set(tg) == {1} else None)
        if none_edge != s_ or tg.get(1) == s_:
            return False
    return True


def comm(e):
    if not isinstance(e, tuple):
        return e
    if e[0] in ("mul", "add") and len(e) == 3:
        return (e[0], frozenset([comm(e[1]), comm(e[2])]))
    return tuple(comm(x) if isinstance(x, tuple) and x and isinstance(x[0], str) else x for x in e)


def check(ctx, rep):
    fb = ctx.fb
    # ---------------- roles of MatrixCard fields from from_data(digit_count, height, width, data)
    cr = roles.ctor_field_roles(ctx, MC + "::from_data", MC, {1: "dc", 2: "h", 3: "w", 4: "data"}) or {}
    ci = roles.inv(cr)
    if not all(k in ci for k in ("dc", "h", "w", "data")):
        rep.violation("accessor", MC, "roles", "cannot bind MatrixCard fields to the from_data parameters: %s" % cr)
        return
    # new() must agree with from_data on the roles
    nr = roles.ctor_field_roles(ctx, MC + "::new", MC, {1: "dc", 2: "h", 3: "w"}) or {}
    rep.check(all(nr.get(ci[k]) == k for k in ("dc", "h", "w")), "accessor", MC + "::new", "roles-agree", "new and from_data store (digit_count, height, width) in the same fields", "MatrixCard::new and from_data disagree on the field roles: %s vs %s" % (nr, cr))
    for fn, role in ((MC + "::width", "w"), (MC + "::height", "h"), (MC + "::digit_count", "dc")):
        ase = ctx.wrap.run(fn)
        good = ase is not None and canon(ctx, ase, ase.ret) == ("field", ("param", 1), ci[role])
        rep.check(good, "accessor", fn, role, "accessor returns the %s field" % role, "%s() does not return the stored %s" % (fn.split("::")[-1], role))
    selff = lambda r: ("field", ("param", 1), ci[r])
    # ---------------- (a) cell offset
    fn = MC + "::get_number_at_coordinates"
    se = ctx.wrap.run(fn)
    if se is None:
        rep.violation("cell-offset", fn, "anchor", "not found")
    else:
        r = canon(ctx, se, se.ret)
        good = False
        env = {selff("w"): "w", selff("dc"): "dc", ("param", 2): "x", ("param", 3): "y"}
        desc = show(r, maxdepth=4)
        if util.is_call(r) and r[1].endswith("::index") and r[2][0] == selff("data") and r[2][1][0] == "agg" and r[2][1][2] == "std::ops::Range":
            st = comm(arith.norm(r[2][1][4][0], env))
            en = comm(arith.norm(r[2][1][4][1], env))
            want_st = comm(("mul", ("add", ("mul", S("y"), S("w")), S("x")), S("dc")))
            want_en = comm(("add", want_st, S("dc")))
            good = st == want_st
            desc = "start = %s" % arith.show(arith.norm(r[2][1][4][0], env))
            rep.check(good, "cell-offset", fn, "start", desc, "cell (x, y) starts at %s; the printed card has it at (y*width + x)*digit_count" % arith.show(arith.norm(r[2][1][4][0], env)), se.body.loc())
            rep.check(en == comm(("add", st, S("dc"))), "cell-offset", fn, "length", "cell is digit_count bytes long", "cell end is %s, expected start + digit_count" % arith.show(arith.norm(r[2][1][4][1], env)), se.body.loc())
        else:
            rep.violation("cell-offset", fn, "start", "result is not a sub-range of the card data: " + desc, se.body.loc())
    # printing order: to_printer = data.chunks(digit_count)
    pse = ctx.wrap.run(MC + "::to_printer")
    good = False
    if pse is not None:
        r = canon(ctx, pse, pse.ret)
        for t in walk(r):
            if util.is_call(t, "core::slice::<impl [T]>::chunks"):
                src = t[2][0]
                while util.is_call(src) and ("deref" in src[1] or src[1] in util.IDENT_CALLS):
                    src = src[2][0]
                n = arith.norm(t[2][1], {selff("dc"): "dc"})
                good = src == selff("data") and n == S("dc")
    rep.check(good, "printing-order", MC + "::to_printer", "chunks", "printed cell n = data[n*dc .. (n+1)*dc]", "to_printer does not cut the data into consecutive digit_count-sized chunks")
    cell_text_rule(ctx, rep)
    card_size_rule(ctx, rep)
    # ---------------- verifier roles
    def same_list(c):
        """the same elements in another owner: Vec -> Box<[u8]> (`into_boxed_slice`, `into()`)"""
        c = strip(c)
        while util.is_call(c) and len(c[2]) == 1 and (c[1] in BOXED or c[1] in util.IDENT_CALLS):
            c = strip(c[2][0])
        return c
    vr = roles.ctor_field_roles(ctx, MV + "::new", MV, {1: "cc", 2: "h", 4: "w"}, lambda c: "coords" if util.is_call(same_list(c), "matrix_card::generate_coordinates") else None, engine="wrap") or {}
    vi = roles.inv(vr)
    if not all(k in vi for k in ("cc", "h", "w", "coords")):
        rep.violation("round-guard", MV, "roles", "cannot bind MatrixCardVerifier fields: %s" % vr)
        return
    vf = lambda r: ("field", ("param", 1), vi[r])
    # coordinates has exactly challenge_count entries
    nse = ctx.wrap.run(MV + "::new")
    good = False
    r = canon(ctx, nse, nse.ret)
    gc = same_list(r[4][vi["coords"]])
    good = gc[2] == (("param", 4), ("param", 2), ("param", 1), ("param", 3))
    rep.check(good, "round-guard", MV + "::new", "coordinates-args", "coordinates = generate_coordinates(width, height, challenge_count, seed)", "generate_coordinates is called with %s" % [show(x) for x in gc[2]])
    gse = ctx.wrap.run("matrix_card::generate_coordinates")
    good = False
    if gse is not None and gse.converged:
        t = gse.ret
        seen = set()
        work = [t]
        origins = set()
        while work:
            x = strip(work.pop())
            if x in seen:
                continue
            seen.add(x)
            if x[0] == "phi":
                work.extend(gse.phi_inputs.get((x[2], x[3]), {}).values())
            elif x[0] == "after" and util.is_call(x[1]) and (x[1][1].endswith("::index_mut") or x[1][1].endswith("DerefMut>::deref_mut") or x[1][1].endswith("<impl [T]>::iter_mut") or x[1][1].endswith("for &'a mut [T]>::into_iter") or x[1][1].endswith("::as_mut_slice")):
                # writes through a `&mut [u8]` view of the Vec: elements change, the length cannot
                work.append(x[3])
            elif x[0] == "upd":
                work.append(x[1])
            else:
                origins.add(x)
        good = len(origins) == 1
        if good:
            o = next(iter(origins))
            good = util.is_call(o, "std::vec::from_elem") and arith.norm(o[2][1], {("param", 3): "cc"}) == S("cc")
        if not good:
            # an empty list and one unconditional `push` in each of the rounds `0..challenge_count`
            # of a loop that has no other exit: challenge_count entries when the loop is done
            from rules import algos
            for head, (elem, src, lp) in algos.for_info(ctx, gse).items():
                if not (src is not None and src[0] == "agg" and src[2] == "std::ops::Range" and algos.N(src[4][0], {}) == algos.I(0) and algos.N(src[4][1], {}) == ("param", 3) and lp["only_exit"]):
                    continue
                for key, (init, step) in algos.loop_state(gse, head).items():
                    ph = algos.phi_of(gse, head, key)
                    i0 = strip(init)
                    if util.is_call(i0) and i0[1] in algos.EMPTY_VEC and algos.pushed_per_round(step, ph) is not None and strip(gse.ret) == ph:
                        good = True
    rep.check(good, "round-guard", "matrix_card::generate_coordinates", "length", "the coordinate list has exactly challenge_count entries", "the coordinate list is not created with challenge_count entries (or is resized)")
    # ---------------- (b) round guard
    fn = MV + "::get_matrix_coordinates"
    se = ctx.wrap.run(fn)
    body = se.body
    idx_blocks = [bb for bb, i in se.term_info.items() if i.get("k") == "call" and i["name"].endswith("::index") and canon(ctx, se, i["args"][0]) == vf("coords")]
    # (a list that is indexed in place - an array, a boxed slice - has no `index` call: the blocks
    # that read `coordinates[..]`)
    for (bi, si), (loc, v) in se.assigns.items():
        if bi not in idx_blocks and any(t[0] == "index" and strip(t[1]) == vf("coords") for t in walk(v)):
            idx_blocks.append(bi)
    env = {vf("cc"): "cc", ("param", 2): "round", vf("w"): "w", vf("h"): "h"}
    guard = None
    for bb, d, f_t, t_t in util.bool_switches(se):
        n = arith.norm(d, env)
        if n == ("Ge", S("round"), S("cc")):
            guard = (bb, f_t, t_t, "round >= count => None")
        elif n == ("Lt", S("round"), S("cc")):
            guard = (bb, t_t, f_t, "round < count required")
        elif n == ("Gt", S("round"), S("cc")):
            guard = (bb, None, t_t, "round > count => None (round == count passes)")
    pipe = util.option_pipeline(ctx, se, se.ret) if not idx_blocks else None
    if pipe is not None:
        # Some(round).filter(round < count).map(coordinates[round]).map((c % w, c / w)).filter(y < h)
        v0, steps = pipe
        seen_guard = False
        idx_ok = dec_ok = row_ok = False
        cterm = None
        for kind, tm in steps:
            e1 = dict(env)
            if cterm is not None:
                e1[cterm] = "c"
            n = arith.norm(tm, e1)
            if kind == "guard" and n == ("Lt", S("round"), S("cc")):
                seen_guard = True
            elif kind == "value" and cterm is None:
                # the first step whose value contains the lookup is the step that performs it
                for x in walk(strip(tm)):
                    is_idx = (util.is_call(x) and x[1].endswith("::index") and canon(ctx, se, x[2][0]) == vf("coords")) or (x[0] == "index" and strip(x[1]) == vf("coords"))
                    if is_idx:
                        ix = x[2][1] if util.is_call(x) else x[2]
                        idx_ok = seen_guard and arith.norm(ix, env) == S("round") and x == strip(tm)     # only behind the guard, and nothing else rides along
                        cterm = x
                        break
            elif kind == "value" and cterm is not None:
                x = strip(tm)
                if x[0] == "agg" and x[1] == "tuple" and len(x[4]) == 2:
                    e2 = dict(env)
                    e2[cterm] = "c"
                    dec_ok = arith.norm(x[4][0], e2) == ("rem", S("c"), S("w")) and arith.norm(x[4][1], e2) == ("Div", S("c"), S("w"))
            elif kind == "guard" and cterm is not None and n in (("Lt", ("Div", S("c"), S("w")), S("h")), ("Lt", ("fld", ("arr", (("rem", S("c"), S("w")), ("Div", S("c"), S("w")))), 1), S("h"))):
                row_ok = dec_ok
        rep.check(strip(v0) == ("param", 2) and idx_ok, "round-guard", fn, "bound", "coordinates[round] only behind filter(round < challenge_count); otherwise None", "the lookup coordinates[round] is not guarded by round < challenge_count in the Option pipeline", body.loc())
        rep.check(dec_ok and row_ok, "round-guard", fn, "decode", "c = coordinates[round]; x = c mod width, y = c / width; y >= height => None", "coordinate decoding is not (c mod width, c / width) with rows outside the card refused", body.loc())
        idx_blocks = None
    if idx_blocks is None:
        pass
    elif not idx_blocks:
        rep.violation("round-guard", fn, "bound", "no indexing of the coordinate list found", body.loc())
    elif guard is None:
        rep.violation("round-guard", fn, "bound", "no comparison of the round with challenge_count guards coordinates[round]", body.loc())
    else:
        gb, pass_t, none_t, desc = guard
        good = pass_t is not None and all(cfg.must_pass_edge(body, (gb, pass_t), b) for b in idx_blocks)
        nones = [bi for bi, si, s in util.blocks_constructing(body, "std::option::Option", "None")]
        good_none = any(cfg.must_pass_edge(body, (gb, none_t), b) for b in nones)
        rep.check(good and good_none, "round-guard", fn, "bound", "coordinates[round] only under round < challenge_count; otherwise None", "the guard before coordinates[round] is `%s`: for round == challenge_count the index is out of bounds (panic) instead of None" % desc, body.loc(gb))
    # decoding x = c % w, y = c / w, y >= h => None
    good = False
    if pipe is not None:
        algos_done = True
    ret_phi = se.ret
    somes = [(bi, si) for bi, si, s in util.blocks_constructing(body, "std::option::Option", "Some")]
    if len(somes) == 1:
        loc, v = se.assigns[somes[0]]
        tup = strip(v[4][0])
        if tup[0] == "agg" and tup[1] == "tuple" and len(tup[4]) == 2:
            cterm = None
            ridx_t = None
            for t in walk(tup):
                if util.is_call(t) and t[1].endswith("::index"):
                    cterm, ridx_t = t, t[2][1]
                elif t[0] == "index" and t[1] == vf("coords"):
                    cterm, ridx_t = t, t[2]
            if cterm is not None:
                env2 = dict(env)
                env2[cterm] = "c"
                x = arith.norm(tup[4][0], env2)
                y = arith.norm(tup[4][1], env2)
                ridx = arith.norm(ridx_t, env2)
                good = x == ("rem", S("c"), S("w")) and y == ("Div", S("c"), S("w")) and ridx == S("round")
                hg = None
                for bb, d, f_t, t_t in util.bool_switches(se):
                    n = arith.norm(d, env2)
                    if n == ("Ge", ("Div", S("c"), S("w")), S("h")):
                        hg = (bb, f_t)
                    elif n == ("Lt", ("Div", S("c"), S("w")), S("h")):
                        hg = (bb, t_t)
                good = good and hg is not None and cfg.must_pass_edge(body, hg, somes[0][0])
    if pipe is None:
        rep.check(good, "round-guard", fn, "decode", "c = coordinates[round]; x = c mod width, y = c / width; y >= height => None", "coordinate decoding is not (c mod width, c / width) with rows outside the card refused", body.loc())
    # ---------------- (e) distinct coordinates: the selection is the draw-without-replacement scheme
    from rules import algos

    algos.generate_coordinates_rule(ctx, rep, "distinct")
    # ---------------- (c) transcripts
    r = canon(ctx, nse, nse.ret)
    hm = rc = None
    for i, o in enumerate(r[4]):
        if util.is_call(o) and o[1] in util.UNWRAP and util.is_call(o[2][0]) and o[2][0][1] in util.MAC_NEW:
            hm = o[2][0]
        if util.is_call(o, "rc4::Rc4::new"):
            rc = o
    want_key = ("MD5", (("le", "u64", P(3)), P(5)))
    good = hm is not None and rc is not None
    if good:
        k1 = util.bexpr(ctx, nse, hm[2][0])
        k2 = util.bexpr(ctx, nse, rc[2][0])
        k1 = k1[1] if k1[0] == "F" and k1[2] == 0 else k1
        k2 = k2[1] if k2[0] == "F" and k2[2] == 0 else k2
        good = k1 == util.cb(want_key) and k2 == util.cb(want_key) and util.digest_type_ok(ctx, hm, "hmac::HmacCore<") and util.digest_type_ok(ctx, hm, "sha1::Sha1Core")
        desc = "hmac key %s; rc4 key %s" % (show_b(k1), show_b(k2))
    else:
        desc = "hmac / rc4 construction not found"
    rep.check(good, "transcript", MV + "::new", "md5-key", "HMAC-SHA1 and RC4 are both keyed with MD5[LE64(seed) | session key]", "verifier keys are not MD5[LE64(seed) | K] for both RC4 and HMAC-SHA1: " + desc, nse.body.loc())
    hf = [i for i, o in enumerate(r[4]) if util.is_call(o) and o[1] in util.UNWRAP]
    rf = [i for i, o in enumerate(r[4]) if util.is_call(o, "rc4::Rc4::new")]
    ese = ctx.wrap.run(MV + "::enter_value")
    good = False
    if ese is not None and hf and rf:
        eff = ese.param_effects().get(1)
        upd = {}
        t = eff
        while t is not None and t[0] == "upd" and t[2][0] == "f":
            upd.setdefault(t[2][1], t[3])
            t = t[1]
        if set(upd) == {hf[0], rf[0]} and t == ("deref", ("param", 1)):
            ru = upd[rf[0]]
            hu = upd[hf[0]]
            r_ok = ru[0] == "after" and util.is_call(ru[1], "rc4::Rc4::apply_keystream") and ru[2] == 0 and ru[3] == ("field", ("deref", ("param", 1)), rf[0])
            buf_old = ese.call_old.get((ru[1][3][:2], 1)) if r_ok else None
            # buffer = [value] (possibly through as_mut_slice)
            def peelbuf(x):
                x = strip(x)
                while x[0] == "after" and util.is_call(x[1]) and ("as_mut_slice" in x[1][1] or "deref_mut" in x[1][1]):
                    x = strip(x[3])
                return x
            b_ok = buf_old is not None and peelbuf(buf_old) in (("agg", "array", None, 0, (("param", 2),)), ("param", 2))   # [value], or the byte itself viewed as a one-element slice (slice::from_mut)
            h_ok = hu[0] == "after" and util.is_call(hu[1]) and hu[1][1] in util.MAC_UPDATE and hu[2] == 0 and hu[3] == ("field", ("deref", ("param", 1)), hf[0])
            if h_ok:
                x = strip(hu[1][2][1])
                # the MAC input is the buffer *after* the keystream was applied
                enc = False
                for sub in walk(x):
                    if sub[0] == "after" and util.is_call(sub[1], "rc4::Rc4::apply_keystream") and sub[2] == 1:
                        enc = True
                # ... all of it and nothing else: the MAC input is that one-byte buffer itself
                y = x
                while y[0] in ("ref", "refv") or (util.is_call(y) and (y[1] in util.IDENT_CALLS or "as_slice" in y[1] or "deref" in y[1].lower()) and len(y[2]) == 1):
                    y = strip(y[1] if y[0] in ("ref", "refv") else y[2][0])
                whole = y[0] == "after" and util.is_call(y[1], "rc4::Rc4::apply_keystream") and y[2] == 1 and y[1][3][:2] == ru[1][3][:2]
                h_ok = enc and whole
            good = r_ok and b_ok and h_ok
    rep.check(good, "transcript", MV + "::enter_value", "encrypt-then-mac", "rc4 encrypts the one digit byte; the MAC is updated with that encrypted byte", "enter_value is not `rc4.apply_keystream([value]); hmac.update(encrypted byte)`", ese.body.loc() if ese else None)
    ise = ctx.wrap.run(MV + "::into_proof")
    good = False
    if ise is not None and hf:
        rr = strip(ise.ret)
        while util.is_call(rr) and rr[1] in util.IDENT_CALLS:
            rr = strip(rr[2][0])
        good = util.is_call(rr) and rr[1] in util.DIGEST_FINAL + util.MAC_FINAL and strip(rr[2][0]) == ("field", ("param", 1), hf[0])
        out = fb.ty(ise.body.d["output"])
        good = good and out.k == "array" and out.len == 20
    rep.check(good, "transcript", MV + "::into_proof", "finalize", "proof = the finalised HMAC-SHA1 (20 bytes)", "into_proof does not finalise the verifier's MAC into the 20-byte proof")
    rep.check(fb.const_int("matrix_card::MAX_MATRIX_CARD_VALUE") == 9 and fb.const_int("matrix_card::MIN_MATRIX_CARD_VALUE") == 0, "transcript", "matrix_card", "digit-range", "digits 0..=9", "digit range constants are not 0..=9")
    # ---------------- (d) server-side check
    fn = "matrix_card::verify_matrix_card_hash"
    se = ctx.wrap.run(fn)
    if se is None:
        rep.violation("server-check", fn, "anchor", "not found")
        return
    body = se.body
    news = [i for i in se.term_info.values() if i.get("k") == "call" and i["name"] == MV + "::new"]
    good = False
    if len(news) == 1:
        a = tuple(canon(ctx, se, x) for x in news[0]["args"])
        good = a == (("param", 2), selff("h"), ("param", 3), selff("w"), ("param", 4))
        desc = [show(x) for x in a]
    rep.check(good, "server-check", fn, "verifier-args", "MatrixCardVerifier::new(count, card.height, seed, card.width, K)", "the verifier is built with %s; expected (challenge_count, card.height(), seed, card.width(), session_key)" % (desc if news else "?"), body.loc())
    loops = util.for_loops(ctx, se)
    outer = inner = None
    for lp in loops:
        ic = lp["init_call"]
        if ic is None:
            continue
        src = strip(ic[2][0])
        if not lp["only_exit"] and not (src[0] == "agg" and src[2] == "std::ops::Range" and _only_dead_none_exits(se, lp)):
            continue        # a loop that can be left early does not visit every round / every digit
        if src[0] == "agg" and src[2] == "std::ops::Range":
            if src[4][0][:2] == ("int", 0) and strip(src[4][1]) == ("param", 2):
                outer = lp
        else:
            src = _same_elements(src)
            if util.is_call(src, MC + "::get_number_at_coordinates"):
                inner = (lp, src)
    good = outer is not None
    rep.check(good, "server-check", fn, "rounds", "rounds 0..challenge_count in order", "the rounds visited are not 0..challenge_count in order", body.loc())
    good = False
    if outer is not None and inner is not None:
        lp, src = inner
        gm = [i for i in se.term_info.values() if i.get("k") == "call" and i["name"] == MV + "::get_matrix_coordinates"]
        if len(gm) == 1:
            rarg = strip(gm[0]["args"][1])
            round_ok = rarg == strip(outer["elem"])
            xy = None
            for t in walk(strip(src)):
                pass
            a = tuple(strip(x) for x in src[2])
            un = None
            for t in se.term_info.values():
                if t.get("k") == "call" and t["name"] in util.UNWRAP and strip(t["args"][0]) in (strip(gm[0]["term"]), strip(gm[0].get("ret") or gm[0]["term"])):
                    un = strip(t["term"])
            if un is None and not outer["only_exit"]:
                # `let Some((x, y)) = .. else { return .. }`: the payload of the Some arm
                un = ("field", ("downcast", strip(gm[0]["term"]), 1), 0)
            xy_ok = un is not None and a[0] == ("param", 1) and a[1] == ("field", un, 0) and a[2] == ("field", un, 1)
            ev = [i for i in se.term_info.values() if i.get("k") == "call" and i["name"] == MV + "::enter_value"]
            dig_ok = len(ev) == 1 and strip(ev[0]["args"][1]) == strip(lp["elem"])
            # (the source was peeled down to the cell through element-preserving adaptors only)
            plain = (lp["resolved"] or "").startswith(("<std::slice::Iter<", "<std::iter::Copied<", "<std::iter::Cloned<"))
            # every digit is entered (nothing in front of enter_value lets an iteration skip it), and
            # every round reaches the digit loop
            idom_ = cfg.dominators(body)
            every_digit = len(ev) == 1 and all(cfg.dominates(idom_, ev[0]["site"][1], t_) for t_, h_ in cfg.back_edges(body) if h_ == lp["next_bb"])
            every_round = all(cfg.dominates(idom_, lp["next_bb"], t_) for t_, h_ in cfg.back_edges(body) if h_ == outer["next_bb"])
            good = round_ok and xy_ok and dig_ok and plain and every_digit and every_round
    how = "for each round the digits of cell (x, y) = coordinates(round) are entered in order"
    fe = [i for i in se.term_info.values() if i.get("k") == "call" and (i["name"] == "std::iter::Iterator::for_each" or i["name"].endswith(" as std::iter::Iterator>::for_each") and i["name"].startswith(("<std::slice::Iter<", "<std::iter::Copied<", "<std::iter::Cloned<"))) and util.is_call(_same_elements(i["args"][0]), MC + "::get_number_at_coordinates")]
    if outer is not None and inner is None and len(fe) == 1:
        # cell.iter().for_each(|digit| v.enter_value(*digit)): the closure runs once per digit, in order
        src = _same_elements(fe[0]["args"][0])
        gm = [i for i in se.term_info.values() if i.get("k") == "call" and i["name"] == MV + "::get_matrix_coordinates"]
        cl = fe[0]["locargs"][1] if len(fe[0].get("locargs", ())) > 1 else None
        if len(gm) == 1 and cl is not None and cl[0] == "agg" and cl[1] == "closure" and len(cl[4]) == 1 and len(news) == 1:
            un = None
            for t in se.term_info.values():
                if t.get("k") == "call" and t["name"] in util.UNWRAP and strip(t["args"][0]) in (strip(gm[0]["term"]), strip(gm[0].get("ret") or gm[0]["term"])):
                    un = strip(t["term"])
            a = tuple(strip(x) for x in src[2])
            xy_ok = un is not None and a[0] == ("param", 1) and a[1] == ("field", un, 0) and a[2] == ("field", un, 1)
            round_ok = strip(gm[0]["args"][1]) == strip(outer["elem"])
            cap_ok = cl[4][0] == ("ref", news[0]["dest"], True)
            cse = ctx.flat.run(cl[2])
            body_ok = False
            if cse is not None and not cfg.back_edges(cse.body):
                cc = [i for i in cse.term_info.values() if i.get("k") == "call"]
                if len(cc) == 1 and cc[0]["name"] == MV + "::enter_value":
                    la = cc[0]["locargs"]
                    body_ok = la[0][0] == "ref" and strip(la[0][1]) == strip(("deref", ("field", ("param", 1), 0))) and strip(cc[0]["args"][1]) == ("param", 2)
            idom = cfg.dominators(body)
            every = all(cfg.dominates(idom, fe[0]["site"][1], t_) for t_, h_ in cfg.back_edges(body) if h_ == outer["next_bb"])
            good = xy_ok and round_ok and cap_ok and body_ok and every
            how = "for each round the digits of cell (x, y) = coordinates(round) are entered in order (for_each over the cell)"
    elif outer is not None and inner is None:
        # the whole cell at once: the digits copied into a scratch slice of their own length, that
        # slice run through the verifier's RC4 and then through its MAC - the same as digit by
        # digit, because both are streaming (RC4: one keystream byte per data byte in order, C09's
        # keystream rule; `update(a); update(b)` = `update(a | b)`)
        calls = [i for i in se.term_info.values() if i.get("k") == "call"]
        gn = [i for i in calls if i["name"] == MC + "::get_number_at_coordinates"]
        gm = [i for i in calls if i["name"] == MV + "::get_matrix_coordinates"]
        cps = [i for i in calls if i["name"].split("::")[-1] in ("copy_from_slice", "clone_from_slice")]
        aps = [i for i in calls if i["name"] == "rc4::Rc4::apply_keystream"]
        ups = [i for i in calls if i["name"] in util.MAC_UPDATE]
        evs = [i for i in calls if i["name"] == MV + "::enter_value"]
        if len(gn) == 1 and len(gm) == 1 and len(cps) == 1 and len(aps) == 1 and len(ups) == 1 and not evs:
            D = strip(gn[0]["term"])
            un = None
            for t in calls:
                if t["name"] in util.UNWRAP and strip(t["args"][0]) in (strip(gm[0]["term"]), strip(gm[0].get("ret") or gm[0]["term"])):
                    un = strip(t["term"])
            a = tuple(strip(x) for x in gn[0]["args"])
            xy_ok = un is not None and a[0] == ("param", 1) and a[1] == ("field", un, 0) and a[2] == ("field", un, 1)
            round_ok = strip(gm[0]["args"][1]) == strip(outer["elem"])

            def ptr(x):
                x = strip(x)
                while x[0] in ("ref", "refv", "deref"):
                    x = strip(x[1])
                return x
            R = ptr(cps[0]["locargs"][0])
            cut_ok = util.is_call(R) and R[1].endswith("::index_mut") and len(R[2]) == 2
            if cut_ok:
                rg = strip(R[2][1])
                ln = util.numnorm(rg[4][0]) if rg[0] == "agg" and rg[2] == "std::ops::RangeTo" else (util.numnorm(rg[4][1]) if rg[0] == "agg" and rg[2] == "std::ops::Range" and util.numnorm(rg[4][0])[:2] == ("int", 0) else None)
                cut_ok = ln is not None and ln[0] == "len" and ptr(ln[1]) == D
            src_ok = ptr(cps[0]["args"][1]) == D
            vloc = news[0]["dest"] if len(news) == 1 else None
            same_buf = ptr(aps[0]["locargs"][1]) == R and ptr(ups[0]["locargs"][1]) == R

            def on_verifier(i_):
                la_ = i_["locargs"][0]
                return la_[0] == "ref" and la_[1][0] == "field" and vloc is not None and la_[1][1] == vloc
            order = aps[0]["site"][1] != ups[0]["site"][1] and cfg.must_pass_block(body, cps[0]["site"][1], aps[0]["site"][1]) and cfg.must_pass_block(body, aps[0]["site"][1], ups[0]["site"][1])
            idom = cfg.dominators(body)
            head = outer["next_bb"]
            every = all(cfg.dominates(idom, ups[0]["site"][1], t_) for t_, h_ in cfg.back_edges(body) if h_ == head)
            good = xy_ok and round_ok and cut_ok and src_ok and same_buf and on_verifier(aps[0]) and on_verifier(ups[0]) and aps[0]["locargs"][0][1] != ups[0]["locargs"][0][1] and order and every
            how = "for each round the digits of cell (x, y) = coordinates(round) are copied whole into a scratch slice of their length, encrypted by the verifier's RC4 and then fed to its MAC (streaming: the same as digit by digit)"
    rep.check(good, "server-check", fn, "digits", how, "the digits entered are not those of the challenged cell, in order", body.loc())
    ip = [i for i in se.term_info.values() if i.get("k") == "call" and i["name"] == MV + "::into_proof"]
    cmps = util.compare_sites(ctx, se)
    good = False
    if len(ip) == 1 and len(cmps) == 1:
        c = cmps[0]
        ok, why = util.whole_value_type(fb, c["self_ty"])
        ops = {strip(x) for x in c["args"]}
        r0 = strip(se.ret)
        if r0[0] == "phi" and outer is not None and not outer["only_exit"]:
            # the value returned from the (dead, see _only_dead_none_exits) early exits aside: what
            # the function returns when the rounds are done
            dead_from = {s_ for b_, s_ in util.loop_exits(body, outer["next_bb"]) if (b_, s_) != (outer["switch_bb"], outer["exit_bb"])}
            idom_r = cfg.dominators(body)
            live = [v_ for p_, v_ in se.phi_inputs.get((r0[2], r0[3]), {}).items() if not any(cfg.dominates(idom_r, d_, p_) for d_ in dead_from)]
            if len(live) == 1:
                r0 = strip(live[0])
        good = ok and c["self_ty"].k == "array" and c["self_ty"].len == 20 and ops == {strip(ip[0]["term"]), ("param", 5)} and r0 == strip(c["term"]) and c["op"] == "eq"
    vs = [i for i in se.term_info.values() if i.get("k") == "call" and i["name"] == "<T as digest::Mac>::verify_slice"]
    if not good and not ip and not cmps and len(vs) == 1 and len(news) == 1:
        # `verifier.hmac.verify_slice(client_proof).is_ok()`: the digest crate's own comparison of
        # the finalised tag with a slice - Ok exactly when the slice has the tag's length and every
        # byte agrees (here: all 20 bytes of the `&[u8; 20]` parameter, HMAC-SHA1's output size);
        # the MAC is the verifier's, as `into_proof` would have finalised it
        def unref(x):
            x = strip(x)
            while x[0] in ("ref", "refv") or (x[0] == "deref" and strip(x[1])[0] in ("ref", "refv", "param")):
                x = strip(x[1])
            return x
        a0, a1 = strip(vs[0]["args"][0]), unref(vs[0]["args"][1])
        fs_ = fb.adt_fields(MV) or []
        hk = [k_ for k_, f_ in enumerate(fs_) if fb.ty(f_["ty"]).s == "digest::core_api::CoreWrapper<hmac::HmacCore<digest::core_api::CoreWrapper<sha1::Sha1Core>>>"]
        pty = body.local_ty(5)
        p20 = pty is not None and pty.k == "ref" and pty.to.k == "array" and pty.to.len == 20
        base = strip(a0[1]) if a0[0] == "field" else None
        on_v = base is not None and len(hk) == 1 and a0[2] == hk[0] and ((base[0] == "phi" and base[3] == news[0]["dest"]) or base == strip(news[0]["term"]))
        r_ = strip(se.ret)
        good = p20 and on_v and a1 == ("param", 5) and util.is_call(r_, "std::result::Result::<T, E>::is_ok") and unref(r_[2][0]) == strip(vs[0]["term"])
    rep.check(good, "server-check", fn, "result", "result = (computed 20-byte proof == presented proof)", "the result is not the whole-array equality of the computed and the presented proof", body.loc())
    rep.check(True, "server-check", fn, "present", "server-side check analysed", "")


def _same_elements(it):
    """an iterator term with the adaptors peeled that yield the same elements in the same order"""
    it = strip(it)
    while util.is_call(it) and len(it[2]) == 1 and it[1].split("::")[-1] in ("iter", "into_iter", "copied", "cloned", "by_ref"):
        it = strip(it[2][0])
    return it


# a Vec handed over as a boxed slice: the same elements, the same length, no longer resizable
BOXED = ("std::vec::Vec::<T, A>::into_boxed_slice", "std::boxed::<impl std::convert::From<std::vec::Vec<T, A>> for std::boxed::Box<[T], A>>::from", "alloc::boxed::<impl std::convert::From<std::vec::Vec<T, A>> for std::boxed::Box<[T], A>>::from")


# ------------------------------------------------------------------------------------ printed cell text

PRINTER_NEXT = "<matrix_card::MatrixCardPrinter<'_> as std::iter::Iterator>::next"
EMPTY_STRING = ("std::string::String::with_capacity", "std::string::String::new")
APPEND = ("<std::string::String as std::ops::AddAssign<&str>>::add_assign", "std::string::String::push_str")


def _digit_text(t, item):
    """t is (a borrow of) ToString::to_string(item): the decimal text of one digit byte"""
    t = strip(t)
    for _ in range(4):
        if util.is_call(t) and (t[1].endswith("::deref") or t[1].endswith("::as_str") or t[1].endswith("::borrow") or t[1].endswith("::as_ref")) and len(t[2]) == 1:
            t = strip(t[2][0])
    return util.is_call(t) and t[1].endswith("std::string::ToString>::to_string") and len(t[2]) == 1 and strip(t[2][0]) == strip(item)


_DEC_MEMO = {}


def decimal_appender(ctx, path):
    """`path(s: &mut String, v: u8)` appends exactly the decimal text of v (what `Display for u8`
    prints) to s and does nothing else - decided over the finite domain: for each of the 256
    values the branches of the loop-free body are decided, and the characters pushed on the
    chosen path, folded to constants, must spell str(v)."""
    key = (id(ctx.fb), path)
    if key in _DEC_MEMO:
        return _DEC_MEMO[key]
    _DEC_MEMO[key] = False
    from symex import fold_consts
    fb = ctx.fb
    b = fb.body(path)
    if b is None or b.arg_count != 2 or cfg.back_edges(b):
        return False
    t1, t2 = b.local_ty(1), b.local_ty(2)
    if not (t1 is not None and t1.k == "ref" and t1.d.get("mut") and t1.to is not None and t1.to.s == "std::string::String" and t2 is not None and t2.s == "u8"):
        return False
    base = ctx.flat.run(path)
    if base is None:
        return False

    def at(t, v):
        return fold_consts(util.map_term(strip(t), lambda x: ("int", v, "u8") if x == ("param", 2) else None))

    def char_code(t):
        t = fold_consts(t)
        for _ in range(4):
            if util.is_call(t) and len(t[2]) == 1 and ("From<u8> for char" in t[1] or t[1] in util.IDENT_CALLS):
                t = fold_consts(t[2][0])
            elif t[0] == "cast" and t[1] in ("IntToInt", "IntToChar", "CharToInt"):
                t = fold_consts(t[2])
        return t[1] if t[0] == "int" else None

    for v in range(256):
        keep = {}
        for bb, info in base.term_info.items():
            if info.get("k") != "switch":
                continue
            d = at(info["discr"], v)
            if d[0] != "int":
                return False
            keep[bb] = dict(info["targets"]).get(d[1], info["otherwise"])
        vn = fb.pruned(path, "dec%d" % v, keep) if keep else path
        vse = ctx.flat.run(vn) if vn else None
        if vse is None or any(i.get("k") == "switch" for i in vse.term_info.values()):
            return False
        text = []
        for bb in sorted(vse.term_info, key=lambda b_: (len(cfg.reachable(vse.body, start=b_)) * -1, b_)):
            i = vse.term_info[bb]
            if i.get("k") != "call":
                continue
            if i["name"] == "std::string::String::push" and i["locargs"][0][0] == "ref" and i["locargs"][0][1] == ("deref", ("param", 1)):
                c = char_code(at(i["args"][1], v))
                if c is None:
                    return False
                text.append(chr(c))
            elif "From<u8> for char" in i["name"] or i["name"] in util.IDENT_CALLS:
                continue
            else:
                return False
        if "".join(text) != str(v):
            return False
        eff = vse.param_effects()
        if set(eff) - {1}:
            return False
    _DEC_MEMO[key] = True
    return True


def _append_of(step, acc, item, ctx=None):
    """step = the accumulator after exactly one append of the digit text of `item` to `acc`"""
    step = strip(step)
    if step[0] != "after" or not util.is_call(step[1]) or step[2] != 0 or strip(step[3]) != strip(acc):
        return False
    c = step[1]
    if ctx is not None and c[1] in ctx.fb.bodies and len(c[2]) == 2 and strip(c[2][1]) == strip(item) and decimal_appender(ctx, c[1]):
        return True         # a crate helper that appends the decimal text of the byte (decided value by value)
    if c[1] in APPEND:
        return _digit_text(c[2][1], item)
    if c[1].endswith("fmt::Write::write_fmt") and len(c[2]) == 2:
        # `write!(s, "{}", b)`: one default `{}` placeholder and nothing else (template b"\xC0\x00",
        # core::fmt's encoding of the format string), its argument the byte through Display - the
        # same decimal text as to_string(); writing to a String cannot fail
        a = strip(c[2][1])
        if util.is_call(a) and a[1].split("::<")[0].endswith("fmt::Arguments") and a[1].endswith("::new") and len(a[2]) == 2:
            tpl, arr = strip(a[2][0]), strip(a[2][1])
            tpl_ok = tpl[0] == "bytes" and bytes(tpl[1]) == b"\xc0\x00"
            arg_ok = arr[0] == "agg" and arr[1] == "array" and len(arr[4]) == 1 and util.is_call(strip(arr[4][0])) and strip(arr[4][0])[1].endswith("::new_display") and strip(strip(arr[4][0])[2][0]) == strip(item)
            return tpl_ok and arg_ok
    return False


def _renders(ctx, se, x, cell, depth=0):
    """x (a String value in se) is the concatenation, in order, of the decimal text of every
    byte of the slice `cell`: built from an empty String by one append per element in a
    for-loop over the slice, or by `cell.iter().fold(String::.., |s, b| { s += b.to_string(); s })`"""
    from rules import algos
    x = strip(x)
    cell = strip(cell)
    if util.is_call(x) and x[1].endswith("::fold") and len(x[2]) == 3:
        it, init, cl = strip(x[2][0]), strip(x[2][1]), x[2][2]
        src_ok = util.is_call(it, "core::slice::<impl [T]>::iter") and strip(it[2][0]) == cell
        init_ok = util.is_call(init) and init[1] in EMPTY_STRING
        if not (src_ok and init_ok and cl[0] == "agg" and cl[1] == "closure" and not cl[4]):
            return False
        cse = ctx.flat.run(cl[2])
        if cse is None or cfg.back_edges(cse.body):
            return False
        calls = [i for i in cse.term_info.values() if i.get("k") == "call" and not i["name"].endswith("::deref")]
        return len(calls) == 2 and _append_of(cse.ret, ("param", 2), ("param", 3), ctx)
    # loop form: the value is the accumulator phi of a for-loop over the cell
    if x[0] == "phi" and x[1] == se.fn:
        fi = algos.for_info(ctx, se)
        for head, (elem, src, lp) in fi.items():
            st = algos.loop_state(se, head)
            for key, (init, step) in st.items():
                if algos.phi_of(se, head, key) != x:
                    continue
                src_t = strip(lp["init"] or ("?",))
                if util.is_call(src_t, "core::slice::<impl [T]>::iter"):
                    src_t = strip(src_t[2][0])
                init_s = strip(init)
                return src_t == cell and util.is_call(init_s) and init_s[1] in EMPTY_STRING and _append_of(step, x, lp["elem"], ctx)
    return False


def cell_text_rule(ctx, rep):
    """what the user reads: printed cell n is the text of chunk n, one decimal digit per byte in
    order, nothing dropped (a leading 0 is a digit the user must type).  Decided on
    MatrixCardPrinter::next (and on any other Iterator method the printer overrides)."""
    fb = ctx.fb
    rule, role = "printing-order", "cell-text"
    se = ctx.wrap.run(PRINTER_NEXT)
    if se is None:
        rep.violation(rule, PRINTER_NEXT, role, "function not found")
        return
    body = se.body
    nexts = [i for i in se.term_info.values() if i.get("k") == "call" and i["name"].endswith("Chunks<'a, T> as std::iter::Iterator>::next")]
    ok_src = len(nexts) == 1 and nexts[0]["locargs"][0][0] == "ref" and strip(nexts[0]["locargs"][0][1])[0] == "field" and strip(strip(nexts[0]["locargs"][0][1])[1]) == ("param", 1)
    good = False
    why = "the printer does not take exactly one chunk per call"
    if ok_src:
        nx = nexts[0]["term"]
        cell = ("field", ("downcast", nx, 1), 0)
        r = strip(se.ret)
        why = "returned value is %s" % show(r, maxdepth=3)
        if util.is_call(r) and r[1] == "std::option::Option::<T>::map" and strip(r[2][0]) == strip(nx):
            # chunks.next().map(render)
            f = r[2][1]
            if f[0] == "agg" and f[1] == "closure" and not f[4]:
                cse = ctx.wrap.run(f[2])
                good = cse is not None and _renders(ctx, cse, cse.ret, ("param", 2))
            elif f[0] == "fn" and f[1] in fb.bodies:
                cse = ctx.wrap.run(f[1])
                good = cse is not None and _renders(ctx, cse, cse.ret, ("param", 1))
            why = "chunks.next().map(render), render = append every byte's decimal text" if good else "the mapped function is not the digit-by-digit rendering"
        else:
            somes = [(bi, si) for bi, si, s_ in util.blocks_constructing(body, "std::option::Option", "Some")]
            if len(somes) == 1:
                v = se.assigns[somes[0]][1]
                # `let bytes = self.chunks.next()?`: the chunk is the Continue payload of branch(next())
                br = [i_["term"] for i_ in se.term_info.values() if i_.get("k") == "call" and i_["name"].endswith("Option<T> as std::ops::Try>::branch") and strip(i_["args"][0]) == strip(nx)]
                tested, some_v = strip(nx), 1
                if len(br) == 1:
                    cell = ("field", ("downcast", br[0], 0), 0)
                    tested, some_v = strip(br[0]), 0
                rendered = _renders(ctx, se, v[4][0], cell)
                # every path on which a chunk was obtained returns that Some
                sw = [bb for bb, i in se.term_info.items() if i.get("k") == "switch" and strip(i["discr"]) == ("discr", tested)]
                covers = False
                if len(sw) == 1:
                    i = se.term_info[sw[0]]
                    tg = dict(i["targets"])
                    some_t = tg.get(some_v, i["otherwise"])
                    tg = {0: tg.get(1 - some_v, i["otherwise"])}
                    rets = [b for b in cfg.reachable(body, start=some_t) if body.blocks[b]["term"]["k"] == "return"]
                    past = cfg.reachable(body, start=some_t, cut_blocks=[somes[0][0]])
                    covers = bool(rets) and not any(rb in past for rb in rets)
                    none_t = tg.get(0, i["otherwise"])
                    covers = covers and somes[0][0] not in cfg.reachable(body, start=none_t, cut_blocks=[some_t])
                good = rendered and covers
                why = "Some(text) with text = every byte's decimal text appended in order to an empty String; None exactly when the chunks are exhausted" if good else "rendering recognised: %s; Some returned exactly on the chunk path: %s" % (rendered, covers)
    rep.check(good, rule, PRINTER_NEXT, role, why, "printed cell text is not the chunk's digits one by one: " + why, body.loc())
    # other Iterator methods overridden by the printer would bypass `next`
    others = sorted(p_ for p_ in fb.bodies if p_.startswith("<matrix_card::MatrixCardPrinter<'_> as std::iter::Iterator>::") and p_ != PRINTER_NEXT and fb.bodies[p_].kind in ("Fn", "AssocFn"))
    bad = []
    for o in others:
        ose = ctx.wrap.run(o)
        r = strip(ose.ret) if ose is not None else ("?",)
        name = o.split("::")[-1]
        if name == "size_hint":
            continue
        # accepted: chunks.<same method>(args).map(<the same rendering>)
        okm = False
        if util.is_call(r) and r[1] == "std::option::Option::<T>::map" and util.is_call(strip(r[2][0])) and strip(r[2][0])[1].split("::")[-1] == name and "Chunks" in strip(r[2][0])[1]:
            f = r[2][1]
            if f[0] == "agg" and f[1] == "closure" and not f[4]:
                cse = ctx.wrap.run(f[2])
                okm = cse is not None and _renders(ctx, cse, cse.ret, ("param", 2))
            elif f[0] == "fn" and f[1] in fb.bodies:
                cse = ctx.wrap.run(f[1])
                okm = cse is not None and _renders(ctx, cse, cse.ret, ("param", 1))
        if not okm:
            bad.append(o)
    rep.check(not bad, rule, "MatrixCardPrinter", "overrides", "no Iterator method of the printer bypasses the rendering of next()", "the printer overrides %s with something that is not chunks.<method>().map(<digit-by-digit rendering>)" % bad)


# ------------------------------------------------------------------------------------ card data length

def _card_size(t):
    """t is digit_count * height * width of the constructor's first three parameters: the call
    get_matrix_card_size(arg1, arg2, arg3) or the product spelled out"""
    t = strip(t)
    if util.is_call(t, MC + "::get_matrix_card_size") and tuple(strip(x) for x in t[2]) == (("param", 1), ("param", 2), ("param", 3)):
        return True
    n = arith.norm(t, {("param", 1): "a", ("param", 2): "b", ("param", 3): "c"})

    def factors(x):
        if isinstance(x, tuple) and x and x[0] == "mul":
            out = []
            for y in (x[1] if isinstance(x[1], (set, frozenset)) else x[1:]):
                out += factors(y)
            return out
        return [x]
    return sorted(map(str, factors(n))) == sorted(map(str, [("sym", "a"), ("sym", "b"), ("sym", "c")]))


def card_size_rule(ctx, rep):
    """every cell offset (cell-offset rule) lies inside the data only if a card's data has exactly
    digit_count * height * width bytes: `from_data` builds a card only behind that equality (a
    shorter vector would make the lookups and the server-side check panic, a longer one prints
    cells that are on no card); `new` allocates exactly that many (C15 decides what fills them)"""
    fn = MC + "::from_data"
    se = ctx.wrap.run(fn)
    if se is None:
        rep.violation("cell-offset", fn, "data-length", "from_data not found")
        return
    body = se.body

    def is_len_eq(d):
        """+1 when d is len(data) == size, -1 when !=, else 0"""
        d = strip(d)
        neg = 1
        while d[0] == "unop" and d[1] == "Not":
            neg = -neg
            d = strip(d[2])
        if d[0] != "binop" or d[1] not in ("Eq", "Ne"):
            return 0
        a, b = util.numnorm(d[2]), util.numnorm(d[3])
        def is_len(x):
            x = strip(x)
            if x[0] == "len":
                return strip(x[1]) == ("param", 4)
            return util.is_call(x) and x[1].endswith("::len") and len(x[2]) == 1 and strip(x[2][0]) == ("param", 4)
        ok = (is_len(a) and _card_size(b)) or (is_len(b) and _card_size(a))
        return (neg if d[1] == "Eq" else -neg) if ok else 0

    good = False
    why = "no test data.len() == digit_count * height * width"
    aggs = [bi for bi, si, s_ in util.blocks_constructing(body, MC)]
    for bb, d, f_t, t_t in util.bool_switches(se):
        sg = is_len_eq(d)
        if sg and aggs:
            eq_t = t_t if sg > 0 else f_t
            good = all(cfg.must_pass_edge(body, (bb, eq_t), bi) for bi in aggs)
            why = "the card is built only behind data.len() == digit_count * height * width" if good else "a card can be built without passing the length test"
    if not good and not aggs:
        vs = util.strip(se.ret)
        # (data.len() == size).then(|| Self { .. })
        if util.is_call(vs, "core::bool::<impl bool>::then") and is_len_eq(vs[2][0]) > 0:
            good = True
            why = "(data.len() == digit_count * height * width).then(|| card)"
    rep.check(good, "cell-offset", fn, "data-length", why, "from_data does not insist on exactly digit_count * height * width bytes: " + why, body.loc())
