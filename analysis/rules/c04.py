"""C04 - public keys are refused exactly when they are congruent to zero modulo N.

Decides: the *reject set* of the byte-level validity test behind `PublicKey::from_le_bytes`
is computed by abstract evaluation (A7, finite product domain over the 32 byte positions
with the extracted bytes of N): recognised forms are (A) whole-array equalities against
constant arrays and (B) an early-exit scan whose per-position continue-condition is a byte
membership test; the set must be exactly {0^32 -> PublicKeyIsZero, N -> PublicKeyModLarge-
SafePrimeIsZero}.  Accepted keys are stored and handed back unchanged (A3); every non-derived
construction of PublicKey is behind a successful validity decision (A4a + A1): the server's own
B goes through from_le_bytes, the client's A through the arithmetic test `is zero` / `% announced
modulus == 0` in that order with the matching error kinds; premise 2N >= 2^256 from the constant."""
import cfg
from rules import util
from rules.util import strip, canon
from symex import show, walk

EXPLANATION = __doc__
TRUSTED = ["rustc / extractor", "[u8; 32] == [u8; 32] compares every byte", "num-bigint: x % m and == 0 are exact"]
NOT_DECIDED = []
def floors_for(feats):
    if "srp-default-math" in feats:
        return {"reject-set": 1, "identity": 2, "validated": 3, "client-test": 3, "premise": 1}
    return {"reject-set": 1, "identity": 2, "validated": 2, "premise": 1}
FN = "key::PublicKey::from_le_bytes"
PK = "key::PublicKey"
ERR = "error::InvalidPublicKeyError"
ALLB = frozenset(range(256))


def applicable(feats):
    return True


class Undecided(Exception):
    pass


def const_array(t):
    t = strip(t)
    if t[0] == "bytes":
        return bytes(t[1])
    if t[0] == "repeat" and t[1][0] == "int" and isinstance(t[2], int):
        return bytes([t[1][1]]) * t[2]
    if t[0] == "agg" and t[1] == "array" and all(x[0] == "int" for x in t[4]):
        return bytes(x[1] for x in t[4])
    return None


def err_kind(se, body, bb):
    """the InvalidPublicKeyError variant constructed on the way from bb to return (bb included)"""
    seen = set()
    work = [bb]
    while work:
        x = work.pop()
        if x in seen:
            continue
        seen.add(x)
        for si, s in enumerate(body.blocks[x]["stmts"]):
            if s["k"] == "assign" and s["rv"]["k"] == "aggregate" and s["rv"].get("ak") == "adt":
                if s["rv"]["path"] == ERR:
                    return ("Err", s["rv"]["vname"])
                if s["rv"]["path"] == "std::result::Result" and s["rv"]["vname"] == "Ok":
                    return ("Ok", None)
        ss = body.succs(x)
        if len(ss) == 1:
            work.append(ss[0])
    return None


def or_accumulator(ctx, se, d, KEY):
    """d is `fold(..).i == 0` (or `!= 0`) for a fold over the 32 key bytes (zipped with a 32-byte
    constant) whose component i ORs in `k` or `k ^ c` per position and starts at 0: returns (the
    32-byte value for which the component is 0, d is the == form) or None"""
    d = strip(d)
    if not (d[0] == "binop" and d[1] in ("Eq", "Ne")):
        return None
    a, b = strip(d[2]), strip(d[3])
    if a[:2] == ("int", 0):
        a, b = b, a
    if b[:2] != ("int", 0) or a[0] != "field" or not isinstance(a[2], int):
        return None
    f = strip(a[1])
    if not (util.is_call(f) and f[1].endswith("::fold") and "Iterator" in f[1] and len(f[2]) == 3):
        return None
    it, init, cl = strip(f[2][0]), strip(f[2][1]), f[2][2]
    comp = a[2]
    if not (init[0] == "agg" and init[1] == "tuple" and comp < len(init[4]) and strip(init[4][comp])[:2] == ("int", 0)):
        return None

    def bytes_of(x):
        x = strip(x)
        while util.is_call(x) and (x[1] in util.IDENT_CALLS or x[1].split("::")[-1] in ("iter", "into_iter", "copied", "cloned")) and len(x[2]) == 1:
            x = strip(x[2][0])
        return x

    other = None
    if util.is_call(it, "std::iter::Iterator::zip"):
        l_, r_ = bytes_of(it[2][0]), bytes_of(it[2][1])
        if canon(ctx, se, l_) == KEY and const_array(r_) is not None and len(const_array(r_)) == 32:
            kpos, other = 0, const_array(r_)
        elif canon(ctx, se, r_) == KEY and const_array(l_) is not None and len(const_array(l_)) == 32:
            kpos, other = 1, const_array(l_)
        else:
            return None
    elif canon(ctx, se, bytes_of(it)) == KEY:
        kpos = None
    else:
        return None
    if not (cl[0] == "agg" and cl[1] == "closure" and not cl[4]):
        return None
    ACC, ITEM = ("acc",), ("item",)
    v = util.closure_value(ctx, cl, (ACC, ITEM))
    if v is None:
        return None
    v = strip(v)
    if not (v[0] == "agg" and v[1] == "tuple" and comp < len(v[4])):
        return None
    from rules import arith
    kb = ("field", ITEM, kpos) if kpos is not None else ITEM
    cb_ = ("field", ITEM, 1 - kpos) if kpos is not None else None
    env = {("field", ACC, comp): "a", kb: "k"}
    if cb_ is not None:
        env[cb_] = "c"
    n = arith.norm(v[4][comp], env)
    A_, K_, C_ = ("sym", "a"), ("sym", "k"), ("sym", "c")
    if n == ("or", frozenset([A_, K_])):
        return bytes(32), d[1] == "Eq"
    if other is not None and n == ("or", frozenset([A_, ("xor", frozenset([K_, C_]))])):
        return bytes(other), d[1] == "Eq"
    return None


def classify(ctx, fn, key=None, built=None):
    """abstract evaluation of a validity function over the key under test: the key parameter
    (param 1), or - `key` given - the 32-byte value a function goes on to store in a PublicKey.
    Returns list of (outcome, sets) where sets is a list of 32 frozensets of byte values: the
    keys with key[i] in sets[i] for all i have that outcome.  Outcome = ("Ok",None)|("Err",kind).
    built (a list) receives (bb, sets, excluded points) for every block constructing a PublicKey
    on an explored path: the keys that can reach that construction."""
    se = ctx.wrap.run(fn)
    if se is None:
        raise Undecided("validity function %s not found" % fn)
    body = se.body
    KEY = ("param", 1) if key is None else strip(key)
    if key is None:
        kty = body.local_ty(1).peel_refs()
        if kty.k != "array" or kty.len != 32:
            raise Undecided("parameter is not a 32-byte array")
    loops = util.for_loops(ctx, se)
    if key is not None and loops:
        raise Undecided("a loop in a function that validates a derived key")
    out = []
    if not loops:
        # ---------------- form A: decisions by whole-array equality against constants
        def explore(bb, sets, seen, excl=()):
            if bb in seen:
                raise Undecided("unexpected loop")
            info = se.term_info.get(bb, {})
            k = info.get("k")
            # outcome construction in this block?
            o = None
            for si, s in enumerate(body.blocks[bb]["stmts"]):
                if s["k"] == "assign" and s["rv"]["k"] == "aggregate" and s["rv"].get("ak") == "adt":
                    if s["rv"]["path"] == PK and built is not None:
                        built.append((bb, list(sets), tuple(excl)))
                    if s["rv"]["path"] == ERR:
                        o = ("Err", s["rv"]["vname"])
                    elif s["rv"]["path"] == "std::result::Result" and s["rv"]["vname"] == "Ok" and o is None:
                        o = ("Ok", None)
            if o is not None:
                out.append((o, sets))
                return
            if k == "switch":
                d = strip(info["discr"])
                # a decision on one byte of the key (`match *key { CONST => .. }` is lowered to a
                # byte-by-byte decision tree): split the product set on that byte
                kb = None
                if d[0] == "cindex" and d[1] == KEY and not d[3]:
                    kb = d[2]
                elif d[0] == "index" and d[1] == KEY and d[2][0] == "int":
                    kb = d[2][1]
                if kb is not None and 0 <= kb < 32:
                    used = set()
                    for v_, tgt in info["targets"]:
                        ns = list(sets)
                        ns[kb] = sets[kb] & frozenset([v_])
                        used.add(v_)
                        if ns[kb]:
                            explore(tgt, ns, seen | {bb}, excl)
                    ns = list(sets)
                    ns[kb] = sets[kb] - frozenset(used)
                    if ns[kb]:
                        explore(info["otherwise"], ns, seen | {bb}, excl)
                    return
                neg = False
                while d[0] == "unop" and d[1] == "Not":
                    neg = not neg
                    d = d[2]
                tg = info["targets"]
                if util.is_call(d) and d[1].endswith("::eq") or util.is_call(d) and d[1].endswith("::ne"):
                    site = d[3][:2]
                    t = body.blocks[site[1]]["term"]
                    if t.get("callee") in util.PARTIAL_EQ and len(tg) == 1 and tg[0][0] == 0:
                        a, b = d[2]
                        ca, cb = const_array(a), const_array(b)
                        keyside = strip(b) if ca is not None else strip(a)
                        c = ca if ca is not None else cb
                        if c is not None and keyside == KEY and len(c) == 32:
                            is_eq = t["callee"].endswith("::eq") != neg
                            t_true, t_false = info["otherwise"], tg[0][1]
                            eq_t, ne_t = (t_true, t_false) if is_eq else (t_false, t_true)
                            # equal: key == c  (intersect)
                            es = [s & frozenset([c[i]]) for i, s in enumerate(sets)]
                            if all(es):
                                explore(eq_t, es, seen | {bb}, excl)
                            # unequal: remove the single point c from a product set - representable
                            # only if sets is a single point or the whole space minus earlier points
                            explore_ne(ne_t, sets, c, seen | {bb}, excl)
                            return
                # key.iter().all(|&b| b == c)  ==  (key == [c; 32]);  key.iter().any(|&b| b != c) is its negation
                if util.is_call(d) and d[1].split("::")[-1] in ("all", "any") and "Iterator" in d[1] and len(tg) == 1 and tg[0][0] == 0:
                    it = d[2][0]
                    if strip(it)[0] == "mutref":
                        it = se.call_old.get((d[3][:2], 0))
                    it = strip(it) if it is not None else None
                    cl = d[2][1]
                    cval = None
                    if it is not None and util.is_call(it, "core::slice::<impl [T]>::iter") and canon(ctx, se, it[2][0]) == KEY and cl[0] == "agg" and cl[1] == "closure" and not cl[4]:
                        cse = ctx.flat.run(cl[2])
                        r = util.numnorm(cse.ret) if cse is not None else None
                        want = "Eq" if d[1].endswith("all") else "Ne"
                        if r is not None and r[0] == "binop" and r[1] == want and r[2] == ("param", 2) and r[3][0] == "int":
                            cval = r[3][1]
                    if cval is not None:
                        c = [cval] * 32
                        is_eq = d[1].endswith("all") != neg
                        t_true, t_false = info["otherwise"], tg[0][1]
                        eq_t, ne_t = (t_true, t_false) if is_eq else (t_false, t_true)
                        es = [s_ & frozenset([c[i]]) for i, s_ in enumerate(sets)]
                        if all(es):
                            explore(eq_t, es, seen | {bb}, excl)
                        explore_ne(ne_t, sets, c, seen | {bb}, excl)
                        return
                # a branch-free accumulator: `key.iter().zip(C.iter()).fold((0, 0), |(a, d), (k, c)|
                # (a | k, d | (k ^ c)))`; component == 0  <=>  every byte contributed 0:
                # OR of the key bytes is 0 iff key == 0^32, OR of key[i] ^ C[i] is 0 iff key == C
                acc = or_accumulator(ctx, se, d, KEY)
                if acc is not None and len(tg) == 1 and tg[0][0] == 0:
                    c, is_eq = acc
                    if neg:
                        is_eq = not is_eq
                    t_true, t_false = info["otherwise"], tg[0][1]
                    eq_t, ne_t = (t_true, t_false) if is_eq else (t_false, t_true)
                    es = [s_ & frozenset([c[i]]) for i, s_ in enumerate(sets)]
                    if all(es):
                        explore(eq_t, es, seen | {bb}, excl)
                    explore_ne(ne_t, sets, c, seen | {bb}, excl)
                    return
                raise Undecided("unrecognised decision %s" % show(d, maxdepth=3))
            if k == "return":
                raise Undecided("path without a verdict")
            for s_ in body.succs(bb):
                explore(s_, sets, seen | {bb}, excl)

        excluded = []

        def explore_ne(bb, sets, c, seen, excl=()):
            # track excluded points separately: the remaining set is `sets` minus points
            excluded.append(c)
            explore(bb, sets, seen, tuple(excl) + (bytes(c),))

        explore(0, [ALLB] * 32, frozenset())
        # the Ok outcome covers sets minus all excluded points; reject outcomes are the points
        res = []
        for o, sets in out:
            res.append((o, sets))
        return res, "A", excluded
    # -------------------- form B: early-exit scan
    if len(loops) != 1:
        raise Undecided("more than one loop")
    lp = loops[0]
    init = lp["init_call"]
    x = strip(init[2][0]) if init is not None else None
    if not (x is not None and util.is_call(x, "std::iter::Iterator::enumerate") and util.is_call(x[2][0], "core::slice::<impl [T]>::iter") and strip(x[2][0][2][0]) == ("param", 1)):
        raise Undecided("scan is not key.iter().enumerate()")
    item = strip(lp["elem"])
    i_t = ("field", item, 0)
    v_t = ("field", item, 1)
    N = None

    def atom(d):
        """condition on the current byte -> (lambda i: set of byte values making it true)"""
        nonlocal N
        d = util.numnorm(d)
        if d[0] == "binop" and d[1] in ("Ne", "Eq"):
            a, b = d[2], d[3]
            if b == v_t:
                a, b = b, a
            if a != v_t:
                return None
            if b[0] == "int":
                c = b[1]
                f = lambda i: frozenset([c])
            elif b[0] == "index" and b[2] == i_t and const_array(b[1]) is not None:
                arr = const_array(b[1])
                f = lambda i: frozenset([arr[i]])
            else:
                return None
            if d[1] == "Eq":
                return f
            return lambda i: ALLB - f(i)
        return None

    cont_paths, exit_paths = [], []

    def explore(bb, conds, seen):
        if bb == lp["next_bb"]:
            cont_paths.append(conds)
            return
        if bb in seen:
            raise Undecided("nested loop")
        info = se.term_info.get(bb, {})
        k = info.get("k")
        if k == "switch":
            f = atom(info["discr"])
            tg = info["targets"]
            if f is None or len(tg) != 1 or tg[0][0] != 0:
                raise Undecided("unrecognised per-byte test %s" % show(strip(info["discr"]), maxdepth=3))
            explore(info["otherwise"], conds + [f], seen | {bb})
            explore(tg[0][1], conds + [(lambda g: (lambda i: ALLB - g(i)))(f)], seen | {bb})
            return
        if k == "return" or (not body.succs(bb)):
            raise Undecided("path without verdict")
        o = err_kind(se, body, bb) if k != "assert" else None
        # a block that constructs the outcome ends the iteration with that outcome
        made = None
        for s in body.blocks[bb]["stmts"]:
            if s["k"] == "assign" and s["rv"]["k"] == "aggregate" and s["rv"].get("ak") == "adt":
                if s["rv"]["path"] == ERR:
                    made = ("Err", s["rv"]["vname"])
                elif s["rv"]["path"] == "std::result::Result" and s["rv"]["vname"] == "Ok" and made is None:
                    made = ("Ok", None)
        if made is not None:
            exit_paths.append((made, conds))
            return
        for s_ in body.succs(bb):
            explore(s_, conds, seen | {bb})

    explore(lp["body_bb"], [], frozenset())

    def evalp(conds, i):
        s = ALLB
        for f in conds:
            s = s & f(i)
        return s

    C = []
    E = []  # per position: {outcome: set}
    for i in range(32):
        c = frozenset()
        for p in cont_paths:
            c = c | evalp(p, i)
        e = {}
        for o, p in exit_paths:
            e[o] = e.get(o, frozenset()) | evalp(p, i)
        tot = c
        for s in e.values():
            if s & tot:
                raise Undecided("overlapping per-byte outcomes")
            tot = tot | s
        if tot != ALLB:
            raise Undecided("per-byte outcomes do not cover all values")
        C.append(c)
        E.append(e)
    res = []
    # early exits: key[0..i-1] in C, key[i] in E_i(o)
    for i in range(32):
        for o, s in E[i].items():
            if s:
                res.append((o, C[:i] + [s] + [ALLB] * (31 - i)))
    # after the scan: classification of prod(C) by tests on fixed positions
    def post(bb, sets, seen):
        if bb in seen:
            raise Undecided("loop after the scan")
        info = se.term_info.get(bb, {})
        k = info.get("k")
        made = None
        for s in body.blocks[bb]["stmts"]:
            if s["k"] == "assign" and s["rv"]["k"] == "aggregate" and s["rv"].get("ak") == "adt":
                if s["rv"]["path"] == ERR:
                    made = ("Err", s["rv"]["vname"])
                elif s["rv"]["path"] == "std::result::Result" and s["rv"]["vname"] == "Ok" and made is None:
                    made = ("Ok", None)
        if made is not None:
            res.append((made, sets))
            return
        if k == "switch":
            d = util.numnorm(info["discr"])
            pos = None
            if d[0] == "index" and d[1] == ("param", 1) and d[2][0] == "int":
                pos = d[2][1]
            elif d[0] == "cindex" and d[1] == ("param", 1):
                pos = d[2]
            if pos is None:
                raise Undecided("unrecognised post-scan test %s" % show(d, maxdepth=3))
            rest = sets[pos]
            for val, tgt in info["targets"]:
                s = sets[pos] & frozenset([val])
                rest = rest - frozenset([val])
                if s:
                    post(tgt, sets[:pos] + [s] + sets[pos + 1:], seen | {bb})
            if rest:
                post(info["otherwise"], sets[:pos] + [rest] + sets[pos + 1:], seen | {bb})
            return
        if k == "return":
            raise Undecided("post-scan path without verdict")
        for s_ in body.succs(bb):
            post(s_, sets, seen | {bb})

    post(lp["exit_bb"], C, frozenset())
    return res, "B", []


def size(sets):
    n = 1
    for s in sets:
        n *= len(s)
    return n


def witness(sets, avoid):
    """some element of the product that is not in `avoid`"""
    base = [min(s) for s in sets]
    if bytes(base) not in avoid:
        return bytes(base)
    for i, s in enumerate(sets):
        for v in sorted(s):
            w = list(base)
            w[i] = v
            if bytes(w) not in avoid:
                return bytes(w)
    return None


def gated_construction(ctx, fn, want):
    """a function other than from_le_bytes that builds a PublicKey itself: the same reject-set
    exploration, with the value it stores as the key under test.  Holds when the decisions of
    the function refuse exactly {0, N} (with the right kinds) of that very value and no key of
    the reject set can reach a construction site."""
    se = ctx.wrap.run(fn)
    if se is None:
        return False, "not analysable"
    body = se.body
    aggs = util.blocks_constructing(body, PK)
    keys = set()
    for bi, si, _ in aggs:
        a = se.assigns.get((bi, si))
        if a is None or a[1][0] != "agg" or len(a[1][4]) != 1:
            return False, "construction not understood"
        keys.add(strip(a[1][4][0]))
    if len(keys) != 1:
        return False, "stores %d different values" % len(keys)
    K = keys.pop()
    built = []
    try:
        res, form, excluded = classify(ctx, fn, key=K, built=built)
    except Undecided as e:
        return False, "no recognised validity decision on the stored value (%s)" % e
    found = {}
    for o, sets in res:
        if o[0] != "Err":
            continue
        if size(sets) > 4:
            return False, "refuses %d keys" % size(sets)
        import itertools

        for el in itertools.product(*[sorted(x) for x in sets]):
            found[bytes(el)] = o[1]
    if found != want:
        return False, "reject set of the stored value is %s" % {k.hex()[:12] + "..": v for k, v in found.items()}
    if not built:
        return False, "no construction on an explored path"
    for bb, sets, excl in built:
        for p_ in want:
            if all(p_[i] in sets[i] for i in range(32)) and p_ not in excl:
                return False, "the key %s.. can reach the construction" % p_.hex()[:12]
    return True, "%s stores %s behind its own decisions, reject set {0 -> PublicKeyIsZero, N -> PublicKeyModLargeSafePrimeIsZero}" % (fn, show(K, maxdepth=2))


def check(ctx, rep):
    fb = ctx.fb
    N = fb.const_bytes("primes::LARGE_SAFE_PRIME_LITTLE_ENDIAN")
    Nbe = fb.const_bytes("primes::LARGE_SAFE_PRIME_BIG_ENDIAN")
    rep.check(N is not None and len(N) == 32 and N[31] >= 0x80 and Nbe == N[::-1], "premise", "primes::LARGE_SAFE_PRIME_LITTLE_ENDIAN", "2N-overflows", "top bit of N set: 0 and N are the only multiples of N below 2^256", "premise 2N >= 2^256 / byte-order agreement does not hold for the extracted constant")
    se = ctx.wrap.run(FN)
    if se is None or N is None:
        rep.violation("reject-set", FN, "anchor", "function or constant not found")
        return
    body = se.body
    # ---- the validity decision inside from_le_bytes: a call to a local validator whose Result is matched
    validator = None
    for bb, i in se.term_info.items():
        a0 = i["args"][0] if i.get("k") == "call" and i.get("args") else None
        if a0 is not None and a0[0] == "ref" and a0[1][0] == "local":
            a0 = se.read(se.in_state.get(bb, {}), a0[1])  # inlined callee: the argument is still a place
        if a0 is not None and i["name"] in fb.bodies and strip(a0) == ("param", 1):
            out = fb.ty(fb.body(i["name"]).d["output"])
            if out.s.startswith("std::result::Result<(), error::InvalidPublicKeyError>"):
                validator = (bb, i)
    zero = bytes(32)
    want = {zero: "PublicKeyIsZero", bytes(N): "PublicKeyModLargeSafePrimeIsZero"}
    try:
        if validator is None:
            res, form, excluded = classify(ctx, FN)
        else:
            res, form, excluded = classify(ctx, validator[1]["name"])
        rejects = [(o, s) for o, s in res if o[0] == "Err"]
        total = sum(size(s) for o, s in rejects)
        found = {}
        big = []
        for o, s in rejects:
            if size(s) <= 4:
                import itertools

                for el in itertools.product(*[sorted(x) for x in s]):
                    found[bytes(el)] = o[1]
            else:
                big.append((o, s))
        if big or found != want:
            if big:
                o, s = big[0]
                w = witness(s, set(want))
                wi = int.from_bytes(w, "little") if w else None
                detail = "the reject set has %d elements instead of 2 (form %s: per-byte membership scan); e.g. the key %s (the integer %s) is refused as %s" % (total, form, w.hex() if w else "?", wi, o[1])
                # a second witness: misnamed kind
                for o2, s2 in rejects:
                    if o2[1] == "PublicKeyIsZero" and size(s2) > 1:
                        w2 = witness(s2, {zero})
                        if w2:
                            detail += "; and %s (non-zero) is reported as PublicKeyIsZero" % w2.hex()
                            break
            else:
                detail = "reject set is %s, expected {0 -> PublicKeyIsZero, N -> PublicKeyModLargeSafePrimeIsZero}" % {k.hex()[:16] + "..": v for k, v in found.items()}
            rep.violation("reject-set", FN, "exactly-zero-and-N", detail, body.loc())
        else:
            rep.ok("reject-set", FN, "exactly-zero-and-N", "reject set (form %s) = {0 -> PublicKeyIsZero, N -> PublicKeyModLargeSafePrimeIsZero}; everything else Ok" % form, body.loc())
    except Undecided as e:
        rep.undecided("reject-set", FN, "exactly-zero-and-N", "validity test is not in a recognised form: %s" % e, body.loc())
    # ---- from_le_bytes maps the validator's verdict through: Ok => Ok(Self{key}), Err(e) => Err(e)
    aggs = util.blocks_constructing(body, PK)
    good = False
    if validator is not None and len(aggs) == 1:
        vb, vi = validator
        V = strip(vi["term"])
        Vr0 = strip(vi.get("ret", vi["term"]))     # the validator's value when it is looked through
        BR = "<std::result::Result<T, E> as std::ops::Try>::branch"
        sw = []
        via_try = False
        for bb, i in se.term_info.items():
            if i.get("k") != "switch":
                continue
            d = strip(i["discr"])
            if d in (("discr", V), ("discr", Vr0)):
                sw.append((bb, i))
            elif d[0] == "discr" and util.is_call(d[1], BR) and strip(d[1][2][0]) in (V, Vr0):
                sw.append((bb, i))
                via_try = True
        if len(sw) == 1:
            tg = dict(sw[0][1]["targets"])
            ok_t = tg.get(0)
            err_t = tg.get(1, sw[0][1]["otherwise"])
            bi = aggs[0][0]
            loc, v = se.assigns[(bi, aggs[0][1])]
            ident = strip(v[4][0]) == ("param", 1)
            gate = ok_t is not None and cfg.must_pass_edge(body, (sw[0][0], ok_t), bi)
            if not via_try:
                errs = [b for b, _, _ in util.blocks_constructing(body, "std::result::Result", "Err")]
                epass = bool(errs) and all(cfg.must_pass_edge(body, (sw[0][0], err_t), b) for b in errs)
                ev = [se.assigns[(b, si)][1] for b, si, _ in util.blocks_constructing(body, "std::result::Result", "Err")]
                esame = all(strip(x[4][0]) in (("field", ("downcast", V, 1), 0), ("field", ("downcast", Vr0, 1), 0)) for x in ev)
            else:
                # `validator(&key)?`: the residual is converted with From<E> for E (identity) by from_residual
                fr = [(bb, i) for bb, i in se.term_info.items() if i.get("k") == "call" and "FromResidual" in i["name"]]
                epass = len(fr) == 1 and cfg.must_pass_edge(body, (sw[0][0], err_t), fr[0][0])
                esame = False
                if epass:
                    a = strip(fr[0][1]["args"][0])
                    esame = a[0] == "field" and a[1][0] == "downcast" and a[1][2] == 1 and util.is_call(a[1][1], BR)
                    out_f = fb.ty(body.d["output"]).s
                    out_v = fb.ty(fb.body(vi["name"]).d["output"]).s
                    esame = esame and "error::InvalidPublicKeyError>" in out_f and "error::InvalidPublicKeyError>" in out_v
                    esame = esame and not util.blocks_constructing(body, "error::InvalidPublicKeyError")
            good = ident and gate and epass and esame
    elif validator is not None and len(aggs) == 0:
        # combinator spelling: validator(&key).map(|()| Self { key }) - Result::map leaves Err(e)
        # as it is and builds the key only on Ok
        r = strip(se.ret)
        V = strip(validator[1]["term"])
        Vr = strip(validator[1].get("ret", validator[1]["term"]))
        if util.is_call(r, "std::result::Result::<T, E>::map") and strip(r[2][0]) in (V, Vr):
            mi = se.term_info.get(r[3][1], {})
            cl = mi["args"][1] if mi.get("k") == "call" and len(mi.get("args", ())) == 2 else ("?",)
            val = util.closure_value(ctx, cl, (("zst", "()"),))
            val = util.resolve_locals(se, r[3][1], val) if val is not None else None
            good = val is not None and val[0] == "agg" and val[2] == PK and val[4][0] == ("param", 1)
            names = [i["name"] for i in se.term_info.values() if i.get("k") == "call"]
            good = good and sorted(names) == sorted([validator[1]["name"], "std::result::Result::<T, E>::map"])
    elif validator is None and len(aggs) == 1:
        loc, v = se.assigns[(aggs[0][0], aggs[0][1])]
        good = strip(v[4][0]) == ("param", 1)
    rep.check(good, "identity", FN, "stores-parameter", "Ok(PublicKey{key}) exactly when the validity test says Ok; the error kind is passed through", "from_le_bytes does not store its parameter unchanged behind the validity verdict / alters the error", body.loc())
    ase = ctx.wrap.run(PK + "::as_le_bytes")
    good = ase is not None and canon(ctx, ase, ase.ret) == ("param", 1)
    rep.check(good, "identity", PK + "::as_le_bytes", "returns-field", "as_le_bytes() returns the stored array", "as_le_bytes does not return the stored key")
    # ---- every construction validated
    absorbed = fb.absorbed()
    sites = [x for x in util.aggregates(fb, PK) if x[0].path not in absorbed]
    allowed = {FN, PK + "::client_try_from_bigint"}
    gated = {}
    for b, _, _, _ in sites:
        if b.path not in allowed and b.kind != "Closure" and b.path not in gated:
            gated[b.path] = gated_construction(ctx, b.path, want)
    bad = [b.path for b, _, _, _ in sites if b.path not in allowed and not (b.kind == "Closure" and b.d.get("parent") in allowed) and not gated.get(b.path, (False,))[0]]
    why_bad = "; ".join("%s: %s" % (k_, v_[1]) for k_, v_ in sorted(gated.items()) if not v_[0])
    rep.check(bool(sites) and not bad, "validated", PK, "who-may-construct", "PublicKey constructed only in %s%s" % (sorted({b.path for b, _, _, _ in sites}), "".join("; %s: %s" % (k_, v_[1]) for k_, v_ in sorted(gated.items()))), "PublicKey is constructed without validation in %s%s" % (bad, (" (" + why_bad + ")") if why_bad else ""))
    pubf = [f["name"] for f in fb.adt_fields(PK) if f["pub"]]
    rep.check(not pubf, "validated", PK, "private-fields", "field private", "public field %s" % pubf)
    if "srp-default-math" in ctx.features:
        tse = ctx.wrap.run(PK + "::try_from_bigint")
        good = False
        if tse is not None:
            r = strip(tse.ret)
            good = util.is_call(r, FN) or any(i.get("k") == "call" and i["name"] == FN and strip(i.get("ret", i["term"])) == r for i in tse.term_info.values())
            why = "the server's own B goes through from_le_bytes"
            if not good:
                g = gated.get(PK + "::try_from_bigint") or gated_construction(ctx, PK + "::try_from_bigint", want)
                good, why = g[0], "the server's own B is validated in place: " + g[1]
        rep.check(good, "validated", PK + "::try_from_bigint", "server-B", why, "try_from_bigint does not validate through from_le_bytes")
        client_test(ctx, rep)


def client_test(ctx, rep):
    """the client's own A against the announced modulus: decided on the big-integer view of
    client_try_from_bigint (the Integer wrapper and any helper a refactoring put in between are
    looked through), by the form of the two decisions - value == 0, value % int(N') == 0 - and
    what stands behind their edges"""
    fn = PK + "::client_try_from_bigint"
    se = ctx.big.run(fn)
    if se is None:
        rep.violation("client-test", fn, "anchor", "not found")
        return
    body = se.body
    VAL = ("field", ("param", 1), 0)

    def is_zero_const(t):
        t = strip(t)
        return "from" in str(t) and "('int', 0" in str(t) and "param" not in str(t)

    def is_val(t):
        t = strip(t)
        return t == VAL

    def mod_of(t):
        """the modulus term M when t is VAL % M on num-bigint values, else None"""
        t = strip(t)
        if util.is_call(t) and "Rem" in t[1] and len(t[2]) == 2 and is_val(t[2][0]):
            return strip(t[2][1])
        return None

    zero = mod = None
    for bb, d, f_t, t_t in util.bool_switches(se):
        d = strip(d)
        neg = False
        while d[0] == "unop" and d[1] == "Not":
            neg = not neg
            d = strip(d[2])
        if not (util.is_call(d) and (d[1].endswith("::eq") or d[1].endswith("::ne")) and len(d[2]) == 2):
            continue
        if d[1].endswith("::ne"):
            neg = not neg
        a, b = d[2]
        if d[1].startswith("<num_bigint::Sign as std::cmp::PartialEq>::"):
            # x.sign() == Sign::NoSign: num-bigint's own way of saying x == 0
            a, b = strip(a), strip(b)
            if util.is_call(b, "num_bigint::BigInt::sign"):
                a, b = b, a
            nosign = b[0] == "agg" and b[1] == "adt" and b[2] == "num_bigint::Sign" and b[3] == 1
            if not (util.is_call(a, "num_bigint::BigInt::sign") and len(a[2]) == 1 and nosign):
                continue
            a, b = strip(a[2][0]), ("zero-by-sign",)
        if is_zero_const(a):
            a, b = b, a
        if not is_zero_const(b) and b != ("zero-by-sign",):
            continue
        tt, ff = (f_t, t_t) if neg else (t_t, f_t)
        if is_val(a):
            zero = (bb, tt, ff)
        elif mod_of(a) is not None:
            mod = (bb, tt, ff, mod_of(a))
    if zero is None or mod is None:
        rep.violation("client-test", fn, "tests", "the two arithmetic tests (value == 0, value % announced prime == 0) on the candidate key were not found", body.loc())
        return
    rep.ok("client-test", "bigint::Integer", "predicates", "the tests are value == 0 and value % M == 0 on the big-integer value of the candidate", body.loc(zero[0]))
    m = mod[3]
    from_n = "from_bytes_le" in str(m) and "('param', 2)" in str(m) and "('param', 1)" not in str(m)
    rep.check(from_n, "client-test", fn, "announced-modulus", "the modulus tested is the announced prime parameter", "the modulus tested is %s, not the announced prime" % show(m, maxdepth=3), body.loc(mod[0]))
    aggs = util.blocks_constructing(body, PK)
    good = bool(aggs) and all(cfg.must_pass_edge(body, (zero[0], zero[2]), bi) and cfg.must_pass_edge(body, (mod[0], mod[2]), bi) for bi, _, _ in aggs)
    rep.check(good, "client-test", fn, "gate", "PublicKey built only when both tests are false", "the client key can be constructed without passing both tests", body.loc())
    kinds = {}
    for bi, si, s_ in util.blocks_constructing(body, ERR):
        kinds.setdefault(s_["rv"]["vname"], []).append(bi)
    good = "PublicKeyIsZero" in kinds and "PublicKeyModLargeSafePrimeIsZero" in kinds
    if good:
        good = (all(cfg.must_pass_edge(body, (zero[0], zero[1]), b_) for b_ in kinds["PublicKeyIsZero"])
                and all(cfg.must_pass_edge(body, (mod[0], mod[1]), b_) for b_ in kinds["PublicKeyModLargeSafePrimeIsZero"])
                and cfg.must_pass_edge(body, (zero[0], zero[2]), mod[0]))
    rep.check(good, "client-test", fn, "error-kinds", "zero => PublicKeyIsZero, then multiple of the modulus => PublicKeyModLargeSafePrimeIsZero", "error kinds are not (zero -> PublicKeyIsZero; then mod == 0 -> PublicKeyModLargeSafePrimeIsZero)", body.loc())
