"""Thorough tier: type-check the witness crate (compile_fail / no_run doc-tests, nothing is
executed) against /repo's current tree and turn the per-block results into obligations."""
import os
import re
import shutil
import subprocess

import extract
from framework import Ob

WIT = os.path.join(extract.VERIF, "witness")
FIXTURE = "zz_fixture_wrong_code_must_fail"
PROP_OF = {"c02": "C02", "c04": "C04", "c06": "C06", "c12": "C12", "c13": "C13"}
_cache = {}


def run():
    key = extract.tree_hash()
    if key in _cache:
        return _cache[key]
    repo = extract.REPO
    # the crate path-depends on /repo; when analysing a scratch copy point it there
    cargo_toml = open(os.path.join(WIT, "Cargo.toml")).read()
    work = WIT
    tmp = None
    if repo != "/repo":
        tmp = os.path.join(extract.CACHE, "witness_" + key)
        shutil.rmtree(tmp, ignore_errors=True)
        shutil.copytree(WIT, tmp, ignore=shutil.ignore_patterns("target"))
        open(os.path.join(tmp, "Cargo.toml"), "w").write(cargo_toml.replace('path = "/repo"', 'path = "%s"' % repo))
        work = tmp
    shutil.copy(os.path.join(repo, "Cargo.lock"), os.path.join(work, "Cargo.lock"))
    env = dict(os.environ, CARGO_NET_OFFLINE="true", CARGO_TARGET_DIR=os.path.join(extract.CACHE, "witness_target"))
    p = subprocess.run(["cargo", "+nightly", "test", "--doc", "--offline", "--no-fail-fast"], cwd=work, env=env, stdout=subprocess.PIPE, stderr=subprocess.STDOUT, text=True)
    res = {}
    for m in re.finditer(r"^test src/lib\.rs - (\w+) \(line (\d+)\)( - compile fail| - compile)? \.\.\. (\w+)", p.stdout, re.M):
        name, line, kind, verdict = m.group(1), int(m.group(2)), (m.group(3) or "").strip(" -"), m.group(4)
        res.setdefault(name, []).append((line, kind, verdict))
    if tmp:
        shutil.rmtree(tmp, ignore_errors=True)
    out = (res, p.stdout[-3000:])
    _cache[key] = out
    return out


def obligations(prop):
    res, tail = run()
    obs = []

    def ob(rule, fn, role, ok, detail):
        o = Ob(prop, rule, fn, role, "ok" if ok else "violation", detail, "witness/src/lib.rs")
        o.cfg = "witness"
        return o

    if not res:
        obs.append(ob("witness", "harness", "ran", False, "witness crate produced no doc-test results: " + tail[-600:]))
        return obs
    fx = res.get(FIXTURE, [])
    obs.append(ob("witness", "harness", "error-codes-enforced", bool(fx) and all(v == "FAILED" for _, _, v in fx), "a compile_fail block with a wrong error code is rejected by this toolchain (codes are enforced)" if fx and all(v == "FAILED" for _, _, v in fx) else "the must-fail fixture did not fail: error codes are not enforced"))
    for name, blocks in sorted(res.items()):
        if name == FIXTURE or PROP_OF.get(name.split("_")[0]) != prop:
            continue
        blocks.sort()
        for i, (line, kind, verdict) in enumerate(blocks):
            what = "must not compile" if kind == "compile fail" else "must type-check"
            obs.append(ob("witness", name, "block%d-%s" % (i, kind.replace(" ", "-")), verdict == "ok", "%s: %s" % (what, "as required" if verdict == "ok" else "VIOLATED (external code %s)" % ("now compiles / fails with another error" if kind == "compile fail" else "no longer type-checks"))))
    return obs
