"""C16 - PIN hashes follow the keypad-remap scheme; verification is exact (decided in part).

Decides: hash transcript SHA1[client salt | SHA1[server salt | digit buffer]] where the digit
buffer is the remapped pin bytes each incremented by 0x30 (A5/A6); the 4..10 length gate
dominates hashing and yields None otherwise (A1); verify_client_pin_hash returns true only
as the result of a whole-array comparison of the computed hash with the presented one on the
Some arm, false on None, and passes (pin, seed, server_salt, client_salt) in order (A3).
The two loop algorithms are decided as shapes (rules/algos.py): pin_to_bytes is "digits by
repeated % 10, / 10, reversed", remap_pin_grid is the factorial-number-system decoding of the
seed over [0..9].  NOT decided: that these algorithms have the stated mathematical property
(decimal expansion / permutation) - trusted paper lemmas; the position-lookup unwrap cannot
fail (follows from the permutation lemma)."""
import cfg
from rules import util
from rules.util import P, canon, show_b, strip
from symex import show, walk

EXPLANATION = __doc__
TRUSTED = ["rustc / extractor", "SHA-1 collision resistance", "repeated % 10, / 10 yields the decimal digits least significant first", "factorial-number-system decoding over [0..9] yields a permutation determined by seed mod 10!"]
NOT_DECIDED = ["the two arithmetic lemmas themselves (the code is decided to BE those algorithms)", "the position lookup's unwrap() never fails (a consequence of the permutation lemma)"]
FLOORS = {"transcript": 1, "gate": 1, "wrapper": 3, "digits": 3, "layout": 3}
HF = "pin::calculate_hash"
VF = "pin::verify_client_pin_hash"



def inverse_table(ctx, se, grid_ok):
    """a lookup table built from the remapped grid: one loop `for (c, d) in (c0..).zip(grid)
    { T[d] = c }` over a zeroed [u8; 10] - T[d] = c0 + (position of d in the grid), every digit
    exactly once (the grid is a permutation of 0..9: trusted lemma, as for the search form).
    Returns [(T value after the loop, c0)] for the loops of `se` of that shape whose grid
    operand satisfies grid_ok."""
    from rules import algos
    out = []
    for lp in util.for_loops(ctx, se):
        ini = strip(lp["init"] or ("?",))
        if not (util.is_call(ini, "std::iter::Iterator::zip") and len(ini[2]) == 2 and "iter::Zip" in (lp["resolved"] or "")):
            continue
        rf, gr = strip(ini[2][0]), strip(ini[2][1])
        while util.is_call(gr) and (gr[1].endswith("<impl [T]>::iter") or gr[1].endswith("::into_iter") or gr[1] in util.IDENT_CALLS) and len(gr[2]) == 1:
            gr = strip(gr[2][0])
        if not (rf[0] == "agg" and rf[2] == "std::ops::RangeFrom" and strip(rf[4][0])[0] == "int" and grid_ok(gr)):
            continue
        c0 = strip(rf[4][0])[1]
        elem = lp["elem"]
        cnt, dig = ("field", elem, 0), ("deref", ("field", elem, 1))
        head = lp["next_bb"]
        loop = set()
        for e in cfg.back_edges(se.body):
            if e[1] == head:
                loop |= cfg.natural_loop(se.body, e)
        stores = [(k, loc, v) for k, (loc, v) in se.assigns.items() if k[0] in loop and loc[0] == "index"]
        if len(stores) != 1:
            continue
        k, loc, v = stores[0]
        ix = util.numnorm(loc[2])
        while ix[0] == "cast" or (util.is_call(ix) and "From<u8> for usize" in ix[1] and len(ix[2]) == 1):
            ix = util.numnorm(ix[2] if ix[0] == "cast" else ix[2][0])
        if strip(ix) != strip(dig) or strip(v) != strip(cnt):
            continue
        # the table starts as [0; 10] and is only written by this loop
        st = algos.loop_state(se, head)
        tkey = loc[1]
        if tkey not in st:
            continue
        init, step = st[tkey]
        i0 = strip(init)
        if not (i0[0] == "repeat" and strip(i0[1])[:2] == ("int", 0) and i0[2] == 10):
            continue
        idom = cfg.dominators(se.body)
        if not all(cfg.dominates(idom, k[0], t_) for t_, h_ in cfg.back_edges(se.body) if h_ == head):
            continue
        out.append((algos.phi_of(se, head, tkey), c0))
    return out


def _digits_within_array(ctx, hi):
    """pin_to_bytes returns a sub-slice (`&mut out[a..b]`) of its `&mut [u8; hi]` parameter:
    whatever a and b are, the slice is not longer than hi"""
    pse = ctx.wrap.run("pin::pin_to_bytes")
    if pse is None or pse.body.arg_count != 2:
        return False
    t2 = pse.body.local_ty(2)
    if not (t2 is not None and t2.k == "ref" and t2.to is not None and t2.to.k == "array" and t2.to.len == hi):
        return False
    r = strip(pse.ret)
    if not (util.is_call(r) and (r[1].endswith("::index_mut") or r[1].endswith("::index")) and len(r[2]) == 2):
        return False
    # the place that is indexed: the parameter's pointee itself
    la = (pse.term_info.get(r[3][1], {}).get("locargs") or (("?",),))[0]
    return la[0] == "ref" and la[1] == ("deref", ("param", 2))


def lookup_rule(ctx, rep, se):
    """the loops over the digit slice: per element, `*b = position of *b in remap_pin_grid(seed)`
    and `*b += 0x30`, fused or in two passes (in that order), nothing else"""
    from rules import arith
    body = se.body
    grid = None
    digits = None
    for i in se.term_info.values():
        if i.get("k") == "call" and i["name"] == "pin::remap_pin_grid" and strip(i["args"][0]) == ("param", 2):
            grid = strip(i["term"])
        if i.get("k") == "call" and i["name"] == "pin::pin_to_bytes":
            digits = strip(i["term"])
    if grid is None or digits is None:
        rep.violation("transcript", HF, "digit-lookup", "remap_pin_grid(seed) / pin_to_bytes(pin) not found", body.loc())
        return

    def is_lookup(v, elem):
        """v = index of the current element in the grid"""
        v = util.strip_int_conversions(v)
        if v[0] == "field" and v[2] == 0:
            v = v[1]
            via_find = True
        else:
            via_find = False
        if not (util.is_call(v) and v[1] in util.UNWRAP):
            return False
        f = strip(v[2][0])
        if not util.is_call(f) or f[1].split("::")[-1] not in ("find", "position"):
            return False
        it = strip(f[2][0])
        if it[0] == "mutref":
            old = se.call_old.get((f[3][:2], 0))
            it = strip(old) if old is not None else it
        want_find = f[1].endswith("::find")
        if want_find != via_find:
            return False
        if want_find:
            if not util.is_call(it, "std::iter::Iterator::enumerate"):
                return False
            it = strip(it[2][0])
        if not (util.is_call(it, "core::slice::<impl [T]>::iter") and strip(it[2][0]) == grid):
            return False
        mi = se.term_info.get(f[3][1], {})
        cl = mi.get("locargs", (None, None))[1] if len(mi.get("locargs", ())) > 1 else None
        if cl is None or not (cl[0] == "agg" and cl[1] == "closure" and len(cl[4]) == 1 and cl[4][0][0] == "ref"):
            return False
        # the captured value is the current element
        cap_val = util.value_before_terminator(se, f[3][1], cl[4][0][1]) if cl[4][0][1][0] == "local" else None
        if cap_val is None or strip(cap_val) != strip(elem):
            return False
        cse = ctx.flat.run(cl[2])
        if cse is None:
            return False
        cand = ("field", ("param", 2), 1) if want_find else ("param", 2)
        env = {cand: "cand", ("field", ("param", 1), 0): "cur"}
        r = strip(cse.ret)
        if util.is_call(r) and r[1].endswith("::eq") and len(r[2]) == 2:
            r = ("binop", "Eq", r[2][0], r[2][1])
        n = arith.norm(r, env)
        return n in (("Eq", ("sym", "cand"), ("sym", "cur")), ("Eq", ("sym", "cur"), ("sym", "cand")))

    # pin_to_bytes returns the prefix out[..n] of the scratch array it was given (the `digits`
    # rule decides which form it has); then "the first len(digits) bytes of that array as
    # pin_to_bytes left it" - a copy kept in a private struct, say - is the same bytes
    pse = ctx.wrap.run("pin::pin_to_bytes")
    pret = strip(pse.ret) if pse is not None else ("?",)
    prefix_form = False
    if util.is_call(pret) and pret[1].endswith("::index_mut") and len(pret[2]) == 2:
        rg = strip(pret[2][1])
        prefix_form = rg[0] == "agg" and (rg[2] == "std::ops::RangeTo" or (rg[2] == "std::ops::Range" and util.numnorm(rg[4][0])[:2] == ("int", 0)))

    def prefix_view(src):
        if not prefix_form or not (util.is_call(src) and src[1].endswith("::index_mut") and len(src[2]) == 2):
            return False
        rg = strip(src[2][1])
        if not (rg[0] == "agg" and (rg[2] == "std::ops::RangeTo" or (rg[2] == "std::ops::Range" and util.numnorm(rg[4][0])[:2] == ("int", 0)))):
            return False
        end = util.numnorm(rg[4][-1] if rg[2] == "std::ops::Range" else rg[4][0])
        n_ok = end[0] == "len" and strip(end[1]) == digits
        base = src[2][0]
        if strip(base)[0] == "mutref":
            base = se.call_old.get((src[3][:2], 0), base)
        base = strip(base)
        # the array (possibly already worked on by an earlier pass) is the one pin_to_bytes filled
        while base[0] == "after" and not (util.is_call(base[1]) and base[1][1] == "pin::pin_to_bytes"):
            base = strip(base[3])
        while base[0] == "field" and strip(base[1])[0] in ("agg", "after", "phi", "field"):
            inner = strip(base[1])
            if inner[0] == "agg" and isinstance(base[2], int) and base[2] < len(inner[4]):
                base = strip(inner[4][base[2]])
            else:
                break
        while base[0] == "after" and not (util.is_call(base[1]) and base[1][1] == "pin::pin_to_bytes"):
            base = strip(base[3])
        arr_ok = base[0] == "after" and util.is_call(base[1]) and base[1][1] == "pin::pin_to_bytes" and strip(base[1]) == digits and base[2] == 1
        return n_ok and arr_ok

    passes = []
    for lp in util.for_loops(ctx, se):
        if "slice::IterMut" not in (lp["resolved"] or ""):
            continue
        if not lp["only_exit"]:
            continue        # a pass that can be left early (break / return inside) is not a pass over every digit
        src = lp["init"]
        if src is not None and strip(src)[0] == "mutref" and lp["init_call"] is not None:
            old = se.call_old.get((lp["init_call"][3][:2], 0))
            src = old if old is not None else src
        src = strip(src) if src is not None else None
        if src is not None and util.is_call(src) and src[1].endswith("<impl [T]>::iter_mut"):
            inner = src[2][0]
            if strip(inner)[0] == "mutref":
                inner = se.call_old.get((src[3][:2], 0), inner)
            src = strip(inner)
        # a later pass sees the slice as left by the earlier pass over it
        while src is not None and src[0] == "after" and util.is_call(src[1]) and src[1][1].split("::")[-1] in ("into_iter", "iter_mut") and src[2] == 0:
            src = strip(src[3])
        if src is not None and src != digits and prefix_view(src):
            src = digits
        if src is None or src != digits:
            continue
        elem = lp["elem"]
        stores = [(k, v) for k, (loc, v) in se.assigns.items() if loc == ("deref", elem) or (loc[0] == "deref" and strip(loc[1]) == strip(elem))]
        idom_ = cfg.dominators(body)
        if not all(cfg.dominates(idom_, k[0], t_) for k, v in stores for t_, h_ in cfg.back_edges(body) if h_ == lp["next_bb"]):
            continue        # a pass whose store some iterations skip is not a pass over every digit
        passes.append((lp["next_bb"], elem, stores))
    passes.sort()
    good = False
    why = "%d passes over the digit slice" % len(passes)
    cur = lambda elem: strip(("deref", elem))
    # ---- inverse-table form: T = table built from the grid; one pass `*b = T[*b] (+ '0')`
    tables = []
    for tv, c0 in inverse_table(ctx, se, lambda g: g == grid):
        tables.append((strip(tv), c0))
    for i in se.term_info.values():
        # ... or built by a function of the crate from the grid: T = H(&grid)
        if i.get("k") == "call" and i["name"] in ctx.fb.bodies and len(i["args"]) == 1 and strip(i["args"][0]) == grid and i["name"] != "pin::remap_pin_grid":
            hse = ctx.wrap.run(i["name"])
            if hse is not None:
                for tv, c0 in inverse_table(ctx, hse, lambda g: g == ("param", 1)):
                    if strip(hse.ret) == strip(tv):
                        tables.append((strip(i["term"]), c0))
    if len(passes) == 1 and len(passes[0][2]) == 1 and len(tables) == 1:
        head, elem, st = passes[0]
        tv, c0 = tables[0]
        v = strip(st[0][1])
        extra = 0
        if v[0] == "field" and v[2] == 0 and v[1][0] == "binop" and v[1][1] == "AddWithOverflow":
            v = ("binop", "Add", v[1][2], v[1][3])
        if v[0] == "binop" and v[1] == "Add":
            a_, b_ = strip(v[2]), strip(v[3])
            if a_[0] == "int":
                a_, b_ = b_, a_
            if b_[0] == "int":
                extra, v = b_[1], a_
        look = v[0] == "index" and strip(v[1]) == tv
        if look:
            ix = util.numnorm(v[2])
            while ix[0] == "cast" or (util.is_call(ix) and "From<u8> for usize" in ix[1] and len(ix[2]) == 1):
                ix = util.numnorm(ix[2] if ix[0] == "cast" else ix[2][0])
            look = strip(ix) == cur(elem)
        if look and c0 + extra == 0x30:
            rep.check(True, "transcript", HF, "digit-lookup", "one pass: *b = T[*b]%s with T[d] = %d + position of d in the remapped grid (inverse table)" % (" + 0x30" if extra else "", c0), "", body.loc())
            return "table"
    cur = lambda elem: strip(("deref", elem))

    def add30(v, inner_pred):
        v = strip(v)
        if v[0] == "field" and v[2] == 0 and v[1][0] == "binop" and v[1][1] == "AddWithOverflow":
            v = ("binop", "Add", v[1][2], v[1][3])
        if v[0] == "binop" and v[1] in ("Add", "AddWithOverflow"):
            a, b = v[2], v[3]
            if a[:2] == ("int", 0x30):
                a, b = b, a
            return b[:2] == ("int", 0x30) and inner_pred(a)
        return False

    if len(passes) == 1 and len(passes[0][2]) == 1:
        head, elem, st = passes[0]
        good = add30(st[0][1], lambda x: is_lookup(x, elem))
        why = "one pass: *b = '0' + position of *b in the remapped grid" if good else "the single pass does not store '0' + the digit's position in the remapped grid"
    elif len(passes) == 2 and all(len(p_[2]) == 1 for p_ in passes):
        (h1, e1, s1), (h2, e2, s2) = passes
        first = is_lookup(s1[0][1], e1)
        second = add30(s2[0][1], lambda x: strip(x) == cur(e2))
        ordered = cfg.must_pass_block(body, h1, h2)
        good = first and second and ordered
        why = "two passes: *b = position of *b in the remapped grid; then *b += 0x30" if good else "passes: lookup %s, ascii offset %s, in that order %s" % (first, second, ordered)
    rep.check(good, "transcript", HF, "digit-lookup", why, "the digits hashed are not '0' + (position of each digit in the remapped grid): " + why, body.loc())


def _integer_gate(ctx, rep, se, HF, lo, hi, somes, nones):
    """the 4..10 digit gate decided on the number itself: `pin < 10^(MIN-1)` => None, and no upper
    test because the parameter's type cannot hold more than MAX digits.  (That pin_to_bytes
    yields exactly the decimal digits is the `digits` rule.)"""
    body = se.body
    if lo is None or hi is None:
        return False
    pty = body.local_ty(1)
    tmax = {"u8": 2 ** 8 - 1, "u16": 2 ** 16 - 1, "u32": 2 ** 32 - 1, "u64": 2 ** 64 - 1}.get(pty.s if pty is not None else "")
    gate = None
    for bb, d, f_t, t_t in util.bool_switches(se):
        x = util.numnorm(d)
        if x[0] == "binop" and x[1] == "Lt" and strip(x[2]) == ("param", 1) and x[3][:2] == ("int", 10 ** (lo - 1)):
            gate = (bb, t_t, f_t)
        if x[0] == "binop" and x[1] == "Ge" and strip(x[2]) == ("param", 1) and x[3][:2] == ("int", 10 ** (lo - 1)):
            gate = (bb, f_t, t_t)
    if gate is None or tmax is None:
        return False
    sw, out_t, in_t = gate
    rep.check(len(str(tmax)) == hi, "gate", HF, "length-tests", "pin < %d (fewer than %d digits) is refused; a %s has at most %d digits" % (10 ** (lo - 1), lo, pty.s, len(str(tmax))), "the parameter type %s can hold %d digits, the maximum is %d: an upper test is needed" % (pty.s, len(str(tmax)), hi), body.loc(sw))
    hash_blocks = [bi for bi, t in body.calls() if (t.get("callee") or "").endswith("Digest::new")] + [somes[0][0]]
    bad = [bi for bi in hash_blocks if not cfg.must_pass_edge(body, (sw, in_t), bi)]
    rep.check(not bad, "gate", HF, "hash-only-in-range", "hashing only behind pin >= %d" % 10 ** (lo - 1), "hashing reachable without passing the test on the pin (bb%s)" % bad, body.loc())
    r_out = cfg.reachable(body, start=out_t)
    r_in = cfg.reachable(body, start=in_t)
    rep.check(bool(nones) and any(bi in r_out and bi not in r_in for bi, _ in nones) and somes[0][0] not in cfg.reachable(body, cut_edges=[(sw, in_t)]), "gate", HF, "none-out-of-range", "too small pins lead to None", "the refused edge does not lead to None", body.loc())
    return True


def check(ctx, rep):
    fb = ctx.fb
    from rules import algos

    algos.pin_to_bytes_rule(ctx, rep, "digits")
    algos.remap_pin_grid_rule(ctx, rep, "layout")
    se = ctx.wrap.run(HF)
    if se is None:
        rep.violation("transcript", HF, "anchor", "function not found")
        return
    body = se.body
    # ---- Some(...) payload transcript
    somes = [(bi, si) for bi, si, s in util.blocks_constructing(body, "std::option::Option", "Some")]
    # (the Some of the hash, not the Some(builder) of a looked-through `EnteredPin::new(pin)?`)
    somes = [x for x in somes if not (strip(se.assigns[x][1][4][0])[0] == "agg" and strip(se.assigns[x][1][4][0])[1] == "adt" and strip(se.assigns[x][1][4][0])[2] in fb.adts)]
    def _opt_hash(bi, si):
        pl = body.blocks[bi]["stmts"][si]["place"]
        t_ = body.local_ty(pl["l"]) if not pl["p"] else None
        return t_ is None or "[u8; 20]" in t_.s
    if len(somes) > 1:
        # (and not the Some(digit slice) of a looked-through step that gates on the length)
        somes = [x for x in somes if _opt_hash(*x)]
    nones = [(bi, si) for bi, si, s in util.blocks_constructing(body, "std::option::Option", "None")]
    if len(somes) != 1:
        rep.violation("transcript", HF, "some", "expected one Some(..) construction, found %d" % len(somes), body.loc())
        return
    loc, v = se.assigns[somes[0]]
    b = util.bexpr(ctx, se, v[4][0])
    good = b[0] == "H" and len(b[1]) == 2 and b[1][0] == P(4) and b[1][1][0] == "H" and len(b[1][1][1]) == 2 and b[1][1][1][0] == P(3)
    rep.check(good, "transcript", HF, "sha1", "SHA1[client_salt | SHA1[server_salt | digits]]", "hash is not SHA1[arg4(client salt) | SHA1[arg3(server salt) | digits]]: %s" % show_b(b)[:300], body.loc(somes[0][0]))
    # the digit buffer hashed is the slice produced by pin_to_bytes (mutated in place)
    if good:
        raw = b[1][1][1][1]
        # exactly that buffer: the slice pin_to_bytes returned (as the passes left it), or - when
        # pin_to_bytes returns the prefix of its scratch array - the first len(slice) bytes of
        # that array; not a shorter or shifted view of it
        rt = util.RAW_TERMS.get(raw[1]) if raw and raw[0] == "raw" else None
        src_ok = bool(raw) and raw[0] == "call" and raw[1] == "pin::pin_to_bytes"      # the slice itself
        if rt is not None:
            x = strip(rt)
            dcalls = [strip(i["term"]) for i in se.term_info.values() if i.get("k") == "call" and i["name"] == "pin::pin_to_bytes"]
            dg = dcalls[0] if len(dcalls) == 1 else None

            def peel_passes(y):
                y = strip(y)
                while y[0] == "after" and util.is_call(y[1]) and (y[1][1].split("::")[-1] in ("into_iter", "iter_mut", "next") or y[1][1].endswith("::index_mut") or y[1][1].endswith("DerefMut>::deref_mut")) and y[2] == 0:
                    y = strip(y[3])
                return y

            y = peel_passes(x)
            if dg is not None and y == dg:
                src_ok = True
            elif dg is not None and util.is_call(y) and (y[1].endswith("::index") or y[1].endswith("::index_mut")) and len(y[2]) == 2:
                rg = strip(y[2][1])
                if rg[0] == "agg" and (rg[2] == "std::ops::RangeTo" or (rg[2] == "std::ops::Range" and util.numnorm(rg[4][0])[:2] == ("int", 0))):
                    end = util.numnorm(rg[4][-1] if rg[2] == "std::ops::Range" else rg[4][0])
                    pse_ = ctx.wrap.run("pin::pin_to_bytes")
                    pr_ = strip(pse_.ret) if pse_ is not None else ("?",)
                    pform = util.is_call(pr_) and pr_[1].endswith("::index_mut") and strip(pr_[2][1])[0] == "agg" and (strip(pr_[2][1])[2] == "std::ops::RangeTo" or util.numnorm(strip(pr_[2][1])[4][0])[:2] == ("int", 0))
                    src_ok = pform and end[0] == "len" and strip(end[1]) == dg and "pin::pin_to_bytes" in str(y[2][0])
        rep.check(src_ok, "transcript", HF, "digits-source", "the inner hash takes exactly the digit buffer (the pin_to_bytes slice as the passes left it)", "inner hash input is not exactly the digit buffer: %s" % str(raw)[:200], body.loc())
    # ---- ASCII offset loop: a `+ 0x30` on the element, every element
    adds = []
    for (bi, si), (l, val) in se.assigns.items():
        sv = strip(val)
        if sv[0] == "binop" and sv[1] in ("AddWithOverflow", "Add") and (sv[3] == ("int", 0x30, "u8") or sv[2] == ("int", 0x30, "u8")):
            adds.append(bi)
    # ---- every digit d is replaced by '0' + (position of d in the remapped grid), in place
    mode = lookup_rule(ctx, rep, se)
    if mode == "table":
        rep.ok("transcript", HF, "ascii-offset", "the ASCII offset is part of the lookup table / the lookup step (decided with it)", body.loc())
    else:
        rep.check(len(adds) == 1, "transcript", HF, "ascii-offset", "digits are offset by 0x30 before hashing", "expected exactly one `+ 0x30` on the digit bytes, found %d" % len(adds), body.loc())
    # ---- 4..10 gate: both comparisons against the constants, None on the out-of-range edges, hashing only inside
    lo = fb.const_int("pin::MIN_PIN_LENGTH")
    hi = fb.const_int("pin::MAX_PIN_LENGTH")
    rep.check((lo, hi) == (4, 10), "gate", HF, "constants", "MIN/MAX pin length = 4/10", "pin length constants are %s..%s, documented 4..10" % (lo, hi))
    lt = gt = None
    for bb, d, f_t, t_t in util.bool_switches(se):
        # `len < 4`, `4 > len`, `len <= 3`, `!(len >= 4)` ... : the interval the test is true on
        it = util.int_test(d, unsigned=True)
        if it is not None and it[0][0] == "len" and "pin::pin_to_bytes" in str(it[0]):
            if it[1:] == (None, lo - 1):
                lt = (bb, t_t, f_t)
            elif it[1:] == (lo, None):
                lt = (bb, f_t, t_t)      # the test of the in-range side: edges swapped
            elif it[1:] == (hi + 1, None):
                gt = (bb, t_t, f_t)
            elif it[1:] == (None, hi):
                gt = (bb, f_t, t_t)
    inr = None
    for bb, d, f_t, t_t in util.bool_switches(se):
        x = strip(d)
        neg = False
        while x[0] == "unop" and x[1] == "Not":
            neg = not neg
            x = x[2]
        if util.is_call(x) and x[1].endswith("::contains") and "RangeInclusive" in x[1] and len(x[2]) == 2:
            r_, v_ = strip(x[2][0]), util.numnorm(x[2][1])
            bounds = None
            if util.is_call(r_) and r_[1].endswith("RangeInclusive::<Idx>::new"):
                bounds = tuple(util.numnorm(a) for a in r_[2])
            elif r_[0] == "agg" and r_[2] == "std::ops::RangeInclusive":
                bounds = tuple(util.numnorm(a) for a in r_[4][:2])
            if bounds and bounds[0][:2] == ("int", lo) and bounds[1][:2] == ("int", hi) and v_[0] == "len" and "pin::pin_to_bytes" in str(v_):
                inr = (bb, f_t, t_t) if neg else (bb, t_t, f_t)
    if inr is not None and not (lt and gt):
        # (MIN..=MAX).contains(&len): one exact two-sided test
        sw, in_t, out_t = inr
        hash_blocks = [bi for bi, t in body.calls() if (t.get("callee") or "").endswith("Digest::new")] + [somes[0][0]]
        bad = [bi for bi in hash_blocks if not cfg.must_pass_edge(body, (sw, in_t), bi)]
        rep.check(not bad, "gate", HF, "hash-only-in-range", "hashing only behind (4..=10).contains(len)", "hashing reachable without passing the length test (bb%s)" % bad, body.loc())
        r_out = cfg.reachable(body, start=out_t)
        r_in = cfg.reachable(body, start=in_t)
        rep.check(bool(nones) and all(bi in r_out and bi not in r_in for bi, _ in nones) and somes[0][0] not in cfg.reachable(body, cut_edges=[(sw, in_t)]), "gate", HF, "none-out-of-range", "out-of-range lengths lead to None", "out-of-range edges do not lead to None", body.loc())
    elif not lt and not gt and _integer_gate(ctx, rep, se, HF, lo, hi, somes, nones):
        pass
    elif lt and not gt and _digits_within_array(ctx, hi):
        # only the lower test is written: the digit slice is a part of the `[u8; 10]` array it
        # was written into, so `len <= 10` holds by the type and needs no test
        hash_blocks = [bi for bi, t in body.calls() if (t.get("callee") or "").endswith("Digest::new")] + [somes[0][0]]
        bad = [bi for bi in hash_blocks if not cfg.must_pass_edge(body, (lt[0], lt[2]), bi)]
        rep.check(not bad, "gate", HF, "hash-only-in-range", "hashing only behind len >= 4 (len <= 10 by the type of the digit buffer)", "hashing reachable without passing the length test (bb%s)" % bad, body.loc())
        r1 = cfg.reachable(body, start=lt[1])
        rin = cfg.reachable(body, start=lt[2])
        rep.check(bool(nones) and all(bi in r1 and bi not in rin for bi, _ in nones) and somes[0][0] not in cfg.reachable(body, cut_edges=[(lt[0], lt[2])]), "gate", HF, "none-out-of-range", "too short leads to None; longer than 10 cannot occur", "out-of-range edges do not lead to None", body.loc())
    elif not lt or not gt:
        rep.violation("gate", HF, "length-tests", "length tests `len < 4` / `len > 10` on the digit slice not found", body.loc())
    else:
        hash_blocks = [bi for bi, t in body.calls() if (t.get("callee") or "").endswith("Digest::new")] + [somes[0][0]]
        bad = [bi for bi in hash_blocks if not (cfg.must_pass_edge(body, (lt[0], lt[2]), bi) and cfg.must_pass_edge(body, (gt[0], gt[2]), bi))]
        rep.check(not bad, "gate", HF, "hash-only-in-range", "hashing only behind len>=4 and len<=10", "hashing reachable without passing both length tests (bb%s)" % bad, body.loc())
        none_ok = nones and all(not cfg.must_pass_edge(body, (lt[0], lt[2]), bi) or not cfg.must_pass_edge(body, (gt[0], gt[2]), bi) for bi, _ in nones)
        r1 = cfg.reachable(body, start=lt[1])
        r2 = cfg.reachable(body, start=gt[1])
        rep.check(bool(nones) and bool(none_ok) and all(bi in r1 and bi in r2 for bi, _ in nones) and somes[0][0] not in cfg.reachable(body, cut_edges=[(lt[0], lt[2])]) , "gate", HF, "none-out-of-range", "out-of-range lengths lead to None", "out-of-range edges do not lead to None", body.loc())
    # ---- wrapper
    vse = ctx.wrap.run(VF)
    if vse is None:
        rep.violation("wrapper", VF, "anchor", "function not found")
        return
    vb = vse.body
    calls = [t for t in walk(strip(vse.ret))] if vse.ret[0] != "phi" else []
    hc = None
    for bb, info in vse.term_info.items():
        if info.get("k") == "call" and info["name"] == HF:
            hc = info
    if hc is None:
        rep.violation("wrapper", VF, "call", "does not call calculate_hash", vb.loc())
        return
    args = tuple(canon(ctx, vse, a) for a in hc["args"])
    rep.check(args == (("param", 1), ("param", 2), ("param", 3), ("param", 4)), "wrapper", VF, "argument-order", "calculate_hash(pin, seed, server_salt, client_salt)", "arguments are passed as %s" % [show(a) for a in args], vb.loc())
    cmps = util.compare_sites(ctx, vse)
    some_payload = ("field", ("downcast", strip(hc["term"]), 1), 0)
    good_cmp = [c for c in cmps if set(strip(a) for a in c["args"]) == {some_payload, ("param", 5)}]
    if len(good_cmp) != 1:
        # closure form: calculate_hash(..).map_or(false, |h| h == *client_pin_hash)
        r = strip(vse.ret)
        ok_form = False
        why = "no comparison of the computed hash (Some payload) with the presented hash"
        # (`is_some_and(f)` is `map_or(false, f)`)
        is_mo = util.is_call(r, "std::option::Option::<T>::map_or") and len(r[2]) == 3 and r[2][1][:2] == ("int", 0)
        is_isa = util.is_call(r, "std::option::Option::<T>::is_some_and") and len(r[2]) == 2
        if (is_mo or is_isa) and strip(r[2][0]) == strip(hc["term"]):
            cl = None
            for i in vse.term_info.values():
                if i.get("k") == "call" and i["name"] == r[1]:
                    cl = i["locargs"][2 if is_mo else 1]
            if cl is not None and cl[0] == "agg" and cl[1] == "closure" and len(cl[4]) == 1:
                cap = cl[4][0]
                cap_ok = cap[0] == "ref" and vse.read(vse.in_state.get(0, {}), cap[1]) in (("param", 5),) or (cap[0] == "ref" and cap[1] == ("local", 5))
                cse = ctx.flat.run(cl[2])
                if cse is not None and cap_ok:
                    ccmps = util.compare_sites(ctx, cse)
                    if len(ccmps) == 1:
                        c = ccmps[0]
                        ok, why2 = util.whole_value_type(fb, c["self_ty"])
                        ops = {strip(a) for a in c["args"]}
                        want = {("param", 2), ("field", ("param", 1), 0)}
                        ok_form = ok and c["self_ty"].len == 20 and ops == want and strip(cse.ret) == strip(c["term"]) and c["op"] == "eq"
                        why = why2
        if not ok_form:
            # Option form: calculate_hash(..) == Some(*presented): equal iff a hash exists and
            # all 20 bytes agree (derived PartialEq of Option<[u8; 20]>)
            for c in cmps:
                ops = [strip(a) for a in c["args"]]
                some_p = ("agg", "adt", "std::option::Option", 1, (("param", 5),))
                sty = c["self_ty"]
                is_opt20 = sty is not None and sty.s.replace(" ", "") in ("std::option::Option<[u8;20]>",)
                if set(ops) == {strip(hc["term"]), some_p} and is_opt20 and c["op"] == "eq" and strip(vse.ret) == strip(c["term"]) and (c["rhs_ty"] is None or c["rhs_ty"].s == sty.s):
                    ok_form = True
        rep.check(ok_form, "wrapper", VF, "whole-value", "Some(h) => h == presented (all 20 bytes), None => false (map_or / Option equality form)", "verification is not `hash exists and equals the presented hash`: " + why, vb.loc())
        rep.check(ok_form, "wrapper", VF, "result", "true only as the result of == on an existing hash; false when no hash exists", "returned boolean is not `Some(h) => h == presented, None => false`", vb.loc())
        return
    c = good_cmp[0]
    ok, why = util.whole_value_type(fb, c["self_ty"])
    rep.check(ok and c["self_ty"].len == 20, "wrapper", VF, "whole-value", why, "hash comparison is not a whole 20-byte equality: " + why, vb.loc(c["bb"]))
    # result: phi of {comparison (eq) on the Some arm, false on the None arm}
    ret = vse.ret
    good = False
    if ret[0] == "phi":
        ins = vse.phi_inputs.get((ret[2], ret[3]), {})
        vals = [strip(v) for v in ins.values()]
        cmp_t = strip(c["term"])
        pol_ok = c["op"] == "eq"
        good = len(vals) == 2 and cmp_t in vals and ("int", 0, "bool") in vals and pol_ok
        # the arm carrying the comparison must be the Some arm: discriminant switch value 1
        if good:
            sw = [(bb, i) for bb, i in vse.term_info.items() if i.get("k") == "switch" and strip(i["discr"])[0] == "discr"]
            good = len(sw) == 1
            if good:
                bb, i = sw[0]
                tg = dict(i["targets"])
                some_t = tg.get(1)
                cmp_pred = [p for p, v in ins.items() if strip(v) == cmp_t][0]
                false_pred = [p for p, v in ins.items() if strip(v) == ("int", 0, "bool")][0]
                good = some_t is not None and cfg.must_pass_edge(vb, (bb, some_t), cmp_pred) and not cfg.must_pass_edge(vb, (bb, some_t), false_pred)
    rep.check(good, "wrapper", VF, "result", "true only as the result of == on the Some arm; false when no hash exists", "returned boolean is not `Some(h) => h == presented, None => false`: %s" % show(ret, maxdepth=3), vb.loc())
