"""C15 - every ephemeral secret, salt, challenge and seed is freshly random per use.

Decides (A9 + A4d): each of the documented sources returns / writes a value that is, on
every path, the unmodified full-width output of a CSPRNG primitive drawn in that very
invocation from `thread_rng()` (`fill_bytes` over the whole buffer, `next_u32`,
`rand::random`, `Uniform(0..=9).sample`), that the API functions use exactly those values
for the documented role, and that the crate has no place to cache a value (no statics,
thread-locals or interior-mutability types).  NOT decided: the statistical quality of
ThreadRng (trusted from `rand`)."""
import cfg
from rules import util
from rules.util import canon, strip
from symex import show, walk

EXPLANATION = __doc__
TRUSTED = ["rustc / extractor", "rand::thread_rng() is a CSPRNG (ChaCha12 reseeded from the OS): outputs do not repeat and every byte varies", "rand::random::<uN>() draws the full width from thread_rng()"]
NOT_DECIDED = ["statistical quality / non-repetition of the generator itself"]

SOURCES_SRP = [
    ("key::PrivateKey::randomized", "private key (a, b)", 32),
    ("key::Salt::randomized", "registration salt", 32),
    ("key::ReconnectData::randomized", "server / client reconnect challenge", 16),
]
SEEDS = [("vanilla_header", None), ("tbc_header", "tbc-header"), ("wrath_header", "wrath-header")]


def floors_for(feats):
    n = 2  # pin salt, pin grid seed
    if "srp-default-math" in feats:
        n += 3 + 2  # three key kinds + refresh on every path / frame (the in-place helper is optional)
    n += sum(2 for m, f in SEEDS if f is None or f in feats)  # default + new
    if "integrity" in feats:
        n += 1
    if "matrix-card" in feats:
        n += 2
    uses = 5 if "srp-default-math" in feats else 0
    return {"fresh-source": n, "use-site": uses, "no-cache": 3}


def check_ret_fresh(ctx, rep, fn, what, width=None):
    se = ctx.deep.run(fn)
    if se is None:
        rep.violation("fresh-source", fn, what, "source function not found")
        return
    if se.ret is None or se.ret[0] == "phi":
        rep.violation("fresh-source", fn, what, "return value differs between paths (not one fresh draw): %s" % show(se.ret, maxdepth=2), se.body.loc())
        return
    r = canon(ctx, se, se.ret)
    ok, why = util.fresh(ctx, r)
    if ok and width is not None:
        # full width: the filled buffer is the whole array of the documented size
        out = ctx.fb.ty(se.body.d["output"])
        wok = False
        if out.k == "array":
            wok = out.len == width
        elif out.k == "adt":
            fs = ctx.fb.adt_fields(out.path)
            ft = ctx.fb.ty(fs[0]["ty"]) if fs is not None and len(fs) == 1 else None
            wok = ft is not None and ((ft.k == "array" and ft.len == width) or (ft.k == "int" and ft.bits == width * 8))
        elif out.k == "int":
            wok = out.bits == width * 8
        if not wok:
            ok, why = False, "result type %s is not %d bytes wide" % (out.s, width)
    rep.check(ok, "fresh-source", fn, what, why, "%s is not a fresh per-call CSPRNG output: %s" % (what, why), se.body.loc())


def check(ctx, rep):
    fb = ctx.fb
    F = ctx.features
    if "srp-default-math" in F:
        for fn, what, w in SOURCES_SRP:
            check_ret_fresh(ctx, rep, fn, what, w)
        # refresh in place (helper is optional: the refresh itself is checked on the API function below)
        se = ctx.deep.run("key::ReconnectData::randomize_data")
        if se is not None:
            eff = se.param_effects().get(1)
            ok, why = (False, "no write to self")
            if eff is not None:
                ok, why = util.fresh(ctx, canon(ctx, se, eff))
            rep.check(ok, "fresh-source", "key::ReconnectData::randomize_data", "challenge refresh", why, "refresh does not overwrite the whole challenge with a fresh value: " + why, se.body.loc())
        # the refresh happens after *every* attempt (accepted or not) and touches only the challenge
        from rules import c05

        c05.refresh_obligation(ctx, rep, None, "fresh-source", "fresh-source")
        # use sites: the API functions use those sources for the documented role
        uses = [
            ("server::SrpVerifier::into_proof", "key::PrivateKey::randomized", "server::SrpVerifier::with_specific_private_key", 1, "server private key b"),
            ("server::SrpVerifier::from_username_and_password", "key::Salt::randomized", "server::SrpVerifier::with_specific_salt", 2, "registration salt"),
        ]
        for fn, src, sink, argi, what in uses:
            se = ctx.wrap.run(fn)
            if se is None:
                rep.violation("use-site", fn, what, "function not found")
                continue
            good = False
            for bb, info in se.term_info.items():
                if info.get("k") == "call" and info["name"] == sink:
                    a = canon(ctx, se, info["args"][argi])
                    good = _is_draw(a, src)
            rep.check(good, "use-site", fn, what, "%s receives %s()" % (sink, src), "%s does not feed a fresh %s() into %s" % (fn, src, sink), se.body.loc())
        # into_server: challenge; client new: a (both uses the same draw); reconnect values
        se = ctx.wrap.run("server::SrpProof::into_server")
        good = False
        if se is not None:
            for (bi, si), (loc, v) in se.assigns.items():
                if v[0] == "agg" and v[2] == "server::SrpServer":
                    good = any(_is_draw(canon(ctx, se, o), "key::ReconnectData::randomized") for o in v[4])
        rep.check(good, "use-site", "server::SrpProof::into_server", "initial server challenge", "SrpServer is created with ReconnectData::randomized()", "the new session's reconnect challenge is not a fresh ReconnectData::randomized()")
        se = ctx.api.run("client::SrpClientChallenge::new")
        good = False
        if se is not None:
            r = strip(se.ret)
            draws = {t for t in walk(r) if _is_draw(t, "key::PrivateKey::randomized")}
            apub = [t for t in walk(r) if util.is_call(t, "srp_internal_client::calculate_client_public_key")]
            cs = [t for t in walk(r) if util.is_call(t, "srp_internal_client::calculate_client_S")]
            good = len(draws) == 1 and apub and cs and all(strip(t[2][0]) in draws for t in apub) and all(strip(t[2][2]) in draws for t in cs)
            if not good and apub and cs and not draws:
                # the key made by a looked-through constructor (`PrivateKey::from_rng(rng)`): one and
                # the same value - a fresh, whole, unmodified CSPRNG output - feeds A and S
                vals = {canon(ctx, se, t[2][0]) for t in apub} | {canon(ctx, se, t[2][2]) for t in cs}
                good = len(vals) == 1 and util.fresh(ctx, next(iter(vals)))[0]
            if not good and not (apub and cs) and "srp-default-math" in ctx.features:
                # the client-only internals were folded into something else: C03's end-to-end
                # view of the constructor - the exponent of A and the `a` in S are one draw
                from rules import c03
                good = bool(c03.client_view(ctx).get("a_single_draw"))
        rep.check(good, "use-site", "client::SrpClientChallenge::new", "client private key a", "one PrivateKey::randomized() draw feeds A and S", "the client's private key is not a single fresh PrivateKey::randomized() draw used for both A and S")
        se = ctx.wrap.run("client::SrpClient::calculate_reconnect_values")
        good = False
        if se is not None and se.ret[0] == "agg":
            good = any(_is_draw(canon(ctx, se, o), "key::ReconnectData::randomized") for o in se.ret[4])
        rep.check(good, "use-site", "client::SrpClient::calculate_reconnect_values", "client challenge", "the challenge sent is ReconnectData::randomized()", "client challenge is not a fresh ReconnectData::randomized()")
    for mod, feat in SEEDS:
        if feat and feat not in F:
            continue
        check_ret_fresh(ctx, rep, "<%s::ProofSeed as std::default::Default>::default" % mod, "world seed (Default)", 4)
        check_ret_fresh(ctx, rep, "%s::ProofSeed::new" % mod, "world seed (new)", 4)
    if "integrity" in F:
        check_ret_fresh(ctx, rep, "integrity::get_salt_value", "integrity salt", 16)
    check_ret_fresh(ctx, rep, "pin::get_pin_salt", "PIN salt", 16)
    check_ret_fresh(ctx, rep, "pin::get_pin_grid_seed", "PIN grid seed", 4)
    if "matrix-card" in F:
        check_ret_fresh(ctx, rep, "matrix_card::get_matrix_card_seed", "matrix card seed", 8)
        matrix_digits(ctx, rep)
    # ---- A4d: nowhere to cache a value
    st = fb.d["statics"]
    rep.check(not st, "no-cache", "crate", "statics", "0 statics / thread-locals in the crate", "static item(s) %s could cache a random value" % [s["path"] for s in st])
    bad = []
    for a in fb.d["adts"]:
        for v in a["variants"]:
            for f in v["fields"]:
                ts = fb.ty(f["ty"]).s
                if any(x in ts for x in ("Cell<", "RefCell<", "Mutex<", "RwLock<", "Once", "Atomic", "Lazy")):
                    bad.append("%s.%s: %s" % (a["path"], f["name"], ts))
    rep.check(not bad, "no-cache", "crate", "interior-mutability", "no interior-mutability field in any crate type", "interior-mutability fields: %s" % bad)
    rep.check(fb.d["unsafe_code_lint"] == "Forbid", "no-cache", "crate", "forbid-unsafe", "#![forbid(unsafe_code)] in force", "unsafe_code lint level is %s" % fb.d["unsafe_code_lint"])


def _is_draw(t, src):
    """t is a call of the key type's `randomized()` or of the `Default::default()` it is defined as
    (`randomized` is `Self::default()`; the fresh-source rule decides what default() draws)"""
    ty = src.rsplit("::", 1)[0]
    return util.is_call(t, src) or util.is_call(t, "<%s as std::default::Default>::default" % ty)


def _is_die(v):
    """v is the uniform distribution over the digits 0..=9, in any of rand's spellings:
    Uniform::from(0..=9), Uniform::new_inclusive(0, 9), Uniform::from(0..10), Uniform::new(0, 10)
    (rand builds all four through new_inclusive(low, high_inclusive))"""
    v = strip(v)
    if util.is_call(v, suffix="::from") and "Uniform" in v[1] and len(v[2]) == 1:
        r = strip(v[2][0])
        if util.is_call(r, "std::ops::RangeInclusive::<Idx>::new"):
            return tuple(util.numnorm(x)[:2] for x in r[2]) == (("int", 0), ("int", 9))
        if r[0] == "agg" and r[2] == "std::ops::RangeInclusive":
            return tuple(util.numnorm(x)[:2] for x in r[4][:2]) == (("int", 0), ("int", 9))
        if r[0] == "agg" and r[2] == "std::ops::Range":
            return tuple(util.numnorm(x)[:2] for x in r[4][:2]) == (("int", 0), ("int", 10))
        return False
    if util.is_call(v, "rand::distributions::Uniform::<X>::new_inclusive") and len(v[2]) == 2:
        return tuple(util.numnorm(x)[:2] for x in v[2]) == (("int", 0), ("int", 9))
    if util.is_call(v, "rand::distributions::Uniform::<X>::new") and len(v[2]) == 2:
        return tuple(util.numnorm(x)[:2] for x in v[2]) == (("int", 0), ("int", 10))
    return False


def matrix_digits(ctx, rep):
    NEW = "matrix_card::MatrixCard::new"
    nse = ctx.wrap.run(NEW)
    if nse is None:
        rep.violation("fresh-source", NEW, "card digits", "function not found")
        return
    # the card's data: the Vec field of the MatrixCard built by `new`
    aggs = [nse.assigns[(bi, si)][1] for bi, si, s_ in util.blocks_constructing(nse.body, "matrix_card::MatrixCard")]
    fields = ctx.fb.adt_fields("matrix_card::MatrixCard")
    di = [k for k, f in enumerate(fields) if "Vec<u8>" in ctx.fb.ty(f["ty"]).s]
    data = strip(aggs[0][4][di[0]]) if len(aggs) == 1 and len(di) == 1 else None
    def size_ok(t):
        t = strip(t)
        if util.is_call(t, "matrix_card::MatrixCard::get_matrix_card_size") and tuple(strip(x) for x in t[2]) == (("param", 1), ("param", 2), ("param", 3)):
            return True
        # the same product spelled out (a looked-through geometry helper): digit_count * height * width
        from rules import arith
        n = arith.norm(t, {("param", 1): "a", ("param", 2): "b", ("param", 3): "c"})

        def factors(x):
            if isinstance(x, tuple) and x and x[0] == "mul":
                out = []
                for y in (x[1] if isinstance(x[1], (set, frozenset)) else x[1:]):
                    out += factors(y)
                return out
            return [x]
        fs_ = factors(n)
        return sorted(map(str, fs_)) == sorted(map(str, [("sym", "a"), ("sym", "b"), ("sym", "c")]))
    die_is = _is_die
    if data is not None and util.is_call(data, "std::iter::Iterator::collect"):
        # Uniform::from(0..=9).sample_iter(thread_rng()).take(size).collect(): one draw per element
        tk = strip(data[2][0])
        good = False
        why = "data is %s" % show(data, maxdepth=3)
        if util.is_call(tk, "std::iter::Iterator::take") and size_ok(tk[2][1]):
            si_ = strip(tk[2][0])
            if util.is_call(si_, "rand::distributions::Distribution::sample_iter") and len(si_[2]) == 2:
                die_ok = die_is(strip(si_[2][0]))
                rng_ok = util.is_call(strip(si_[2][1]), "rand::thread_rng") or util.is_call(strip(si_[2][1]), "rand::rngs::OsRng")
                good = die_ok and rng_ok
                why = "data = Uniform(0..=9).sample_iter(thread_rng()).take(card size).collect()" if good else "die 0..=9: %s; rng is the thread rng: %s" % (die_ok, rng_ok)
        rep.check(good, "fresh-source", NEW, "card digits", why, "card digits are not each drawn from Uniform(0..=9) over thread_rng(): " + why, nse.body.loc())
        rep.ok("fresh-source", NEW, "card digits use", "the card's data is the collected sample stream itself")
        return
    FN = None
    if data is not None and data[0] == "after" and util.is_call(data[1]) and data[1][1] in ctx.fb.bodies and data[2] == 0:
        init = strip(data[3])
        if util.is_call(init, "std::vec::from_elem") and size_ok(init[2][1]):
            FN = data[1][1]
    if FN is None:
        rep.violation("fresh-source", NEW, "card digits", "the card's data is neither filled in place by a crate function nor collected from a sample stream: %s" % (show(data, maxdepth=3) if data is not None else "?"), nse.body.loc())
        return
    se = ctx.wrap.run(FN)
    if se is None:
        rep.violation("fresh-source", FN, "card digits", "function not found")
        return
    body = se.body
    loops = util.for_loops(ctx, se)
    good = False
    why = "no whole-slice loop found"
    if len(loops) == 1 and not loops[0]["only_exit"]:
        why = "the fill loop can be left before the last element (break / return inside)"
    elif len(loops) == 1:
        lp = loops[0]
        whole = strip(lp["init"] or ("x",)) == ("param", 1)
        ini = strip(lp["init"] or ("x",))
        if util.is_call(ini, "core::slice::<impl [T]>::iter_mut"):
            # `for b in buf.iter_mut()`: the explicit spelling of `for b in buf`
            la = (se.term_info.get(ini[3][1], {}).get("locargs") or (("?",),))[0]
            whole = la == ("ref", ("deref", ("param", 1)), True)
        if whole and "IterMut" in (lp["resolved"] or ""):
            # the only store in the loop body writes the element with sample(Uniform::from(0..=9), &mut thread_rng())
            writes = [(k, v) for k, v in se.assigns.items() if v[0][0] == "deref" and strip(v[0][1]) == strip(lp["elem"])]
            if len(writes) == 1:
                (bi, si), (loc, val) = writes[0]
                val = strip(val)
                if util.is_call(val, "<rand::distributions::Uniform<X> as rand::distributions::Distribution<X>>::sample"):
                    die = strip(val[2][0])
                    rng_ok, rwhy = util._rng_origin_ok(ctx, val, 1)
                    die_ok = _is_die(die)
                    on_every_iter = cfg.must_pass_block(body, bi, lp["next_bb"]) or all(cfg.dominates(cfg.dominators(body), bi, t) for (t, h) in cfg.back_edges(body))
                    good = rng_ok and die_ok and on_every_iter
                    why = "every element := Uniform(0..=9).sample(thread_rng)" if good else "rng: %s; die 0..=9: %s; on every iteration: %s" % (rwhy, die_ok, on_every_iter)
                else:
                    why = "element written with %s" % show(val, maxdepth=3)
            else:
                why = "%d stores to the element per iteration" % len(writes)
    if len(loops) == 1 and not good and loops[0]["only_exit"]:
        # for (b, digit) in buf.iter_mut().zip(die.sample_iter(thread_rng())) { *b = digit }: `zip`
        # asks the slice first and stops when it is exhausted, so exactly one sample is drawn per
        # element; every sample of the stream is a fresh draw of the die from the generator
        lp = loops[0]
        ini = strip(lp["init"] or ("x",))
        if util.is_call(ini, "std::iter::Iterator::zip") and "Zip<" in (lp["resolved"] or ""):
            a_, b_ = strip(ini[2][0]), strip(ini[2][1])
            whole = False
            if util.is_call(a_, "core::slice::<impl [T]>::iter_mut"):
                la = (se.term_info.get(a_[3][1], {}).get("locargs") or (("?",),))[0]
                whole = la == ("ref", ("deref", ("param", 1)), True)
            stream = util.is_call(b_, "rand::distributions::Distribution::sample_iter") and len(b_[2]) == 2
            die_ok = stream and _is_die(b_[2][0])
            rng_ok = stream and (util.is_call(strip(b_[2][1]), "rand::thread_rng") or util.is_call(strip(b_[2][1]), "rand::rngs::OsRng"))
            elem = strip(lp["elem"])
            writes = [(k, v) for k, v in se.assigns.items() if v[0][0] == "deref"]
            one = len(writes) == 1 and strip(writes[0][1][0][1]) == ("field", elem, 0) and strip(writes[0][1][1]) == ("field", elem, 1)
            every = one and (cfg.must_pass_block(body, writes[0][0][0], lp["next_bb"]) or all(cfg.dominates(cfg.dominators(body), writes[0][0][0], t) for (t, h) in cfg.back_edges(body)))
            good = whole and die_ok and rng_ok and one and every
            why = "every element := the next sample of Uniform(0..=9).sample_iter(thread_rng) (zip: one draw per element)" if good else "whole slice: %s; die 0..=9: %s; thread rng: %s; the one store is the sample: %s; on every iteration: %s" % (whole, die_ok, rng_ok, one, every)
    if not loops:
        # buf.fill_with(|| die.sample(&mut rng)): the closure is called once per element, in order
        fw = [i for i in se.term_info.values() if i.get("k") == "call" and i["name"] == "core::slice::<impl [T]>::fill_with"]
        if len(fw) == 1 and fw[0]["locargs"][0] == ("ref", ("deref", ("param", 1)), True):
            cl = fw[0]["locargs"][1]
            if cl[0] == "agg" and cl[1] == "closure" and len(cl[4]) == 2 and all(c[0] == "ref" and c[1][0] == "local" for c in cl[4]):
                vals = [strip(util.value_before_terminator(se, fw[0]["site"][1], c[1])) for c in cl[4]]
                die_i = [k for k, v in enumerate(vals) if _is_die(v)]
                rng_i = [k for k, v in enumerate(vals) if util.is_call(v, "rand::thread_rng")]
                cse = ctx.flat.run(cl[2])
                if len(die_i) == 1 and len(rng_i) == 1 and cl[4][rng_i[0]][2] and cse is not None and not cfg.back_edges(cse.body):
                    calls = [i for i in cse.term_info.values() if i.get("k") == "call"]
                    r = strip(cse.ret)
                    env1 = ("deref", ("param", 1)) if cse.body.local_ty(1).k == "ref" else ("param", 1)
                    if len(calls) == 1 and util.is_call(r, "<rand::distributions::Uniform<X> as rand::distributions::Distribution<X>>::sample") and r == strip(calls[0]["term"]):
                        la = calls[0]["locargs"]
                        die_ok = strip(la[0]) == strip(("field", env1, die_i[0]))
                        rng_ok = la[1][0] == "ref" and strip(la[1][1]) == strip(("field", env1, rng_i[0]))
                        good = die_ok and rng_ok
                        why = "every element := Uniform(0..=9).sample(thread_rng) (fill_with)" if good else "fill_with closure does not sample the 0..=9 die from the thread rng"
    rep.check(good, "fresh-source", FN, "card digits", why, "card digits are not each drawn from Uniform(0..=9) over thread_rng(): " + why, body.loc())
    # MatrixCard::new fills the whole data vector (established above: data = after<FN(&mut vec![0; size])>)
    rep.ok("fresh-source", "matrix_card::MatrixCard::new", "card digits use", "MatrixCard::new fills its whole data vector with %s" % FN)
