"""Fact base: loads the JSON written by driver/ and gives indexed, convenient access.

All rule modules work on these objects only; nothing here reads /repo source text.
"""
import json
import os


class Ty:
    __slots__ = ("ix", "d", "fb")

    def __init__(self, ix, d, fb):
        self.ix, self.d, self.fb = ix, d, fb

    @property
    def s(self):
        return self.d["s"]

    @property
    def k(self):
        return self.d["k"]

    def __repr__(self):
        return self.d["s"]

    def is_int(self):
        return self.k == "int"

    @property
    def bits(self):
        return self.d.get("bits")

    @property
    def signed(self):
        return self.d.get("signed")

    @property
    def elem(self):
        return self.fb.ty(self.d["elem"]) if "elem" in self.d else None

    @property
    def len(self):
        return self.d.get("len")

    @property
    def to(self):
        return self.fb.ty(self.d["to"]) if "to" in self.d else None

    @property
    def path(self):
        return self.d.get("path")

    @property
    def elems(self):
        return [self.fb.ty(i) for i in self.d.get("elems", [])]

    def peel_refs(self):
        t = self
        while t.k == "ref":
            t = t.to
        return t

    def targs(self):
        """type arguments (Ty) of an adt / fndef"""
        return [self.fb.ty(a["ty"]) for a in self.d.get("args", []) if "ty" in a]


class Body:
    def __init__(self, fb, d):
        self.fb = fb
        self.d = d
        self.path = d["path"]
        self.kind = d["def_kind"]
        b = d["body"]
        self.arg_count = b["arg_count"]
        self.locals = b["locals"]
        self.blocks = b["blocks"]
        self.span = b["span"]
        self._preds = None

    def local_ty(self, l):
        return self.fb.ty(self.locals[l]["ty"])

    def local_name(self, l):
        return self.locals[l].get("name")

    def is_pub(self):
        return bool(self.d.get("pub"))

    def reachable(self):
        return bool(self.d.get("reachable"))

    def derived(self):
        return bool(self.d.get("derived"))

    def succs(self, bi, cleanup=False):
        t = self.blocks[bi]["term"]
        k = t["k"]
        out = []
        if k == "goto":
            out = [t["target"]]
        elif k == "switch":
            out = [x[1] for x in t["targets"]] + [t["otherwise"]]
        elif k in ("drop", "assert"):
            out = [t["target"]]
        elif k == "call":
            if t["target"] is not None:
                out = [t["target"]]
        if cleanup and t.get("unwind") is not None:
            out = out + [t["unwind"]]
        return out

    def normal_blocks(self):
        return [i for i, b in enumerate(self.blocks) if not b["cleanup"]]

    def preds(self):
        if self._preds is None:
            p = {i: [] for i in range(len(self.blocks))}
            for i in self.normal_blocks():
                for s in self.succs(i):
                    p[s].append(i)
            self._preds = p
        return self._preds

    def calls(self):
        """yield (block index, terminator) for every call in non-cleanup blocks"""
        for i in self.normal_blocks():
            t = self.blocks[i]["term"]
            if t["k"] == "call":
                yield i, t

    def loc(self, bi=None, si=None):
        if bi is None:
            sp = self.span
        elif si is None:
            sp = self.blocks[bi]["term"]["span"]
        else:
            sp = self.blocks[bi]["stmts"][si]["span"]
        return "%s:%s" % (sp["file"], sp["line"])


def _remap(x, lo, bo, owner):
    """deep copy of a MIR JSON fragment with locals shifted by lo and block indices by bo"""
    if isinstance(x, dict):
        if set(x.keys()) == {"l", "p"}:
            return {"l": x["l"] + lo, "p": [({"i": e["i"] + lo} if isinstance(e, dict) and "i" in e else e) for e in x["p"]]}
        out = {}
        for k, v in x.items():
            if k in ("target", "unwind", "otherwise") and isinstance(v, int):
                out[k] = v + bo
            elif k == "targets" and isinstance(v, list):
                out[k] = [[a, b + bo] for a, b in v]
            else:
                out[k] = _remap(v, lo, bo, owner)
        if "promoted" in x and "promoted_of" not in x:
            out["promoted_of"] = owner
        return out
    if isinstance(x, list):
        return [_remap(v, lo, bo, owner) for v in x]
    return x


def _splice(caller, bi, callee, adts=None):
    """caller body dict with the call in block bi replaced by the callee's blocks"""
    cb = caller["body"]
    fb_ = callee["body"]
    lo = len(cb["locals"])
    bo = len(cb["blocks"])
    owner = callee.get("variant_of") or callee["path"]
    new_locals = list(cb["locals"]) + [dict(l) for l in fb_["locals"]]
    call = cb["blocks"][bi]["term"]
    cont = bo + len(fb_["blocks"])
    blocks = [dict(b) for b in cb["blocks"]]
    # callee blocks
    for k, blk in enumerate(fb_["blocks"]):
        nb = {"cleanup": blk["cleanup"], "stmts": _remap(blk["stmts"], lo, bo, owner)}
        t = blk["term"]
        if t["k"] == "return":
            nb["term"] = {"k": "goto", "target": cont, "span": t["span"]}
        else:
            nt = _remap(t, lo, bo, owner)
            if "unwind" in nt:
                nt["unwind"] = None
            nb["term"] = nt
        blocks.append(nb)
    # continuation: dest = move callee _0; goto the call's target
    sp = call["span"]
    blocks.append({"cleanup": False, "stmts": [{"k": "assign", "place": call["dest"], "rv": {"k": "use", "op": {"k": "move", "place": {"l": lo, "p": []}}}, "span": sp}], "term": {"k": "goto", "target": call["target"], "span": sp}})
    # call block: parameters := arguments; goto callee entry
    blk = dict(blocks[bi])
    stmts = list(blk["stmts"])
    for i, a in enumerate(call["args"]):
        stmts.append({"k": "assign", "place": {"l": lo + 1 + i, "p": []}, "rv": {"k": "use", "op": a}, "span": sp})
    blk["stmts"] = stmts
    blk["term"] = {"k": "goto", "target": bo, "span": sp, "spliced_call": call.get("resolved")}
    blocks[bi] = blk
    out = dict(caller)
    nbody = dict(cb)
    nbody["locals"] = new_locals
    nbody["blocks"] = blocks
    corr = _correlation(blocks, bo, len(fb_["blocks"]), lo, call, cont, adts or {})
    if corr and not os.environ.get("WOWSRP_NO_THREAD") and _thread(blocks, corr):
        corr = None
    inherited = []
    for c in fb_.get("corr", []):
        # correlations established inside the callee (helpers of the helper) move with its blocks
        inherited.append({"assign": {k + bo: v for k, v in c["assign"].items()}, "switch": c["switch"] + bo, "succ": {v: t + bo for v, t in c["succ"].items()}})
    if corr or inherited or cb.get("corr"):
        nbody["corr"] = list(cb.get("corr", [])) + inherited + ([corr] if corr else [])
    out["body"] = nbody
    return out


def _succ1(t):
    """the single normal successor of a straight-line terminator, else None"""
    if t["k"] == "goto" or t["k"] in ("drop", "assert"):
        return t["target"]
    if t["k"] == "call" and t.get("target") is not None:
        return t["target"]
    return None


def _thread(blocks, corr):
    """Tail duplication for a spliced `Result` / `Option` helper: the straight-line blocks between
    each of the helper's return-value sites and the caller's test of that value are copied per
    site and the test is replaced by the jump it must take, so that no join mixes the helper's
    `Ok(v)` with its propagated error - terms and paths then read as before the extraction
    (`let v = helper()?` behaves like the inlined `read_exact(..)?; v`).  Returns False (and
    leaves the blocks alone) when the shape is not a straight line."""
    sb = corr["switch"]
    plans = []
    for a, variant in sorted(corr["assign"].items()):
        tgt = corr["succ"].get(variant)
        first = _succ1(blocks[a]["term"])
        if tgt is None or first is None:
            return False
        path = []
        n = first
        while True:
            path.append(n)
            if n == sb:
                break
            if len(path) > 14 or n in corr["assign"]:
                return False
            n = _succ1(blocks[n]["term"])
            if n is None:
                return False
        plans.append((a, path, tgt))
    on_paths = set()
    for a, path, tgt in plans:
        on_paths |= set(path)
    # nobody else may enter the duplicated stretch
    for i, blk in enumerate(blocks):
        if blk["cleanup"] or i in on_paths or i in corr["assign"]:
            continue
        t = blk["term"]
        outs = [t.get("target")] if t["k"] in ("goto", "drop", "assert", "call") else ([x[1] for x in t.get("targets", [])] + [t.get("otherwise")] if t["k"] == "switch" else [])
        if any(o in on_paths for o in outs):
            return False
    for a, path, tgt in plans:
        base = len(blocks)
        for j, n in enumerate(path):
            nb = {"cleanup": False, "stmts": list(blocks[n]["stmts"])}
            t = dict(blocks[n]["term"])
            if n == sb:
                nb["term"] = {"k": "goto", "target": tgt, "span": t["span"], "threaded": True}
            else:
                t["target"] = base + j + 1
                nb["term"] = t
            blocks.append(nb)
        t = dict(blocks[a]["term"])
        t["target"] = base
        blocks[a] = dict(blocks[a], term=t)
    for n in on_paths:
        sp = blocks[n]["term"]["span"]
        blocks[n] = {"cleanup": False, "stmts": [], "term": {"k": "unreachable", "span": sp}}
    return True


def _correlation(blocks, bo, n_callee, lo, call, cont, adts=None):
    """A spliced helper that returns an enum (Result, Option, or one of the crate's own): each of
    its return sites builds one known variant, and the caller tests exactly that value (`?` or a
    match on it) right after the call.  Recorded so that path queries do not mix, say, the Ok
    return with the Err arm (cfg.py); used by _thread to duplicate the stretch per variant."""
    adts = adts or {}

    def discr_of(path, vname, vidx):
        """the value switchInt(discriminant(..)) sees for this variant, or None if unknown"""
        if path in ("std::result::Result", "std::option::Option"):
            return vidx
        a = adts.get(path)
        if a is None or a.get("kind") != "Enum":
            return None
        for v in a["variants"]:
            if v["name"] == vname and "discr" in v:
                return int(v["discr"])
        return None

    assign = {}
    dvals = {}
    for k in range(n_callee):
        blk = blocks[bo + k]
        v = None
        for st in blk["stmts"]:
            if st["k"] == "assign" and st["place"] == {"l": lo, "p": []}:
                rv = st["rv"]
                v = "?"
                if rv["k"] == "aggregate" and rv.get("ak") == "adt" and rv.get("vname") is not None:
                    dv = discr_of(rv.get("path"), rv["vname"], rv.get("variant"))
                    if dv is not None:
                        v = rv["vname"]
                        dvals[v] = dv
        t = blk["term"]
        if t["k"] == "call" and t.get("dest") == {"l": lo, "p": []}:
            v = "?"
            if "FromResidual" in (t.get("resolved") or t.get("callee") or ""):
                v = "Err"
                dvals.setdefault("Err", 1)
        if v is not None:
            assign[bo + k] = v
    if not assign or "?" in assign.values() or len(set(assign.values())) < 2:
        return None
    if call["dest"]["p"]:
        return None
    tested = call["dest"]["l"]
    b = cont
    via_branch = False
    for _ in range(14):
        blk = blocks[b]
        t = blk["term"]
        dl = None
        for st in blk["stmts"]:
            if st["k"] == "assign" and st["rv"]["k"] == "discr" and st["rv"]["place"] == {"l": tested, "p": []} and not st["place"]["p"]:
                dl = st["place"]["l"]
        if dl is not None and t["k"] == "switch" and t["discr"].get("place") == {"l": dl, "p": []}:
            tg = {int(a): bb for a, bb in t["targets"]}
            if via_branch:
                # ControlFlow: Continue = 0 for the good variant, Break = 1 for the residual
                good = {"Ok", "Some"}
                succ = {v: (tg.get(0, t["otherwise"]) if v in good else tg.get(1, t["otherwise"])) for v in set(assign.values())}
            else:
                succ = {v: tg.get(dvals[v], t["otherwise"]) for v in set(assign.values())}
            return {"assign": assign, "switch": b, "succ": succ}
        if t["k"] == "call" and "Try>::branch" in (t.get("resolved") or "") and len(t["args"]) == 1 and t["args"][0].get("place") == {"l": tested, "p": []} and not t["dest"]["p"]:
            tested = t["dest"]["l"]
            via_branch = True
            b = t["target"]
            continue
        if t["k"] == "goto":
            # a plain move of the tested value keeps it
            for st in blk["stmts"]:
                if st["k"] == "assign" and st["rv"]["k"] == "use" and st["rv"]["op"].get("place") == {"l": tested, "p": []} and not st["place"]["p"]:
                    tested = st["place"]["l"]
            b = t["target"]
            continue
        if t["k"] in ("call", "assert", "drop") and t.get("target") is not None:
            # other work between the helper's return and the test (the error value of
            # `.ok_or(Error { .. })` is built there): the tested value must not be involved
            m = set()
            _places(t, m)
            for st in blk["stmts"]:
                _places(st, m)
            if tested in m:
                return None
            b = t["target"]
            continue
        return None
    return None


def _synthetic_combinator(fb, caller, call):
    """MIR of `bool::then_some(c, v)` / `Option::ok_or(o, e)` as std defines them
    (`if c { Some(v) } else { None }`, `match o { Some(v) => Ok(v), None => Err(e) }`), typed
    from the call site; spliced like an extracted helper so that the value's variant and the
    caller's test of it are correlated (the same treatment a crate-local verdict helper gets)."""
    T = fb._types
    locs = caller["body"]["locals"]
    name = call.get("resolved")
    sp = call["span"]

    def ty_of(op):
        if op.get("k") in ("move", "copy"):
            pl = op["place"]
            t = locs[pl["l"]]["ty"]
            for e in pl["p"]:
                if e == "*":
                    t = T[t].get("to")
                elif isinstance(e, dict) and "ty" in e:
                    t = e["ty"]
                elif isinstance(e, dict) and "dc" in e:
                    pass
                else:
                    return None
                if t is None:
                    return None
            return t
        if op.get("k") == "const":
            return (op.get("val") or {}).get("ty")
        return None

    def find(sname):
        for i, x in enumerate(T):
            if x.get("s") == sname:
                return i
        return None

    if call["dest"]["p"] or call.get("target") is None or len(call["args"]) != 2:
        return None
    dt = locs[call["dest"]["l"]]["ty"]
    a0, a1 = ty_of(call["args"][0]), ty_of(call["args"][1])
    if a0 is None or a1 is None:
        return None

    def P(l, proj=None):
        return {"l": l, "p": proj or []}

    def assign(l, rv):
        return {"k": "assign", "place": P(l), "rv": rv, "span": sp}

    def opt(variant, ty, ops):
        return {"k": "aggregate", "ak": "adt", "path": "std::option::Option", "local": False, "variant": variant, "vname": ("None", "Some")[variant], "fields": ["0"] if variant else [], "args": [{"ty": ty}], "active": None, "ops": ops}

    def res(variant, tys, ops):
        return {"k": "aggregate", "ak": "adt", "path": "std::result::Result", "local": False, "variant": variant, "vname": ("Ok", "Err")[variant], "fields": ["0"], "args": [{"ty": t} for t in tys], "active": None, "ops": ops}

    ret = {"k": "return", "span": sp}
    if name == "core::bool::<impl bool>::then_some":
        if T[dt].get("path") != "std::option::Option" or T[a0].get("s") != "bool":
            return None
        blocks = [
            {"cleanup": False, "stmts": [], "term": {"k": "switch", "discr": {"k": "copy", "place": P(1)}, "targets": [["0", 1]], "otherwise": 2, "span": sp}},
            {"cleanup": False, "stmts": [assign(0, opt(0, a1, []))], "term": ret},
            {"cleanup": False, "stmts": [assign(0, opt(1, a1, [{"k": "move", "place": P(2)}]))], "term": ret},
        ]
        locals_ = [{"ty": dt, "mut": True}, {"ty": a0, "mut": False}, {"ty": a1, "mut": False}]
    elif name == "std::option::Option::<T>::ok_or":
        if T[dt].get("path") != "std::result::Result" or T[a0].get("path") != "std::option::Option":
            return None
        isz = find("isize")
        tv = T[a0]["args"][0]["ty"]
        if isz is None:
            return None
        blocks = [
            {"cleanup": False, "stmts": [assign(3, {"k": "discr", "place": P(1)})], "term": {"k": "switch", "discr": {"k": "move", "place": P(3)}, "targets": [["0", 1], ["1", 2]], "otherwise": 3, "span": sp}},
            {"cleanup": False, "stmts": [assign(0, res(1, [tv, a1], [{"k": "move", "place": P(2)}]))], "term": ret},
            {"cleanup": False, "stmts": [assign(0, res(0, [tv, a1], [{"k": "move", "place": P(1, [{"dc": 1, "name": "Some"}, {"f": 0, "ty": tv}])}]))], "term": ret},
            {"cleanup": False, "stmts": [], "term": {"k": "unreachable", "span": sp}},
        ]
        locals_ = [{"ty": dt, "mut": True}, {"ty": a0, "mut": False}, {"ty": a1, "mut": False}, {"ty": isz, "mut": True}]
    else:
        return None
    return {"path": name, "def_kind": "AssocFn", "name": name.split("::")[-1], "body": {"arg_count": 2, "locals": locals_, "blocks": blocks, "span": sp}}


def _places(x, out):
    """every local mentioned in a MIR JSON fragment"""
    if isinstance(x, dict):
        if "l" in x and "p" in x and isinstance(x["l"], int):
            out.add(x["l"])
            for e in x["p"]:
                if isinstance(e, dict) and "i" in e:
                    out.add(e["i"])
            return
        for v in x.values():
            _places(v, out)
    elif isinstance(x, list):
        for v in x:
            _places(v, out)


def _unzip(fb, d, zi):
    """`for (x, k) in A.zip(B)` with B a crate-local iterator type that did not exist on the pinned
    tree: the loop is shown to the rules as std's `Zip::next` (the general implementation - a
    user type cannot be TrustedRandomAccess) executes it: `x = A.next()?`, then `k = B.next()?`,
    item `(x, k)`.  B's `next` becomes a direct call (and is then spliced like any fresh helper).
    Returns the rewritten function dict, or None when the shape is not exactly the `for` desugaring."""
    body = d["body"]
    blocks = body["blocks"]
    locs = body["locals"]
    T = fb._types
    zt = blocks[zi]["term"]

    def plain(op):
        return op.get("k") == "move" and op["place"]["p"] == []

    if len(zt["args"]) != 2 or not all(plain(a) for a in zt["args"]) or zt["dest"]["p"]:
        return None
    la, lb = zt["args"][0]["place"]["l"], zt["args"][1]["place"]["l"]
    tya, tyb = locs[la]["ty"], locs[lb]["ty"]
    tb = T[tyb]
    known_adts = set((_ANCHORS or {}).get("adts", {})) | set((_ANCHORS or {}).get("adts_pub", {}))
    if tb.get("k") != "adt" or not tb.get("local") or tb.get("path") in known_adts:
        return None
    nxt = [q for q, b_ in fb.bodies.items() if b_.d.get("impl_trait") == "std::iter::Iterator" and b_.d.get("name") == "next" and b_.d.get("impl_self_ty") == tyb]
    if len(nxt) != 1:
        return None
    nb = fb.bodies[nxt[0]]
    import cfg as _cfg
    if _cfg.back_edges(nb) or len(nb.blocks) > 80:
        return None
    # the `next` of A: as some loop of the crate already calls it, or the slice iterators
    tmpl = None
    for b_ in fb.bodies.values():
        for _, t_ in b_.calls():
            if t_.get("callee") == "std::iter::Iterator::next" and t_.get("callee_args") == [{"ty": tya}]:
                tmpl = t_
                break
        if tmpl:
            break
    ta = T[tya]
    if tmpl is None:
        if ta.get("path") not in ("std::slice::IterMut", "std::slice::Iter"):
            return None
        tmpl = {"resolved": "<%s<'a, T> as std::iter::Iterator>::next" % ta["path"], "resolved_args": ta.get("args", []), "resolved_self_ty": None}
    # the zip value on its way into the loop
    Z, R = {zt["dest"]["l"]}, set()
    into = None
    changed = True
    while changed:
        changed = False
        for bi, blk in enumerate(blocks):
            for s_ in blk["stmts"]:
                if s_["k"] != "assign" or s_["place"]["p"]:
                    continue
                rv, dl = s_["rv"], s_["place"]["l"]
                if rv["k"] == "use" and rv["op"].get("k") in ("move", "copy") and rv["op"]["place"]["p"] == [] and rv["op"]["place"]["l"] in Z and dl not in Z:
                    Z.add(dl); changed = True
                if rv["k"] == "ref" and rv.get("mut") and dl not in R:
                    pl = rv["place"]
                    if (pl["p"] == [] and pl["l"] in Z) or (pl["p"] == ["*"] and pl["l"] in R):
                        R.add(dl); changed = True
            t_ = blk["term"]
            if t_["k"] == "call" and t_.get("callee") == "std::iter::IntoIterator::into_iter" and len(t_["args"]) == 1 and plain(t_["args"][0]) and t_["args"][0]["place"]["l"] in Z and not t_["dest"]["p"]:
                if t_["dest"]["l"] not in Z:
                    Z.add(t_["dest"]["l"]); changed = True
                into = bi
    nexts = [bi for bi, blk in enumerate(blocks) if blk["term"]["k"] == "call" and blk["term"].get("callee") == "std::iter::Iterator::next" and (blk["term"].get("resolved") or "").startswith("<std::iter::Zip<A, B> as") and len(blk["term"]["args"]) == 1 and plain(blk["term"]["args"][0]) and blk["term"]["args"][0]["place"]["l"] in R]
    if into is None or len(nexts) != 1:
        return None
    ni = nexts[0]
    nt = blocks[ni]["term"]
    if nt["dest"]["p"] or nt.get("target") is None:
        return None
    dest = nt["dest"]["l"]
    tb_ = blocks[nt["target"]]
    if len(tb_["stmts"]) != 1 or tb_["stmts"][0]["k"] != "assign" or tb_["stmts"][0]["rv"].get("k") != "discr" or tb_["stmts"][0]["rv"]["place"] != {"l": dest, "p": []} or tb_["term"]["k"] != "switch":
        return None
    dv = tb_["stmts"][0]["place"]["l"]
    sw = tb_["term"]
    if sw["discr"].get("place") != {"l": dv, "p": []}:
        return None
    tg = {str(a): b for a, b in sw["targets"]}
    if set(tg) != {"0", "1"}:
        return None
    # nothing else looks at the zip value
    for bi, blk in enumerate(blocks):
        for s_ in blk["stmts"]:
            m = set()
            _places(s_, m)
            if m & (Z | R):
                ok = s_["k"] == "assign" and not s_["place"]["p"] and s_["place"]["l"] in (Z | R)
                if not ok:
                    return None
        m = set()
        _places(blk["term"], m)
        if m & (Z | R) and bi not in (zi, into, ni) and blk["term"]["k"] != "drop":
            return None
    # the item type (X, K) and the options around its parts
    ot = T[locs[dest]["ty"]]
    if ot.get("path") != "std::option::Option" or not ot.get("args"):
        return None
    tup = ot["args"][0]["ty"]
    if T[tup].get("k") != "tuple" or len(T[tup].get("elems", [])) != 2:
        return None
    ea, eb = T[tup]["elems"]

    def intern(td):
        for i, x in enumerate(T):
            if x.get("s") == td["s"] and x.get("k") == td["k"]:
                return i
        T.append(td)
        return len(T) - 1

    opt_a = intern({"s": "std::option::Option<%s>" % T[ea]["s"], "k": "adt", "path": "std::option::Option", "local": False, "args": [{"ty": ea}]})
    opt_b = nb.d["output"]
    ref_a = intern({"s": "&mut %s" % ta["s"], "k": "ref", "mut": True, "to": tya})
    ref_b = intern({"s": "&mut %s" % tb["s"], "k": "ref", "mut": True, "to": tyb})
    new_locals = [dict(l) for l in locs]

    def fresh(ty):
        new_locals.append({"ty": ty, "mut": True})
        return len(new_locals) - 1

    A_, B_, rA, rB, nA, nB, dA, dB, tp = fresh(tya), fresh(tyb), fresh(ref_a), fresh(ref_b), fresh(opt_a), fresh(opt_b), fresh(locs[dv]["ty"]), fresh(locs[dv]["ty"]), fresh(tup)
    sp = nt["span"]
    nblocks = []
    for bi, blk in enumerate(blocks):
        nbk = dict(blk)
        nbk["stmts"] = [s_ for s_ in blk["stmts"] if not (s_["k"] == "assign" and not s_["place"]["p"] and s_["place"]["l"] in (Z | R))]
        nblocks.append(nbk)
    base = len(nblocks)
    n1, n_none, n2, n3, n4 = base, base + 1, base + 2, base + 3, base + 4

    def P(l, proj=None):
        return {"l": l, "p": proj or []}

    def assign(l, rv):
        return {"k": "assign", "place": P(l), "rv": rv, "span": sp}

    # zip(a, b): the two iterators stay apart
    zb = nblocks[zi]
    zb["stmts"] = zb["stmts"] + [assign(B_, {"k": "use", "op": {"k": "move", "place": P(lb)}})]
    zb["term"] = {"k": "goto", "target": zt["target"], "span": zt["span"]}
    ib = nblocks[into]
    it_ = dict(ib["term"])
    it_["args"] = [{"k": "move", "place": P(la)}]
    it_["dest"] = P(A_)
    it_["callee_args"] = [{"ty": tya}]
    it_["resolved_args"] = [{"ty": tya}]
    ib["term"] = it_
    # next(): A first
    kb = nblocks[ni]
    kb["stmts"] = kb["stmts"] + [assign(rA, {"k": "ref", "mut": True, "fake": False, "place": P(A_)})]
    ca = dict(nt)
    ca.update({"args": [{"k": "move", "place": P(rA)}], "dest": P(nA), "target": n1, "callee_args": [{"ty": tya}], "resolved": tmpl["resolved"], "resolved_args": tmpl.get("resolved_args", []), "resolved_self_ty": tmpl.get("resolved_self_ty"), "unzipped": True})
    kb["term"] = ca
    nblocks.append({"cleanup": False, "stmts": [assign(dA, {"k": "discr", "place": P(nA)})], "term": {"k": "switch", "discr": {"k": "move", "place": P(dA)}, "targets": [["0", n_none], ["1", n2]], "otherwise": sw["otherwise"], "span": sp}})
    none_rv = {"k": "aggregate", "ak": "adt", "path": "std::option::Option", "local": False, "variant": 0, "vname": "None", "fields": [], "args": [{"ty": tup}], "active": None, "ops": []}
    nblocks.append({"cleanup": False, "stmts": [assign(dest, none_rv)], "term": {"k": "goto", "target": tg["0"], "span": sp}})
    cb_ = {"span": sp, "fn_span": nt.get("fn_span", sp), "k": "call", "func": {"k": "const", "fn": "std::iter::Iterator::next", "val": {"ty": 0, "ck": "zst"}}, "args": [{"k": "move", "place": P(rB)}], "dest": P(nB), "target": n3, "unwind": None, "callee": "std::iter::Iterator::next", "callee_local": False, "callee_args": [{"ty": tyb}], "callee_trait": "std::iter::Iterator", "resolved": nxt[0], "resolved_local": True, "resolved_kind": "Item", "resolved_args": [], "resolved_derived": False, "resolved_self_ty": tyb, "unzipped": True}
    nblocks.append({"cleanup": False, "stmts": [assign(rB, {"k": "ref", "mut": True, "fake": False, "place": P(B_)})], "term": cb_})
    # a `next` that builds `Some(..)` on every path never ends the loop: no edge for its `None`
    ret_vals = []
    for blk in nb.blocks:
        if blk["cleanup"]:
            continue
        for s_ in blk["stmts"]:
            if s_["k"] == "assign" and s_["place"]["l"] == 0:
                ret_vals.append(s_["place"]["p"] == [] and s_["rv"].get("k") == "aggregate" and s_["rv"].get("path") == "std::option::Option" and s_["rv"].get("vname") == "Some")
        if blk["term"]["k"] == "call" and blk["term"]["dest"]["l"] == 0:
            ret_vals.append(False)
    if ret_vals and all(ret_vals):
        nblocks.append({"cleanup": False, "stmts": [], "term": {"k": "goto", "target": n4, "span": sp}})
    else:
        nblocks.append({"cleanup": False, "stmts": [assign(dB, {"k": "discr", "place": P(nB)})], "term": {"k": "switch", "discr": {"k": "move", "place": P(dB)}, "targets": [["0", n_none], ["1", n4]], "otherwise": sw["otherwise"], "span": sp}})
    some = lambda: {"dc": 1, "name": "Some"}
    tup_rv = {"k": "aggregate", "ak": "tuple", "ops": [{"k": "move", "place": P(nA, [some(), {"f": 0, "ty": ea}])}, {"k": "move", "place": P(nB, [some(), {"f": 0, "ty": eb}])}]}
    some_rv = {"k": "aggregate", "ak": "adt", "path": "std::option::Option", "local": False, "variant": 1, "vname": "Some", "fields": ["0"], "args": [{"ty": tup}], "active": None, "ops": [{"k": "move", "place": P(tp)}]}
    nblocks.append({"cleanup": False, "stmts": [assign(tp, tup_rv), assign(dest, some_rv)], "term": {"k": "goto", "target": tg["1"], "span": sp}})
    out = dict(d)
    nbody = dict(body)
    nbody["locals"] = new_locals
    nbody["blocks"] = nblocks
    out["body"] = nbody
    return out, nxt[0]


def signature_table(d):
    """{function path: signature string} for the named functions of a fact document"""
    tys = d["types"]
    out = {}
    for b in d["bodies"]:
        if b.get("def_kind") not in ("Fn", "AssocFn") or b.get("derived") or "instance_of" in b or "inputs" not in b:
            continue
        if b.get("impl_trait"):
            continue        # trait impl methods are named by the trait: nothing to rename
        sig = "%s|%s|(%s)->%s|pub=%s" % (b["def_kind"], tys[b["impl_self_ty"]]["s"] if "impl_self_ty" in b else "", ",".join(tys[i]["s"] for i in b["inputs"]), tys[b["output"]]["s"], bool(b.get("pub") and b.get("reachable")))
        out[b["path"]] = sig
    return out


def adt_signature_table(d, public=False):
    """{ADT path: signature} for types that are not reachable from outside the crate
    (public=True: for those that are - they can move behind a re-export, never change name)"""
    tys = d["types"]
    out = {}
    for a in d["adts"]:
        if bool(a.get("reachable")) != public:
            continue
        if a.get("generic"):
            # generic over lifetimes only (`Printer<'a>`): one type, like a non-generic one
            ts_ = tys[a["ty"]]["s"] if isinstance(a.get("ty"), int) and a["ty"] < len(tys) else ""
            args_ = ts_[ts_.index("<") + 1:ts_.rindex(">")].split(",") if "<" in ts_ and ts_.endswith(">") else [""]
            if not all(x.strip().startswith("'") for x in args_):
                continue
        vs = []
        for v in a["variants"]:
            vs.append("%d:%s" % (len(v["fields"]), ",".join(tys[f["ty"]]["s"] for f in v["fields"])))
        # the type's own path inside its field types (recursive types) is masked
        sig = "%s|%s|copy=%s" % (a["kind"], ";".join(vs).replace(a["path"], "Self"), a.get("copy"))
        for x, y in (("hmac::digest::", "digest::"), ("sha1::digest::", "digest::"), ("md5::digest::", "digest::")):
            sig = sig.replace(x, y)
        out[a["path"]] = sig
    return out


_ANCHORS = None


def rename_aliases(d):
    """{new path: old path} for private functions that were renamed or moved: a path of the pinned
    tree that no longer exists, and exactly one new path with the same signature (and vice versa)"""
    global _ANCHORS
    if _ANCHORS is None:
        try:
            _ANCHORS = json.load(open(os.path.join(os.path.dirname(os.path.abspath(__file__)), "anchors.json")))
        except Exception:
            _ANCHORS = {}
    if not _ANCHORS:
        return {}
    fn_anchors = _ANCHORS.get("functions", _ANCHORS)
    cur = signature_table(d)
    all_paths = {b["path"] for b in d["bodies"]}
    feats = set(d.get("features", []))
    missing = {p: s for p, s in fn_anchors.items() if p not in all_paths and "pub=True" not in s}
    fresh = {p: s for p, s in cur.items() if p not in fn_anchors and "pub=True" not in s}
    out = {}
    for old, sig in missing.items():
        cands = [p for p, s2 in fresh.items() if s2 == sig]
        rivals = [p for p, s2 in missing.items() if s2 == sig]
        if len(cands) == 1 and len(rivals) == 1:
            # a function that is absent only because its cargo feature is off is not "renamed":
            # require that some sibling of the old path (same module) still exists
            mod = old.rsplit("::", 1)[0].split("::")[0].lstrip("<")
            if any(p.lstrip("<").startswith(mod) for p in all_paths):
                out[cands[0]] = old
    # an inherent associated function `X::m` of the pinned tree that is now the provided method
    # `m` of a crate-local trait implemented for X (`Trait::m::<X>`: the driver's instance of it
    # for Self = X): the same function under the name the rules know
    local_mods = {p.split("::")[0] for p in all_paths if not p.startswith("<")}
    for b in d["bodies"]:
        inst = b.get("instance_of")
        pth = b["path"]
        if not inst or not pth.startswith(inst + "::<") or not pth.endswith(">") or "::promoted" in pth:
            continue
        targ = pth[len(inst) + 3:-1]
        if "," in targ or "<" in targ:
            continue
        m = inst.rsplit("::", 1)[-1]
        old = "%s::%s" % (targ, m)
        if old in fn_anchors and old not in all_paths and inst.split("::")[0] in local_mods and inst not in fn_anchors and pth not in out:
            out[pth] = old
    return out


def adt_aliases(d):
    """{new ADT path: old ADT path} for crate-private types that were renamed or moved"""
    rename_aliases(d)       # loads the table
    anchors = (_ANCHORS or {}).get("adts", {})
    if not anchors:
        return {}
    cur = adt_signature_table(d)
    have = {a["path"] for a in d["adts"]}
    missing = {p: s for p, s in anchors.items() if p not in have}
    fresh = {p: s for p, s in cur.items() if p not in anchors}
    out = {}
    for old, sig in missing.items():
        cands = [p for p, s2 in fresh.items() if s2 == sig]
        rivals = [p for p, s2 in missing.items() if s2 == sig]
        mod = old.split("::")[0]
        if len(cands) == 1 and len(rivals) == 1 and any(p.split("::")[0] == mod for p in have):
            out[cands[0]] = old
            continue
        # moved under its own name and given more derives on the way (`Copy` is part of the
        # signature): the same name with the same fields is the same type
        last = old.rsplit("::", 1)[-1]
        shape = sig.rsplit("|copy=", 1)[0]
        c2 = [p for p, s2 in fresh.items() if p.rsplit("::", 1)[-1] == last and s2.rsplit("|copy=", 1)[0] == shape]
        if len(c2) == 1 and c2[0] not in out:
            out[c2[0]] = old
    # a public type moved into another (private) module and re-exported at its old path: same
    # name, same fields, old definition path gone
    pub_anchors = (_ANCHORS or {}).get("adts_pub", {})
    cur_pub = adt_signature_table(d, public=True)
    for old, sig in pub_anchors.items():
        if old in have:
            continue
        last = old.rsplit("::", 1)[-1]
        cands = [p for p, s2 in cur_pub.items() if s2 == sig and p not in pub_anchors and p.rsplit("::", 1)[-1] == last and p.split("::")[0] == old.split("::")[0]]
        if len(cands) == 1:
            out[cands[0]] = old
    return out


def _delegations(d, known, fresh_only=True):
    """[(F, G)]: F is a function of the pinned tree whose whole body is `G(its own parameters, in
    order)` - the result handed back as it is (or re-borrowed) - and G is a crate-private
    function the pinned tree does not have, with the same parameter and result types."""
    if not known and fresh_only:
        return []
    by_path = {}
    for b in d["bodies"]:
        by_path.setdefault(b["path"], []).append(b)
    out = []
    for b in d["bodies"]:
        F = b["path"]
        # (an impl of a trait is named by the trait and its type: it cannot be a fresh helper)
        if fresh_only and not (F in known or b.get("impl_trait")):
            continue
        if b.get("def_kind") not in ("Fn", "AssocFn") or b.get("derived") or "body" not in b or "instance_of" in b:
            continue
        body = b["body"]
        blocks = [x for x in body["blocks"] if not x.get("cleanup")]
        if len(blocks) != 2 or len(body["blocks"]) != 2:
            continue
        b0, b1 = body["blocks"]
        t0, t1 = b0["term"], b1["term"]
        if t0.get("k") != "call" or t1.get("k") != "return" or t0.get("target") != 1:
            continue
        G = t0.get("resolved")
        if not G or not t0.get("resolved_local") or G == F or len(by_path.get(G, [])) != 1:
            continue
        if fresh_only and (G != t0.get("callee") or G in known):
            continue
        g = by_path[G][0]
        if g.get("def_kind") not in ("Fn", "AssocFn") or g.get("derived") or "instance_of" in g:
            continue
        if fresh_only and (g.get("impl_trait") or (g.get("pub") and g.get("reachable")) or g.get("generics") and b.get("generics") != g.get("generics")):
            continue
        tys = d["types"]
        if [tys[i]["s"] for i in g.get("inputs", [])] != [tys[i]["s"] for i in b.get("inputs", [])] or tys[g["output"]]["s"] != tys[b["output"]]["s"]:
            continue
        n = body["arg_count"]
        if len(t0["args"]) != n:
            continue
        # what each temporary of block 0 holds: a parameter itself or a re-borrow of its pointee
        holds = {}
        ok = True
        for st in b0["stmts"]:
            if st.get("k") != "assign" or st["place"]["p"]:
                ok = False
                break
            rv = st["rv"]
            if rv["k"] == "use" and rv["op"]["k"] in ("copy", "move") and not rv["op"]["place"]["p"]:
                src = rv["op"]["place"]["l"]
            elif rv["k"] == "ref" and rv["place"]["p"] == ["*"]:
                src = rv["place"]["l"]
            else:
                ok = False
                break
            src = holds.get(src, src)
            if not (1 <= src <= n):
                ok = False
                break
            holds[st["place"]["l"]] = src
        if not ok:
            continue
        got = []
        for a in t0["args"]:
            if a["k"] not in ("copy", "move") or a["place"]["p"]:
                got = None
                break
            l = a["place"]["l"]
            got.append(holds.get(l, l))
        if got != list(range(1, n + 1)):
            continue
        # block 1: the result is returned as it is / re-borrowed
        dest = t0["dest"]
        if dest["p"]:
            continue
        res = {dest["l"]}
        ok = True
        for st in b1["stmts"]:
            if st.get("k") != "assign" or st["place"]["p"]:
                ok = False
                break
            rv = st["rv"]
            if rv["k"] == "use" and rv["op"]["k"] in ("copy", "move") and not rv["op"]["place"]["p"] and rv["op"]["place"]["l"] in res:
                res.add(st["place"]["l"])
            elif rv["k"] == "ref" and rv["place"]["p"] == ["*"] and rv["place"]["l"] in res:
                res.add(st["place"]["l"])
            else:
                ok = False
                break
        if not ok or 0 not in res:
            continue
        out.append((F, G))
    # one known function per fresh one
    gs = [g_ for _, g_ in out]
    return [(f_, g_) for f_, g_ in out if gs.count(g_) == 1]


class FactBase:
    def __init__(self, path, presentation=None):
        """presentation: how helpers that did not exist on the pinned tree are shown to the
        rules - "spliced" (default: loop-free ones spliced into their callers), "loops" (those
        with loops as well), "written" (the program as written).  All three are the same
        program; see framework.PRESENTATIONS."""
        if presentation is None:
            presentation = "written" if os.environ.get("WOWSRP_NO_SPLICE") else ("loops" if os.environ.get("WOWSRP_SPLICE_LOOPS") else "spliced")
        self.presentation = presentation
        with open(path) as f:
            raw = f.read()
        # rustc prints re-exported items through whichever dependency makes them visible in the
        # feature configuration at hand (`sha1::digest::..` / `hmac::digest::..`); canonicalise
        for a, b in (("hmac::digest::", "digest::"), ("sha1::digest::", "digest::"), ("md5::digest::", "digest::"), ("sha1::Digest", "digest::Digest"), ("hmac::Mac", "digest::Mac")):
            raw = raw.replace(a, b)
        self.d = json.loads(raw)
        # an inherent impl written in another module than its type (`mod reconnect { impl SrpServer
        # { .. } }`) is printed `server::reconnect::<impl server::SrpServer>::f`: the method is
        # `server::SrpServer::f` wherever the impl block stands
        import re as _re
        local_adts = sorted({a["path"] for a in self.d["adts"]}, key=len, reverse=True)
        if local_adts and "::<impl " in raw:
            pat = _re.compile(r"(?<![A-Za-z0-9_:])(?:[a-z_][a-z0-9_]*::)+<impl (" + "|".join(_re.escape(json.dumps(a)[1:-1]) for a in local_adts) + r")>::")
            raw2 = pat.sub(lambda m: m.group(1) + "::", raw)
            if raw2 != raw:
                raw = raw2
                self.d = json.loads(raw)
        ta = adt_aliases(self.d)
        if ta:
            # a renamed / moved crate-private type: its path is rewritten everywhere (type strings,
            # impl paths, aggregate names) to the path the rules know
            import re
            for new_p, old_p in sorted(ta.items(), key=lambda kv: -len(kv[0])):
                raw = re.sub(re.escape(json.dumps(new_p)[1:-1]) + r"(?![A-Za-z0-9_])", lambda m, o=json.dumps(old_p)[1:-1]: o, raw)
            self.d = json.loads(raw)
        self.type_aliases = ta
        # a trait impl written in another module than its (local) type is printed
        # `module::<impl Trait for Type>::method`: it is `<Type as Trait>::method` wherever it stands
        if "<impl " in raw and " for " in raw:
            local_adts2 = sorted({a["path"] for a in self.d["adts"]}, key=len, reverse=True)
            if local_adts2:
                import re as _re2
                pat2 = _re2.compile(r"(?<![A-Za-z0-9_:<])(?:[a-z_][a-z0-9_]*::)+<impl ([A-Za-z_][A-Za-z0-9_:]*(?:<[^<>]*>)?) for (" + "|".join(_re2.escape(json.dumps(a)[1:-1]) for a in local_adts2) + r")>::")
                raw3 = pat2.sub(lambda m: "<%s as %s>::" % (m.group(2), m.group(1)), raw)
                if raw3 != raw:
                    raw = raw3
                    self.d = json.loads(raw)
        self.aliases = rename_aliases(self.d)
        if self.aliases:
            # a renamed / moved private function is analysed under the path the rules know
            for new_p, old_p in sorted(self.aliases.items(), key=lambda kv: -len(kv[0])):
                for tail in ('"', "::{", "::promoted", "::<"):
                    raw = raw.replace(json.dumps(new_p)[1:-1] + tail, json.dumps(old_p)[1:-1] + tail)
            self.d = json.loads(raw)
        # known functions that are nothing but another known function under a second name
        # (`fn randomized() -> Self { Self::default() }`): {callee: the name that delegates to it}
        self.named_as = {}
        if self.presentation != "written":
            for F_, G_ in _delegations(self.d, set(), fresh_only=False):
                fb_ = [b_ for b_ in self.d["bodies"] if b_["path"] == F_]
                if fb_ and not fb_[0].get("impl_trait") and G_.startswith("<") and " as std::default::Default>::default" in G_:
                    self.named_as[G_] = F_
        self.delegations = []
        if self.presentation != "written":
            # a function the rules know that now only hands its arguments to a fresh private
            # function (`impl AsRef<str> { fn as_ref(&self) -> &str { self.as_str() } }` with the
            # old body moved to `as_str`): the two swap names - the code is analysed under the
            # known path, and the fresh name is the one that delegates (a helper like any other)
            for F, G in _delegations(self.d, set((_ANCHORS or {}).get("functions", {}))):
                jF, jG = json.dumps(F)[1:-1], json.dumps(G)[1:-1]
                tmp = "\u0001swap\u0001"
                for tail in ('"', "::{", "::promoted", "::<"):
                    raw = raw.replace(jG + tail, tmp + tail)
                for tail in ('"', "::{", "::promoted", "::<"):
                    raw = raw.replace(jF + tail, jG + tail)
                for tail in ('"', "::{", "::promoted", "::<"):
                    raw = raw.replace(tmp + tail, jF + tail)
                self.d = json.loads(raw)
                # the items keep their own signatures' metadata (visibility, trait, attributes)
                bf = [b for b in self.d["bodies"] if b["path"] == F]
                bg = [b for b in self.d["bodies"] if b["path"] == G]
                if len(bf) == 1 and len(bg) == 1:
                    mf = {k: v for k, v in bf[0].items() if k not in ("path", "body")}
                    mg = {k: v for k, v in bg[0].items() if k not in ("path", "body")}
                    for b_, m_ in ((bf[0], mg), (bg[0], mf)):
                        for k in [k for k in b_ if k not in ("path", "body")]:
                            del b_[k]
                        b_.update(m_)
                    raw = json.dumps(self.d)
                    self.delegations.append((F, G))
        self.path = path
        self.features = self.d["features"]
        self._types = self.d["types"]
        self._tycache = {}
        self.bodies = {}
        for b in self.d["bodies"]:
            bo = Body(self, b)
            # paths are unique except for generic impl duplicates; keep the first, warn on dup
            if bo.path in self.bodies:
                k = 2
                while "%s#%d" % (bo.path, k) in self.bodies:
                    k += 1
                bo.path = "%s#%d" % (bo.path, k)
            self.bodies[bo.path] = bo
        self.adts = {a["path"]: a for a in self.d["adts"]}
        self.consts = {c["path"]: c for c in self.d["consts"]}
        self.impls = self.d["impls"]
        self.flatten = {}
        if self.presentation != "written":
            self.flatten = self._compute_flatten()
        self.spliced = []
        self._absorbed = None
        self.fresh_paths = set()
        self.fresh_loopy = set()
        self.unzipped = set()
        if self.presentation != "written":
            self.unzip_user_iterators()
            self.desugar_combinators()
            self.splice_fresh_helpers()

    def ty(self, ix):
        t = self._tycache.get(ix)
        if t is None:
            t = Ty(ix, self._types[ix], self)
            self._tycache[ix] = t
        return t

    def body(self, path):
        b = self.bodies.get(path)
        if b is None:
            b = getattr(self, "_variants", {}).get(path)
        return b

    COMBINATORS = ("core::bool::<impl bool>::then_some", "std::option::Option::<T>::ok_or")

    def desugar_combinators(self):
        """see _synthetic_combinator"""
        self.desugared = []
        for p in list(self.bodies):
            for rnd in range(12):
                b = self.bodies[p]
                if b.kind == "Promoted":
                    break
                hit = None
                # consumers first (`ok_or` before the `then_some` that feeds it): the producer's
                # variants are then correlated with the consumer's test when it is spliced
                for want in reversed(self.COMBINATORS):
                    for bi, t in b.calls():
                        if t.get("resolved") == want:
                            syn = _synthetic_combinator(self, b.d, t)
                            if syn is not None:
                                hit = (bi, syn)
                                break
                    if hit is not None:
                        break
                if hit is None:
                    break
                nd = _splice(b.d, hit[0], hit[1], self.adts)
                nb = Body(self, nd)
                nb.path = p
                self.bodies[p] = nb
                self.desugared.append((p, hit[1]["path"]))

    def unzip_user_iterators(self):
        """see _unzip: loops over `a.zip(user_iterator)` shown as the two `next` calls std makes"""
        for p in list(self.bodies):
            for rnd in range(4):
                b = self.bodies[p]
                if b.kind == "Promoted":
                    break
                hit = None
                for bi, t in b.calls():
                    if t.get("callee") == "std::iter::Iterator::zip" and t.get("target") is not None:
                        r = _unzip(self, b.d, bi)
                        if r is not None:
                            hit = r
                            break
                if hit is None:
                    break
                nb = Body(self, hit[0])
                nb.path = p
                self.bodies[p] = nb
                self.unzipped.add(hit[1])

    # ------------------------------------------------------------------ helper splicing
    def splice_fresh_helpers(self):
        """A loop-free crate-private function that did not exist on the pinned tree (by the
        signature table; not a renamed one) is a helper some refactoring extracted.  Its body is
        spliced into its callers' control-flow graphs, so that every rule - term-based or
        CFG-based - sees the caller as it was before the extraction.  The helper's own body
        stays in the fact base (C14 checks it on its own as well)."""
        known = set((_ANCHORS or {}).get("functions", {}))
        if not known:
            return []
        import cfg as _cfg

        def is_fresh(b):
            if b.kind not in ("Fn", "AssocFn") or b.path in known or b.d.get("instance_of") in known:
                return False
            if b.d.get("impl_trait") and not self.fresh_trait(b.d["impl_trait"]) and b.path not in self.unzipped:
                return False            # an impl of std's / a dependency's / a pinned-tree trait
                                        # (a fresh iterator's `next` is called directly after _unzip)
            if (b.reachable() and b.is_pub() and not b.d.get("impl_trait")) or "variant_of" in b.d:
                return False
            if len(b.blocks) > 80:
                return False
            if _cfg.back_edges(b):
                self.fresh_loopy.add(b.path)
                if self.presentation != "loops":
                    return False
            # polymorphic bodies of const-generic functions are analysed through their instances
            if b.d.get("generics") and any(self.ty(l["ty"]).s.count("; ") and "[u8; " not in self.ty(l["ty"]).s and False for l in b.locals):
                return False
            return True

        fresh = {p for p, b in self.bodies.items() if is_fresh(b)}
        self.fresh_paths = set(fresh)
        done = []
        for rnd in range(3):
            changed = False
            for p in list(self.bodies):
                b = self.bodies[p]
                if b.kind == "Promoted":
                    continue
                for bi, t in list(b.calls()):
                    r = t.get("resolved")
                    if r in fresh and r != p and t.get("target") is not None and r in self.bodies:
                        nd = _splice(b.d, bi, self.bodies[r].d, self.adts)
                        nb = Body(self, nd)
                        nb.path = p
                        self.bodies[p] = nb
                        b = nb
                        changed = True
                        done.append((p, r))
            if not changed:
                break
        self.spliced = done
        self._absorbed = None
        return done

    def fresh_trait(self, tpath):
        """a trait defined in this crate that did not exist on the pinned tree (which defines
        none): its impls and provided methods are helpers like any other extracted function"""
        if not tpath:
            return False
        mods = getattr(self, "_local_mods", None)
        if mods is None:
            mods = {p_.split("::")[0] for p_ in self.bodies if not p_.startswith("<")}
            self._local_mods = mods
        known = set((_ANCHORS or {}).get("traits", []))
        return tpath.split("::")[0] in mods and tpath not in known

    def absorbed(self):
        """fresh helpers that no longer exist as functions of their own for the rules: every call
        was spliced into the caller and the function is never used as a value (`map(helper)`), so
        whatever the helper does is done - and judged - in each caller's graph"""
        if getattr(self, "_absorbed", None) is not None:
            return self._absorbed
        used = set()

        def scan(x):
            if isinstance(x, dict):
                if x.get("k") == "const" and x.get("fn"):
                    used.add(x["fn"])
                if x.get("k") == "call":
                    for key in ("resolved", "resolved_generic", "callee"):
                        if x.get(key):
                            used.add(x[key])
                for v in x.values():
                    scan(v)
            elif isinstance(x, list):
                for v in x:
                    scan(v)

        for pth, b in self.bodies.items():
            if pth in self.fresh_paths:
                continue
            scan(b.d.get("body"))
        self._absorbed = {pth for pth in self.fresh_paths if pth not in used and not any(u.startswith(pth + "::<") for u in used)}
        return self._absorbed

    def pruned(self, path, tag, keep):
        """a variant of body `path` in which each switch block in `keep` ({block: successor})
        goes to that successor only: the function restricted to one arm of a decision.  The
        variant is looked up by fb.body(name) but is not part of fb.bodies (censuses)."""
        name = "%s#%s" % (path, tag)
        vs = self.__dict__.setdefault("_variants", {})
        if name in vs:
            return name
        b = self.bodies.get(path)
        if b is None:
            return None
        d = dict(b.d)
        d["path"] = name
        d["variant_of"] = path
        body = dict(d["body"])
        blocks = list(body["blocks"])
        for bb, tgt in keep.items():
            blk = dict(blocks[bb])
            t = blk["term"]
            if t["k"] != "switch" or tgt not in [x[1] for x in t["targets"]] + [t["otherwise"]]:
                return None
            blk["term"] = {"k": "goto", "target": tgt, "span": t["span"], "pruned_switch": t}
            blocks[bb] = blk
        body["blocks"] = blocks
        d["body"] = body
        vs[name] = Body(self, d)
        return name

    def const_item(self, path):
        """the constant at `path`; when it is gone, the one constant of the same name that now
        lives in a sub-module of the same top-level module (moved behind a re-export)"""
        c = self.consts.get(path)
        if c is None:
            top, last = path.split("::")[0], path.rsplit("::", 1)[-1]
            cands = [v for k, v in self.consts.items() if k.split("::")[0] == top and k.rsplit("::", 1)[-1] == last and k.startswith(path.rsplit("::", 1)[0] + "::")]
            c = cands[0] if len(cands) == 1 else None
        return c

    def const_bytes(self, path):
        c = self.const_item(path)
        if c is None:
            return None
        v = c.get("val") or {}
        if "bytes" in v:
            return bytes(v["bytes"])
        return None

    def const_int(self, path):
        c = self.const_item(path)
        if c is None:
            return None
        v = c.get("val") or {}
        if "int" in v:
            return int(v["int"])
        return None

    def closures_of(self, path):
        return [b for b in self.bodies.values() if b.kind == "Closure" and b.d.get("parent") == path]

    def promoteds_of(self, path):
        return [b for b in self.bodies.values() if b.kind == "Promoted" and b.d.get("parent") == path]

    def adt_fields(self, path, variant=0):
        a = self.adts.get(path)
        if not a:
            return None
        inner = self.flatten.get(path) if variant == 0 else None
        if inner is not None:
            return self.adts[inner]["variants"][0]["fields"]
        return a["variants"][variant]["fields"]

    def _compute_flatten(self):
        """A type of the pinned tree whose fields were moved, as they are, into one private struct
        it now holds as its only field (`Half { state: CipherState { key, index, previous } }`):
        the rules see the fields where they were (outer.i = outer.0.i).  {outer: inner}"""
        out = {}
        anchors = dict((_ANCHORS or {}).get("adts", {}))
        anchors.update((_ANCHORS or {}).get("adts_pub", {}))
        known = set(anchors)
        for path, a in self.adts.items():
            sig = anchors.get(path)
            if sig is None or a.get("kind") != "Struct" or len(a["variants"]) != 1:
                continue
            fs = a["variants"][0]["fields"]
            if len(fs) != 1:
                continue
            it = self._types[fs[0]["ty"]]
            ip = it.get("path")
            if it.get("k") != "adt" or not it.get("local") or ip in known or ip not in self.adts or it.get("args"):
                continue
            ia = self.adts[ip]
            if ia.get("kind") != "Struct" or len(ia["variants"]) != 1:
                continue
            shape = "%d:%s" % (len(ia["variants"][0]["fields"]), ",".join(self._types[f["ty"]]["s"] for f in ia["variants"][0]["fields"]))
            parts = sig.split("|")
            if len(parts) >= 2 and parts[0] == "Struct" and parts[1] == shape and len(ia["variants"][0]["fields"]) > 1:
                out[path] = ip
        return out

    def derived_traits(self, adt_path):
        out = set()
        for im in self.impls:
            if im.get("derived") and self.ty(im["self_ty"]).path == adt_path and "trait" in im:
                out.add(im["trait"])
        return out
