#!/bin/sh
# Build the fact extractor offline and warm the dependency cache of the analysis target dir.
set -e
cd "$(dirname "$0")"
export CARGO_NET_OFFLINE=true
(cd driver && cargo build --offline 2>&1 | tail -3)
python3 analysis/extract.py >/dev/null 2>&1 || python3 analysis/extract.py
echo "setup ok"
