#!/bin/sh
# usage: tools/eval_r4.sh <index 00..17>: evaluate the two round-4 changes of worktree X_<index>
cd "$(dirname "$0")/.."
set -- $1
PAIRS="r3a-2:C03 r3a-7:C13 r3b-8:C12 r3c-5:C10 r3d-5:C18 r3d-3:C16 r3c-2:C09 r2a-5:C02 r2c-6:C08 r2d-5:C10 r3b-2:C08 r3a-4:C04 r2c-7:C11 r3a-6:C05 r3b-1:C07 r2c-1:C06 r3d-6:C18 r3b-7:C11"
i=0
for pr in $PAIRS; do
  idx=$(printf "%02d" $i)
  if [ "$idx" = "$1" ]; then
    r=${pr%%:*}; p=${pr##*:}; tag=$(echo $r | tr -d '-')
    for x in a b; do
      tools/seed_eval.py $p --src /tmp/wt/X_$idx/_out/change_$x --name $p-${tag}$x --base refactors/$r/patch.diff 2>&1 | grep -E "confirmed|own-property|incomplete"
    done
  fi
  i=$((i+1))
done
