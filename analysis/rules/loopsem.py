"""Lock-step iterator semantics (A6): what a `for` loop over an iterator chain does at
iteration i, independent of how the chain is spelled.

item_at(..) maps the iterator term handed to `into_iter` to the structure of its i-th item:
    ("val", base, (a, b))          the value base[a*i + b]           (iter, copied, step_by, skip ...)
    ("loc", base_loc, (a, b))      the place base[a*i + b]           (iter_mut, chunks_exact_mut elements)
    ("cnt", (a, b))                the number a*i + b                (enumerate counter, ranges)
    ("chunk", kind, base, (a, b), k)   the k elements base[a*i + b ..][..k]   (chunks_exact[_mut])
    ("tup", (item, item ...))      a tuple of items                  (enumerate, zip)
together with the number of items as a function of the unknown lengths (`count`), so that
`S.iter().step_by(2).enumerate()`, `S.chunks_exact(2)` and `E.iter_mut().zip(..).zip(S.chunks_exact(2))`
all yield the same statements `E[i] := S[2i]`.

statements(..) lists the stores of a loop body as (dest base location, (a, b), value) where the
value has every projection of the loop item replaced by ("at", base, (a, b)) / ("cnt", (a, b)).
"""
import cfg
from rules import util
from rules.util import strip
from symex import walk

ADAPT_SAME = ("copied", "cloned", "by_ref", "into_iter", "peekable", "fuse")


def aff_add(A, B):
    return (A[0] + B[0], A[1] + B[1])


def aff_scale(A, k):
    return (A[0] * k, A[1] * k)


def compose(inner, A):
    """index `inner` evaluated at position A: inner = (a, b) means position a*j + b of the source
    at the adaptor's j-th item; with j = A[0]*i + A[1]"""
    return (inner[0] * A[0], inner[0] * A[1] + inner[1])


def const_usize(t):
    t = util.numnorm(strip(t))
    while t[0] == "cast":
        t = t[2]
    if util.is_call(t) and "From<u" in t[1] and t[1].endswith("::from") and len(t[2]) == 1:
        return const_usize(t[2][0])
    return t[1] if t[0] == "int" else None


class Sem:
    def __init__(self, ctx, se, lens):
        """lens: callable base term -> python function n -> int | None, giving the length of a
        base as a function of the one unknown length n (or a constant)"""
        self.ctx, self.se, self.lens = ctx, se, lens

    # ------------------------------------------------------------------ iterators
    def item_at(self, it, A=(1, 0)):
        """(item structure at position A, count function n -> number of items) or None"""
        raw = it
        it = strip(it)
        if it[0] == "agg" and it[2] == "std::ops::Range":
            lo, hi = const_usize(it[4][0]), const_usize(it[4][1])
            if lo is None or hi is None:
                return None
            return ("cnt", aff_add(A, (0, lo))), (lambda n, c=max(0, hi - lo): c)
        if util.is_call(it) and it[1].endswith("RangeInclusive::<Idx>::new") and len(it[2]) == 2:
            lo, hi = const_usize(it[2][0]), const_usize(it[2][1])
            if lo is None or hi is None:
                return None
            return ("cnt", aff_add(A, (0, lo))), (lambda n, c=max(0, hi - lo + 1): c)
        if not util.is_call(it):
            # a slice / array reference iterated directly (`for x in data`)
            ln = self.lens(it)
            if ln is None:
                return None
            return ("val", it, A), ln
        name = it[1].split("::")[-1]
        args = it[2]
        if name in ("iter", "iter_mut") and ("slice" in it[1] or "array" in it[1] or "Vec" in it[1] or "GenericArray" in it[1]):
            base = self.base_of(it, name == "iter_mut")
            if base is None:
                return None
            ln = self.lens(base[1])
            if ln is None:
                return None
            return (base[0], base[1], A), ln
        if name in ("chunks_exact", "chunks_exact_mut") and "slice" in it[1]:
            k = const_usize(args[1])
            base = self.base_of(it, name.endswith("_mut"))
            if k is None or k <= 0 or base is None:
                return None
            ln = self.lens(base[1])
            if ln is None:
                return None
            return ("chunk", base[0], base[1], aff_scale(A, k), k), (lambda n, f=ln, k=k: f(n) // k)
        if name in ADAPT_SAME and len(args) == 1:
            return self.item_at(args[0], A)
        if name == "enumerate":
            r = self.item_at(args[0], A)
            if r is None:
                return None
            return ("tup", (("cnt", A), r[0])), r[1]
        if name == "zip":
            ra, rb = self.item_at(args[0], A), self.item_at(args[1], A)
            if ra is None or rb is None:
                return None
            return ("tup", (ra[0], rb[0])), (lambda n, f=ra[1], g=rb[1]: min(f(n), g(n)))
        if name == "step_by":
            k = const_usize(args[1])
            if k is None or k <= 0:
                return None
            r = self.item_at(args[0], compose((k, 0), A))
            if r is None:
                return None
            return r[0], (lambda n, f=r[1], k=k: (f(n) + k - 1) // k)
        if name == "rev" and len(args) == 1:
            # a reversed constant range: item j is (last - j)
            r = self.item_at(args[0], (1, 0))
            if r is None or r[0][0] != "cnt" or r[0][1][0] != 1:
                return None
            c = r[1](0)
            last = r[0][1][1] + c - 1
            return ("cnt", (-A[0], last - A[1])), r[1]
        if name == "skip":
            k = const_usize(args[1])
            if k is None or k < 0:
                return None
            r = self.item_at(args[0], aff_add(A, (0, k)))
            if r is None:
                return None
            return r[0], (lambda n, f=r[1], k=k: max(0, f(n) - k))
        if name == "take":
            k = const_usize(args[1])
            r = self.item_at(args[0], A)
            if k is None or r is None:
                return None
            return r[0], (lambda n, f=r[1], k=k: min(f(n), k))
        return None

    def base_of(self, call, mutable):
        """("val"|"loc", base) of the slice an iterator constructor was applied to"""
        a0 = call[2][0]
        if strip(a0)[0] == "mutref" or mutable:
            info = self.se.term_info.get(call[3][1], {})
            la = (info.get("locargs") or (("?",),))[0]
            if la[0] == "ref":
                return ("loc" if mutable else "val", la[1] if mutable else strip(self.se.call_old.get((call[3][:2], 0), a0)))
            return None
        return ("val", strip(a0))

    def count_of(self, it):
        r = self.item_at(it)
        return r[1] if r else None

    # ------------------------------------------------------------------ loop bodies
    def resolve(self, t, elem, item):
        """t is a term built from projections of the loop item `elem`; returns an item structure
        or None when t does not denote (a part of) the item"""
        if t == elem:
            return item
        k = t[0]
        if k in ("deref", "ref", "refv"):
            return self.resolve(t[1], elem, item)
        if k == "field":
            inner = self.resolve(t[1], elem, item)
            if inner is not None and inner[0] == "tup" and isinstance(t[2], int) and t[2] < len(inner[1]):
                return inner[1][t[2]]
            return None
        if k in ("index", "cindex"):
            inner = self.resolve(t[1], elem, item)
            if inner is None or inner[0] != "chunk":
                return None
            if k == "cindex":
                j = (0, t[2]) if not t[3] else None
            else:
                j = self.affine(t[2], elem, item)
            if j is None or j[0] != 0 or not (0 <= j[1] < inner[4]):
                return None
            return (inner[1], inner[2], aff_add(inner[3], j))
        return None

    def affine(self, t, elem, item):
        """(a, b) with t = a*i + b, for index expressions over the loop counter"""
        t = util.strip_int_conversions(t)       # `i as usize`, `usize::from(i)`, `usize::try_from(i).unwrap()`
        if t[0] == "int":
            return (0, t[1])
        if t[0] == "cast":
            return self.affine(t[2], elem, item)
        r = self.resolve(t, strip(elem), item)
        if r is not None and r[0] == "cnt":
            return r[1]
        if t[0] == "field" and t[2] == 0 and t[1][0] == "binop" and t[1][1].endswith("WithOverflow"):
            t = ("binop", t[1][1].replace("WithOverflow", ""), t[1][2], t[1][3])
        if t[0] == "binop":
            a, b = self.affine(t[2], elem, item), self.affine(t[3], elem, item)
            if a is None or b is None:
                return None
            if t[1] in ("Add", "AddUnchecked"):
                return aff_add(a, b)
            if t[1] in ("Mul", "MulUnchecked"):
                if a[0] == 0:
                    return aff_scale(b, a[1])
                if b[0] == 0:
                    return aff_scale(a, b[1])
        return None

    def statements(self, lp):
        """[(dest base location, (a, b), value)] for the stores in the body of the for-loop lp;
        value = ("at", base, (a, b)) | ("cnt", (a, b)) | the stripped term otherwise.
        None when the iterator chain is not understood."""
        if lp["init_call"] is None:
            return None
        if not lp.get("only_exit", True):
            return None         # a loop that can be left early does not make all its statements
        r = self.item_at(lp["init_call"][2][0])
        if r is None:
            return None
        item, count = r
        elem = lp["elem"]
        selem = strip(elem)
        body = self.se.body
        be = [e for e in cfg.back_edges(body)]
        blocks = set()
        for e in be:
            lpb = cfg.natural_loop(body, e)
            if lp["next_bb"] in lpb:
                blocks |= lpb
        out = []
        idom = cfg.dominators(body)
        my_back = [e for e in be if e[1] == lp["next_bb"]]
        for (bi, si), (loc, v) in sorted(self.se.assigns.items()):
            if bi not in blocks:
                continue
            if loc[0] != "local" and not all(cfg.dominates(idom, bi, t_) for t_, h_ in my_back):
                # a store that some iterations skip (`if c { continue }` in front of it, a store under
                # a condition): the loop does not make this statement at every position
                out.append((None, None, strip(v)))
                continue
            dest = None
            if loc[0] in ("index", "cindex") and not any(x == elem or x == selem for x in walk(loc[1])):
                A = (0, loc[2]) if loc[0] == "cindex" and not loc[3] else (self.affine(loc[2], elem, item) if loc[0] == "index" else None)
                if A is not None:
                    dest = (loc[1], A)
            if dest is None and any(x == elem or x == selem for x in walk(loc)):
                d = self.resolve(loc, elem, item) or self.resolve(strip(loc), selem, item)
                if d is not None and d[0] == "loc":
                    dest = (d[1], d[2])
            if dest is None:
                # a store into a loop-local temporary is not a statement; a store through the
                # item (or into an indexed place) that could not be resolved makes the loop opaque
                if loc[0] == "local" and not any(x == elem or x == selem for x in walk(loc)):
                    continue
                out.append((None, None, strip(v)))
                continue
            sv = strip(v)
            if sv[0] == "cast" and sv[1] == "IntToInt":
                inner = self.resolve(sv[2], selem, item)
                if inner is not None and inner[0] == "cnt":
                    out.append((dest[0], dest[1], ("cnt", inner[1], sv[3])))
                    continue
            val = self.resolve(v, elem, item) or self.resolve(sv, selem, item)
            if val is not None and val[0] in ("val", "loc"):
                val = ("at", strip(val[1]) if val[0] == "val" else val[1], val[2])
            elif val is None:
                val = sv
            out.append((dest[0], dest[1], val))
        return out, count
