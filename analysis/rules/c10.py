"""C10 - Wrath server headers of both lengths round-trip and keep the stream in step.

Decides (A7 byte terms + interval/bit facts on the extracted threshold):
encoder - the branch constant makes `size <= 0x7FFF` the 4-byte form and everything else the
5-byte form; the emitted bytes are raw([BE(size)2, BE(size)3, LE(op)0, LE(op)1]) resp.
raw([BE(size)1 | 0x80, BE(size)2, BE(size)3, LE(op)0, LE(op)1]), the raw operation is applied once
to exactly those bytes and the returned slice is exactly those bytes in order;
decoder - marker test `b0 & 0x80 != 0`; short form size = BE16(b0,b1), opcode = LE16(b2,b3);
long form stashes the 4 bytes in order, consumes exactly one more keystream byte and returns
size = BE32(0, b0 & 0x7F, b1, b2), opcode = LE16(b3, b4);
round trip - composing the decoder terms with the encoder terms and reducing with the bit
rules ((t|c)&m, from_be(to_be)) gives (size, opcode) for every size in the arm's interval
[0,0x7FFF] resp. [0x8000,0x7FFFFF]; the marker bit the decoder reads is provably 0 in the short
form and 1 in the long form on those intervals (so both ends consume the same number of bytes)."""
import cfg
from rules import util, arith
from rules.arith import S, I
from rules.util import strip
from symex import show, walk

EXPLANATION = __doc__
TRUSTED = ["rustc / extractor", "to_be_bytes/to_le_bytes/from_*_bytes are the byte encodings (core)", "the keystream operation is position preserving and both ends share it (C09)"]
NOT_DECIDED = ["keystream equality of the two ends (C09)"]
FLOORS = {"encoder": 7, "decoder": 4, "roundtrip": 4, "stream-step": 5}
IC = "wrath_header::inner_crypto::InnerCrypto"
ENC = "wrath_header::encrypt::ServerEncrypterHalf"
DEC = "wrath_header::decrypt::ClientDecrypterHalf"
T_SHORT_MAX = 0x7FFF
MAX_SIZE = 0x7FFFFF
MARK = 0x80


def applicable(feats):
    return "wrath-header" in feats


def updates(t):
    """peel ("upd", base, ("ci", k, False), v) chains: returns (base, {k: v}); an array literal
    is the chain that sets every element"""
    m = {}
    if t[0] == "agg" and t[1] == "array":
        return None, {k: v for k, v in enumerate(t[4])}
    while t[0] == "upd" and t[2][0] == "ci" and not t[2][2]:
        m.setdefault(t[2][1], t[3])
        t = t[1]
    return t, m


def field_updates(t):
    m = {}
    while t[0] == "upd" and t[2][0] == "f":
        m.setdefault(t[2][1], t[3])
        t = t[1]
    return t, m


def threshold(d):
    """switch discriminant comparing param 2 with a constant -> (T, long_on_true) meaning
    'long form iff size >= T'"""
    d = strip(d)
    if d[0] != "binop" or d[2] != ("param", 2) or d[3][0] != "int":
        if d[0] == "binop" and d[3] == ("param", 2) and d[2][0] == "int":
            flip = {"Gt": "Lt", "Lt": "Gt", "Ge": "Le", "Le": "Ge"}
            if d[1] in flip:
                return threshold(("binop", flip[d[1]], d[3], d[2]))
        return None
    c = d[3][1]
    op = d[1]
    if op == "Gt":
        return c + 1, True
    if op == "Ge":
        return c, True
    if op == "Lt":
        return c, False
    if op == "Le":
        return c + 1, False
    return None


def bit_const(lo, hi, b):
    """value of bit b if it is the same for every x in [lo, hi], else None"""
    if (lo >> (b + 1)) == (hi >> (b + 1)) and ((lo >> b) & 1) == ((hi >> b) & 1):
        return (lo >> b) & 1
    return None


def byte_form(e, var):
    """normalise a byte expression over big-endian bytes of `var` into
    (k, ormask, andmask) meaning ((BE(var)[k] | ormask) & andmask), or ("const", v)"""
    if e[0] == "int":
        return ("const", e[1])
    if e[0] == "idx" and e[1][0] == "tobe" and e[1][2] == var and e[2][0] == "int":
        return (e[2][1], 0, 0xFF, e[1][1])
    if e[0] == "byte" and e[1] == var and 0 <= e[2] <= 3:
        return (3 - e[2], 0, 0xFF, "u32")
    if e[0] in ("or", "and"):
        xs = list(e[1])
        cs = [x for x in xs if x[0] == "int"]
        rest = [x for x in xs if x[0] != "int"]
        if len(cs) == 1 and len(rest) == 1:
            inner = byte_form(rest[0], var)
            if inner is None or inner[0] == "const":
                return None
            k, o, a, ty = inner
            c = cs[0][1]
            if e[0] == "or":
                return (k, (o | c) & 0xFF, a | c, ty) if a == 0xFF else (k, o | c, a | c, ty)
            return (k, o & c, a & c, ty)
    return None


_STORE = {}


def store_helper(ctx, name):
    """name(self, header: &mut [u8]) -> &[u8] is an "encrypt and keep" helper of the half: it
    applies the raw operation once to the whole `header`, copies the result position by
    position to the front of the output buffer, writes nothing else and returns exactly the
    first header.len() bytes of that buffer.  Returns the buffer field index, else None."""
    key = (id(ctx.fb), name)
    if key in _STORE:
        return _STORE[key]
    _STORE[key] = None
    fb = ctx.fb
    b = fb.body(name)
    if b is None or not name.startswith(ENC + "::") or len(b.d.get("inputs", [])) != 2:
        return None
    se = ctx.flat.run(name)
    if se is None or se.ret is None:
        return None
    from rules import loopsem

    self_root = ("deref", ("param", 1))
    data_root = ("deref", ("param", 2))
    sh = [i for i, f in enumerate(fb.adt_fields(ENC)) if fb.ty(f["ty"]).k == "array"]
    cf = [i for i, f in enumerate(fb.adt_fields(ENC)) if fb.ty(f["ty"]).peel_refs().path == IC]
    if len(sh) != 1:
        return None
    buf = ("field", self_root, sh[0])
    blen = fb.ty(fb.adt_fields(ENC)[sh[0]]["ty"]).len
    calls = [se.term_info[bb] for bb in sorted(se.term_info) if se.term_info[bb].get("k") == "call"]
    raws = [c for c in calls if c["name"] in (ENC + "::encrypt", IC + "::apply")]
    if len(raws) != 1:
        return None
    la = raws[0]["locargs"]
    recv_ok = la[0] == ("ref", self_root, True) if raws[0]["name"] == ENC + "::encrypt" else (len(cf) == 1 and la[0] == ("ref", ("field", self_root, cf[0]), True))
    if not (recv_ok and la[1] == ("ref", data_root, True) and se.call_old.get((raws[0]["site"], 1)) == data_root):
        return None
    enc_data = ("after", raws[0]["term"], 1, data_root)

    def lens(base):
        if strip(base) == strip(enc_data) or strip(base) == ("param", 2):
            return lambda n: n
        if base == buf:
            return lambda n: blen
        return None

    sem = loopsem.Sem(ctx, se, lens)
    loops = util.for_loops(ctx, se)
    if len(loops) != 1 or len(cfg.back_edges(se.body)) != 1:
        return None
    r = sem.statements(loops[0])
    if r is None:
        return None
    stmts, count = r
    want = [(buf, (1, 0), ("at", strip(enc_data), (1, 0)))]
    if [(d, A, v) for d, A, v in stmts] != want or any(count(n) < min(n, blen) for n in range(0, blen + 1)):
        return None
    # the raw operation precedes the copy; no other call touches self or the data
    names = [c["name"].split("::")[-1] for c in calls if c is not raws[0]]
    if any(n_ not in ("iter_mut", "iter", "zip", "into_iter", "next", "len", "index", "enumerate") for n_ in names):
        return None
    # no store to self other than through the loop's destination
    for (bi, si), (loc, v) in se.assigns.items():
        root = loc
        while root[0] in ("field", "index", "cindex", "subslice", "downcast"):
            root = root[1]
        if root in (self_root, data_root):
            return None
    # result = &buffer[..header.len()]
    rv = strip(se.ret)
    ok_ret = False
    if util.is_call(rv) and rv[1].endswith("::index") and strip(rv[2][1])[0] == "agg":
        rg = strip(rv[2][1])
        ia = (se.term_info.get(rv[3][1], {}).get("locargs") or (("?",),))[0]
        end = util.numnorm(rg[4][-1])
        lo_ok = rg[2] == "std::ops::RangeTo" or (rg[2] == "std::ops::Range" and util.numnorm(rg[4][0])[:2] == ("int", 0))
        ok_ret = lo_ok and ia == ("ref", buf, False) and end[0] == "len" and strip(end[1]) in (strip(enc_data), ("param", 2))
    if not ok_ret:
        return None
    _STORE[key] = sh[0]
    return sh[0]


def check(ctx, rep):
    fb = ctx.fb
    # "keep the stream in step" on the read-based path: the client takes exactly the header's
    # bytes from the caller's reader - 4, then 1 more only behind the marker - and nothing else
    # (C11's reader obligations for the Wrath server-header readers, necessary here)
    from rules import c11
    if not isinstance(rep, util.Refile):        # (C11 re-files this module's layout rules: no ping-pong)
        c11.check(ctx, util.Refile(rep, "stream-step", keep_rules={"reader"}, fn_pred=lambda f: "wrath_header" in f and "server_header" in f))
    # ------------------------------------------------------------------ encoder
    fn = ENC + "::encrypt_server_header"
    se = ctx.pure.run(fn)
    if se is None:
        rep.violation("encoder", fn, "anchor", "not found")
        return
    body = se.body
    sws = [(bb, i) for bb, i in se.term_info.items() if i.get("k") == "switch"]
    th = None
    for bb, i in sws:
        r = threshold(i["discr"])
        if r is not None and len(i["targets"]) == 1 and i["targets"][0][0] == 0:
            T, long_on_true = r
            t_true, t_false = i["otherwise"], i["targets"][0][1]
            th = (bb, T, t_true if long_on_true else t_false, t_false if long_on_true else t_true)
    if th is None or len(sws) != 1:
        rep.violation("encoder", fn, "threshold", "no single branch comparing the size parameter with a constant", body.loc())
        return
    sw_bb, T, long_t, short_t = th
    rep.check(T == T_SHORT_MAX + 1, "encoder", fn, "threshold", "long form iff size >= 0x%X" % T, "long form is chosen iff size >= 0x%X; the statement requires 4 bytes iff size <= 0x7FFF" % T, body.loc(sw_bb))
    # per-arm view: the function restricted to one side of the size test (the other successor
    # of the test is pruned), so each arm has its own straight-line final state and result
    self_root = ("deref", ("param", 1))
    arms = {}
    arm_se = {}
    for which, tgt in (("long", long_t), ("short", short_t)):
        vn = fb.pruned(fn, which, {sw_bb: tgt})
        ase = ctx.pure.run(vn) if vn else None
        if ase is None or ase.ret is None:
            rep.violation("encoder", fn, "shape", "cannot evaluate the %s arm on its own" % which, body.loc())
            return
        arms[which] = (ase.ret, ase.param_effects().get(1))
        arm_se[which] = ase
    sh_field = [i for i, f in enumerate(fb.adt_fields(ENC)) if fb.ty(f["ty"]).k == "array"]
    if len(sh_field) != 1:
        rep.violation("encoder", fn, "shape", "ServerEncrypterHalf has no single output buffer field")
        return
    shf = sh_field[0]
    size = ("param", 2)
    op = ("param", 3)

    def be(k):
        return ("byte", size, 3 - k)

    def le(k):
        return ("byte", op, k)

    want_plain = {
        "short": (be(2), be(3), le(0), le(1)),
        "long": (("or", frozenset([be(1), I(MARK)])), be(2), be(3), le(0), le(1)),
    }
    cf = [i for i, f in enumerate(fb.adt_fields(ENC)) if fb.ty(f["ty"]).peel_refs().path == IC]

    def raw_application(ase, E):
        """E = after<raw(receiver, &mut bytes)>(plain): the half's raw operation on its own
        stream - Half::encrypt(self, ..) or InnerCrypto::apply(self.<stream field>, ..)"""
        if not (E[0] == "after" and util.is_call(E[1]) and E[2] == 1):
            return False
        info = ase.term_info.get(E[1][3][1], {})
        la = (info.get("locargs") or (("?",),))[0]
        if E[1][1] == ENC + "::encrypt":
            return la[0] == "ref" and la[1] == self_root
        if E[1][1] == IC + "::apply":
            return len(cf) == 1 and la[0] == "ref" and la[1] == ("field", self_root, cf[0])
        return False

    enc_bytes = {}
    for arm in ("short", "long"):
        retv, st = arms[arm]
        ase = arm_se[arm]
        n = len(want_plain[arm])
        base, fu = field_updates(st) if st is not None else (None, {})
        good = False
        desc = "?"
        raw_ok = False
        whole = fu.get(shf)
        helper_calls = [i for i in ase.term_info.values() if i.get("k") == "call" and i["name"] in fb.bodies and store_helper(ctx, i["name"]) == shf]
        via_helper = None
        if len(helper_calls) == 1 and helper_calls[0]["locargs"][0] == ("ref", self_root, True):
            hc = helper_calls[0]
            old_hdr = ase.call_old.get((hc["site"], 1))
            plain = arith.byte_canon(arith.norm(old_hdr)) if old_hdr is not None else ("?",)
            if plain[0] == "arr" and len(plain[1]) == n and strip(retv) == strip(hc["term"]):
                # the helper encrypts the whole array once, keeps it at the front of the buffer
                # and returns exactly those len(array) bytes
                via_helper = hc
                raw_ok = True
                enc_bytes[arm] = plain[1]
                good = tuple(plain[1]) == want_plain[arm]
                desc = "[%s] (through %s)" % (", ".join(arith.show(x) for x in plain[1]), hc["name"].split("::")[-1])
        if via_helper is not None:
            pass
        elif whole is not None and raw_application(ase, whole) and fb.ty(fb.adt_fields(ENC)[shf]["ty"]).len == n:
            # the encrypted header array is assigned to the output buffer as a whole
            plain = arith.byte_canon(arith.norm(whole[3]))
            raw_ok = True
            if plain[0] == "arr":
                enc_bytes[arm] = plain[1]
                good = tuple(plain[1]) == want_plain[arm]
                desc = "[%s]" % ", ".join(arith.show(x) for x in plain[1])
        elif shf in fu:
            abase, au = updates(fu[shf])
            srcs = set()
            ok_idx = True
            for k in range(n):
                v = au.get(k)
                if v is None or strip(v)[0] not in ("cindex", "index"):
                    ok_idx = False
                    break
                sv = strip(v)
                kk = sv[2] if sv[0] == "cindex" else (sv[2][1] if sv[2][0] == "int" else None)
                if kk != k:
                    ok_idx = False
                srcs.add(sv[1])
            extra = [k for k in au if k >= n]
            if ok_idx and len(srcs) == 1 and not extra:
                E = next(iter(srcs))
                # E = after<half.encrypt(self, &mut header)>(header array)
                if raw_application(ase, E):
                    plain = arith.byte_canon(arith.norm(E[3]))
                    raw_ok = True
                    if plain[0] == "arr":
                        enc_bytes[arm] = plain[1]
                        good = tuple(plain[1]) == want_plain[arm]
                        desc = "[%s]" % ", ".join(arith.show(x) for x in plain[1])
        rep.check(good, "encoder", fn, arm + "-layout", "raw(%s) copied to the output buffer in order" % desc, "%s form does not emit raw(%s): %s" % (arm, [arith.show(x) for x in want_plain[arm]], desc), body.loc())
        rep.check(raw_ok, "encoder", fn, arm + "-raw-once", "one raw operation over exactly the %d header bytes" % n, "%s form: the bytes copied out are not the result of one raw operation over the %d-byte header" % (arm, n), body.loc())
        # returned slice = exactly those n bytes
        rv = retv
        good = False
        if via_helper is not None:
            good = True
        elif rv[0] == "ref" and rv[1] == ("field", self_root, shf) and fb.ty(fb.adt_fields(ENC)[shf]["ty"]).len == n:
            good = True
        else:
            if rv[0] == "ref" and rv[1][0] == "subslice" and rv[1][1] == ("field", self_root, shf) and rv[1][2:] == (0, n, False):
                good = True
            x = strip(rv)
            if not good and util.is_call(x) and x[1].endswith("::index") and x[2][1][0] == "agg" and x[2][1][2] == "std::ops::Range":
                lo, hi = [util.numnorm(y) for y in x[2][1][4]]
                good = lo[:2] == ("int", 0) and hi[:2] == ("int", n)
            elif not good and util.is_call(x) and x[1].endswith("::index") and x[2][1][0] == "agg" and x[2][1][2] == "std::ops::RangeTo":
                good = util.numnorm(x[2][1][4][0])[:2] == ("int", n)         # buf[..n]
            elif not good and util.is_call(x) and x[1].endswith("::index") and x[2][1][0] == "agg" and x[2][1][2] == "std::ops::RangeToInclusive":
                good = util.numnorm(x[2][1][4][0])[:2] == ("int", n - 1)     # buf[..=n-1]
            if good and util.is_call(x) and x[1].endswith("::index"):
                # ... of the output buffer
                def peel_(y):
                    y = strip(y)
                    while y[0] in ("after", "upd", "deref"):
                        y = strip(y[3] if y[0] == "after" else y[1])
                    return y
                b_ = peel_(x[2][0])
                good = b_[0] == "field" and b_[2] == shf and peel_(b_[1]) == ("param", 1)
        rep.check(good, "encoder", fn, arm + "-returned-slice", "returns exactly the %d emitted bytes" % n, "%s form does not return exactly the first %d bytes of the output buffer" % (arm, n), body.loc())
    n_raw = {arm: sum(1 for i in arm_se[arm].term_info.values() if i.get("k") == "call" and (i["name"] in (ENC + "::encrypt", IC + "::apply") or (i["name"] in fb.bodies and store_helper(ctx, i["name"]) is not None))) for arm in arm_se}
    rep.check(all(v == 1 for v in n_raw.values()), "stream-step", fn, "one-raw-per-arm", "each arm applies the raw operation once", "raw operations per arm of the encoder: %s" % n_raw, body.loc())

    # ------------------------------------------------------------------ decoder: attempt
    fa = DEC + "::attempt_decrypt_server_header"
    sa = ctx.pure.run(fa)
    dec_terms = {}
    if sa is None:
        rep.violation("decoder", fa, "anchor", "not found")
    else:
        ab = sa.body
        D = None
        for t in walk(strip(sa.ret)) if sa.ret[0] != "phi" else []:
            pass
        apply_calls = [i for i in sa.term_info.values() if i.get("k") == "call" and i["name"].endswith("InnerCrypto::apply")]
        good_once = len(apply_calls) == 1
        Dterm = None
        if good_once:
            site = apply_calls[0]["site"]
            Dterm = ("after", apply_calls[0]["term"], 1, ("param", 2))
            old = sa.call_old.get((site, 1))
            good_once = old == ("param", 2)
        rep.check(good_once, "stream-step", fa, "four-bytes", "the attempt consumes the keystream for exactly the 4 given bytes, once", "attempt_decrypt_server_header does not apply the keystream exactly once to its 4-byte argument", ab.loc())
        env = {Dterm: "D"} if Dterm else {}
        sw = [(bb, i) for bb, i in sa.term_info.items() if i.get("k") == "switch"]
        mark_ok = False
        large_t = small_t = None
        if len(sw) == 1:
            d = arith.norm(sw[0][1]["discr"], env)
            want = ("Ne", ("and", frozenset([("idx", S("D"), I(0)), I(MARK)])), I(0))
            tg = sw[0][1]["targets"]
            if d == want and len(tg) == 1 and tg[0][0] == 0:
                mark_ok = True
                large_t, small_t = sw[0][1]["otherwise"], tg[0][1]
            elif d == ("Eq", want[1], I(0)) and len(tg) == 1 and tg[0][0] == 0:
                mark_ok = True
                small_t, large_t = sw[0][1]["otherwise"], tg[0][1]
        if not mark_ok and len(sw) == 1 and len(sw[0][1]["targets"]) == 1 and sw[0][1]["targets"][0][0] == 0:
            # another spelling of the same test on the byte (`b0 >= 0x80`, `b0 >> 7 == 1`,
            # `b0 & 0x80 == 0x80` ...): decided over the 256 values of the byte - the test is
            # evaluated as a term for each of them and must hold exactly for 0x80..=0xFF
            ts = util.byte_predicate_true_set(sw[0][1]["discr"], lambda t_: arith.norm(t_, env) == ("idx", S("D"), I(0)))
            tg = sw[0][1]["targets"]
            if ts == set(range(MARK, 256)):
                mark_ok = True
                large_t, small_t = sw[0][1]["otherwise"], tg[0][1]
            elif ts == set(range(0, MARK)):
                mark_ok = True
                small_t, large_t = sw[0][1]["otherwise"], tg[0][1]
        rep.check(mark_ok, "decoder", fa, "marker-test", "long form iff decrypted byte 0 has bit 0x80", "marker test is not `b0 & 0x80 != 0`: %s" % (arith.show(arith.norm(sw[0][1]["discr"], env)) if sw else "no branch"), ab.loc())
        if mark_ok:
            rk = [(bb, key) for (bb, key) in sa.phi_inputs if key == ("local", 0) and bb != "ret"]
            sk = [(bb, key) for (bb, key) in sa.phi_inputs if key == self_root and bb != "ret"]
            ok_small = ok_large = False
            if rk and sk:
                for pred, rv in sa.phi_inputs[rk[0]].items():
                    stv = sa.phi_inputs[sk[0]].get(pred)
                    if cfg.must_pass_edge(ab, (sw[0][0], small_t), pred):
                        r = strip(rv)
                        vs = fb.adts["wrath_header::decrypt::WrathServerAttempt"]["variants"]
                        hi = [k for k, v in enumerate(vs) if v["name"] == "Header"][0]
                        if r[0] == "agg" and r[3] == hi and r[4] and r[4][0][0] == "agg":
                            fields = [f["name"] for f in fb.adt_fields("wrath_header::ServerHeader")]
                            got = {f: arith.bv(v, env) for f, v in zip(fields, r[4][0][4])}
                            d_ = lambda k: ("idx", S("D"), I(k))
                            # byte vectors, least significant first: size = BE16(d0, d1), opcode = LE16(d2, d3)
                            want = {"size": (d_(1), d_(0)), "opcode": (d_(2), d_(3))}
                            ok_small = all(got.get(f) is not None and arith.bv_trim(got[f]) == want[f] for f in want)
                            if ok_small:
                                dec_terms["short"] = {f: arith.bv_trim(got[f]) for f in want}
                            # the small arm stores nothing but the keystream advance
                            b_, fu = field_updates(stv) if stv is not None else (None, {})
                            ok_small = ok_small and len(fu) == 1
                    elif cfg.must_pass_edge(ab, (sw[0][0], large_t), pred):
                        r = strip(rv)
                        vs = fb.adts["wrath_header::decrypt::WrathServerAttempt"]["variants"]
                        mi = [k for k, v in enumerate(vs) if v["name"] == "AdditionalByteRequired"][0]
                        b_, fu = field_updates(stv) if stv is not None else (None, {})
                        stash = [v for k, v in fu.items() if v[0] == "upd"]
                        whole_st = [v for k, v in fu.items() if strip(v) == strip(Dterm)]
                        if r[0] == "agg" and r[3] == mi and len(stash) == 1:
                            base, au = updates(stash[0])
                            ok_large = sorted(au) == [0, 1, 2, 3] and all(arith.norm(au[k], env) == ("idx", S("D"), I(k)) for k in range(4))
                        elif r[0] == "agg" and r[3] == mi and len(whole_st) == 1:
                            ok_large = True  # header = the 4 decrypted bytes, as a whole
            rep.check(ok_small, "decoder", fa, "short-parse", "size = BE16(b0,b1) widened, opcode = LE16(b2,b3)", "short form is not parsed as BE16 size / LE16 opcode of the 4 decrypted bytes", ab.loc())
            rep.check(ok_large, "decoder", fa, "long-stash", "the 4 decrypted bytes are stashed in order, result AdditionalByteRequired", "long form does not stash the 4 decrypted bytes in order", ab.loc())
    # ------------------------------------------------------------------ decoder: fifth byte
    fl = DEC + "::decrypt_large_server_header"
    sl = ctx.pure.run(fl)
    if sl is None:
        rep.violation("decoder", fl, "anchor", "not found")
    else:
        lb = sl.body
        apply_calls = [i for i in sl.term_info.values() if i.get("k") == "call" and i["name"].endswith("InnerCrypto::apply")]
        one = len(apply_calls) == 1
        scalar_view = False
        if one:
            old = sl.call_old.get((apply_calls[0]["site"], 1))
            one = old is not None and strip(old) == ("agg", "array", None, 0, (("param", 2),))
            if not one and old is not None and strip(old) == ("param", 2):
                # the byte itself viewed as a one-element slice (`slice::from_mut(&mut byte)`)
                la_ = apply_calls[0].get("locargs", ((), ()))
                one = scalar_view = len(la_) > 1 and la_[1][0] == "ref" and la_[1][1] == ("local", 2)
        rep.check(one, "stream-step", fl, "one-byte", "exactly one more keystream byte is consumed, for the given byte", "decrypt_large_server_header does not apply the keystream to exactly the one given byte", lb.loc())
        r = strip(sl.ret)
        good = False
        desc = show(r, maxdepth=3)
        hf = [i for i, f in enumerate(fb.adt_fields(DEC)) if fb.ty(f["ty"]).k == "array"]
        if r[0] == "agg" and r[2] == "wrath_header::ServerHeader" and len(hf) == 1 and one:
            B = ("after", apply_calls[0]["term"], 1, ("param", 2) if scalar_view else ("agg", "array", None, 0, (("param", 2),)))
            env = {("field", ("param", 1), hf[0]): "H", strip(B): "B"}
            if scalar_view:
                env = {("field", ("param", 1), hf[0]): "H", ("index", strip(B), ("int", 0, "usize")): "B0x", strip(B): "B1"}
            fields = [f["name"] for f in fb.adt_fields("wrath_header::ServerHeader")]
            got = {f: arith.bv(v, env) for f, v in zip(fields, r[4])}
            h = lambda k: ("idx", S("H"), I(k))
            want = {"size": (h(2), h(1), ("and", frozenset([h(0), I(0x7F)]))), "opcode": (h(3), ("idx", S("B"), I(0)))}
            if scalar_view:
                # the decrypted byte is the scalar itself; normalise to the one-element-array form
                got = {f: (tuple(("idx", S("B"), I(0)) if x == S("B1") else x for x in v) if v is not None else None) for f, v in got.items()}
            good = all(got.get(f) is not None and arith.bv_trim(got[f]) == want[f] for f in want)
            if good:
                dec_terms["long"] = {f: arith.bv_trim(got[f]) for f in want}
            desc = ", ".join("%s=%s" % (k, "[%s] (low byte first)" % ", ".join(arith.show(x) for x in v) if v is not None else arith.show(arith.norm(dict(zip(fields, r[4]))[k], env))) for k, v in got.items())
        rep.check(good, "decoder", fl, "long-parse", desc, "long form is not size = BE32(0, h0 & 0x7F, h1, h2), opcode = LE16(h3, fifth byte): " + desc, lb.loc())
    # ------------------------------------------------------------------ round trip by normalisation
    if "short" in enc_bytes and "long" in enc_bytes and "short" in dec_terms and "long" in dec_terms:
        for arm, lo, hi in (("short", 0, T - 1), ("long", T, MAX_SIZE)):
            eb = enc_bytes[arm]
            dt = dec_terms[arm]
            # substitute decoded byte k -> emitted plaintext byte k (the raw operation is a shared,
            # position-preserving keystream: C09)
            def sub(e):
                if e[0] == "idx" and e[1] in (S("D"), S("H")) and e[2][0] == "int":
                    k = e[2][1]
                    return eb[k] if k < len(eb) else ("?", "byte %d not emitted" % k)
                if e[0] == "idx" and e[1] == S("B") and e[2] == I(0):
                    return eb[4] if len(eb) > 4 else ("?", "no fifth byte")
                if e[0] in ("or", "and"):
                    return (e[0], frozenset(sub(x) for x in e[1]))
                if e[0] == "arr":
                    return ("arr", tuple(sub(x) for x in e[1]))
                if e[0] in ("frombe", "fromle"):
                    return (e[0], e[1], sub(e[2]))
                return e

            # decoded values as byte vectors (least significant first) over the emitted bytes
            szv = tuple(sub(x) for x in dt["size"])
            opv = tuple(sub(x) for x in dt["opcode"])
            opc = ("arr", opv)
            # opcode: bytes (le(op)0, le(op)1) = op
            op_ok = opv == (le(0), le(1))
            # size: byte forms of BE(size), most significant first
            ok = False
            why = "[%s]" % ", ".join(arith.show(x) for x in szv)
            sz = ("arr", szv)
            if True:
                bs = tuple(reversed(szv))
                width = len(bs)
                forms = [byte_form(b, size) for b in bs]
                if all(f is not None for f in forms):
                    ok = True
                    for pos, f in enumerate(forms):
                        # this byte holds bits of weight (width-1-pos)*8 .. +7 of the decoded size
                        shift = (width - 1 - pos) * 8
                        for bit in range(8):
                            b = shift + bit
                            if f[0] == "const":
                                val = (f[1] >> bit) & 1
                                c = bit_const(lo, hi, b)
                                if c != val:
                                    ok = False
                                    why = "decoded bit %d is the constant %d but size bit %d varies / differs on [0x%X,0x%X]" % (b, val, b, lo, hi)
                            else:
                                k, o, a, ty = f
                                src_bit = (3 - k) * 8 + bit  # BE(u32)[k] bit
                                if (a >> bit) & 1 == 0:
                                    val = 0
                                elif (o >> bit) & 1:
                                    val = 1
                                else:
                                    val = None
                                if val is None:
                                    if src_bit != b:
                                        ok = False
                                        why = "decoded bit %d comes from size bit %d" % (b, src_bit)
                                else:
                                    c = bit_const(lo, hi, b)
                                    if c != val:
                                        ok = False
                                        why = "decoded bit %d is forced to %d but size bit %d is not constantly %d on [0x%X,0x%X]" % (b, val, b, val, lo, hi)
                    # bits of size above the decoded width must be 0 on the interval
                    for b in range(width * 8, 32):
                        if bit_const(lo, hi, b) != 0:
                            ok = False
                            why = "size bit %d can be set on [0x%X,0x%X] but is not transmitted" % (b, lo, hi)
                else:
                    why = "unrecognised byte expression in %s" % arith.show(sz)
            rep.check(ok, "roundtrip", fn, arm + "-size", "decode(encode(size)) = size for all size in [0x%X, 0x%X]" % (lo, hi), "%s form does not round-trip the size on [0x%X, 0x%X]: %s" % (arm, lo, hi, why), body.loc())
            rep.check(op_ok, "roundtrip", fn, arm + "-opcode", "decode(encode(opcode)) = opcode for all opcodes", "%s form does not round-trip the opcode: %s" % (arm, arith.show(opc)), body.loc())
            # the marker the decoder reads (bit 7 of emitted byte 0) on this interval
            f0 = byte_form(eb[0], size)
            mark = None
            if f0 is not None and f0[0] != "const":
                k, o, a, ty = f0
                if (a >> 7) & 1 == 0:
                    mark = 0
                elif (o >> 7) & 1:
                    mark = 1
                else:
                    mark = bit_const(lo, hi, (3 - k) * 8 + 7)
            want_mark = 1 if arm == "long" else 0
            rep.check(mark == want_mark, "stream-step", fn, arm + "-marker-bit", "plaintext byte 0 has bit 7 = %d for every size in [0x%X, 0x%X]: both ends consume %d bytes" % (want_mark, lo, hi, len(eb)), "for some size in [0x%X, 0x%X] the %s header's first byte has marker bit %s: the client would consume a different number of bytes than were sent" % (lo, hi, arm, "undetermined" if mark is None else mark), body.loc())
    else:
        rep.violation("roundtrip", fn, "terms", "encoder/decoder terms unavailable for the round-trip reduction")
