"""C12 - send and receive directions are independent; split and unsplit lose nothing.

Argument (proof level): (1) ownership non-interference - the type closure of the combined
objects and halves contains only u8, byte arrays and structs of those (no references, raw
pointers, Box/Vec/Rc/Arc, cells, atomics), the crate has no statics / thread-locals and
forbids unsafe code; by Rust's aliasing rules a safe function holding `&mut Half` can modify
only that half, for every interleaving.  (2) every encrypt-family facade method writes only
the encrypting half, every decrypt-family method only the decrypting half (write frame from
the MIR effect summary).  (3) all types are Send (rustc's own trait solver).  (4) split
returns the two fields moved, Clone of every type in the closure is field-for-field (derived, or a
hand-written copy of every field to its own place), unsplit's Ok is built from self and the
parameter unchanged, combined constructors key both halves from the same parameter.
(5) unsplit succeeds iff is_pair_of, which is a whole-value equality of the two stored keys."""
import cfg
from rules import util, headers
from rules.util import canon, strip
from symex import show

EXPLANATION = __doc__
TRUSTED = ["rustc type/borrow checking and trait solving (Send), MIR construction, extractor", "Rust's aliasing model for safe code (a `&mut T` is the only access path to T while it lives)"]
NOT_DECIDED = ["per-direction cipher correctness (C07-C09)"]

OK_PRIMS = ("int", "bool", "char")


def floors_for(feats):
    n = sum(1 for c in headers.COMBINED if c[0] is None or c[0] in feats)
    return {"type-closure": 3 * n, "send": 3 * n, "census": 3, "clone": 6 * n, "split": n, "ctor-same-key": n, "frame": 10 * n - (3 if "wrath-header" in feats else 0), "unsplit": 7}


def closure_ok(fb, ty, seen, depth=0):
    if depth > 10:
        return False, "too deep"
    k = ty.k
    if k in OK_PRIMS:
        return True, ""
    if k == "array":
        return closure_ok(fb, ty.elem, seen, depth + 1)
    if k == "adt" and ty.s.split("<")[0] in ("std::num::Wrapping", "core::num::Wrapping") and ty.s.split("<")[1].rstrip(">") in ("u8", "u16", "u32", "u64", "usize"):
        return True, ""         # an integer with wrapping operators: owned plain data
    if k == "adt" and ty.d.get("local"):
        if ty.path in seen:
            return True, ""
        seen.add(ty.path)
        a = fb.adts.get(ty.path)
        if a is None or a["kind"] != "Struct":
            return False, "%s is not a plain struct" % ty.path
        for f in a["variants"][0]["fields"]:
            ok, why = closure_ok(fb, fb.ty(f["ty"]), seen, depth + 1)
            if not ok:
                return False, "%s.%s: %s" % (ty.path, f["name"], why)
        return True, ""
    return False, "type %s can share or alias state" % ty.s


def check(ctx, rep):
    fb = ctx.fb
    closure = set()
    for feat, comb, enc, dec in headers.active(ctx):
        for t in (comb, enc, dec):
            a = fb.adts.get(t)
            if a is None:
                rep.violation("type-closure", t, "anchor", "type not found")
                continue
            seen = set()
            ok, why = closure_ok(fb, fb.ty(a["ty"]), seen)
            rep.check(ok, "type-closure", t, "owned-plain-data", "closure %s is u8 / arrays / structs only" % sorted(seen), "state can be shared between directions: " + why)
            rep.check(a.get("send") is True, "send", t, "Send", "rustc: %s: Send" % t, "%s is not Send" % t)
            has_clone = "std::clone::Clone" in fb.derived_traits(t) or any(p_.startswith("<" + t) and p_.endswith(" as std::clone::Clone>::clone") for p_ in fb.bodies)
            rep.check(has_clone, "clone", t, "is-clone", "%s: Clone" % t, "%s is no longer Clone" % t)
            closure |= seen
        ei = headers.half_field(ctx, comb, enc)
        di = headers.half_field(ctx, comb, dec)
        if ei is None or di is None:
            rep.violation("split", comb, "fields", "combined object is not exactly one encrypter and one decrypter field")
            continue
        extra = [f["name"] for i, f in enumerate(fb.adt_fields(comb)) if i not in (ei, di)]
        rep.check(not extra, "type-closure", comb, "no-shared-field", "combined object = {encrypter, decrypter}", "combined object has additional shared field(s) %s" % extra)
        # split
        se = ctx.wrap.run(comb + "::split")
        if se is None:
            rep.violation("split", comb + "::split", "anchor", "not found")
        else:
            r = strip(se.ret)
            good = r == ("agg", "tuple", None, 0, (("field", ("param", 1), ei), ("field", ("param", 1), di)))
            rep.check(good, "split", comb + "::split", "identity", "split = (self.encrypt, self.decrypt) moved unchanged", "split does not return the two halves unchanged: %s" % show(r, maxdepth=3), se.body.loc())
        # constructor: both halves keyed with the same parameter
        se = ctx.wrap.run(comb + "::new")
        if se is None:
            rep.violation("ctor-same-key", comb + "::new", "anchor", "not found")
        else:
            r = strip(se.ret)
            good = False
            desc = show(r, maxdepth=3)
            if r[0] == "agg" and r[2] == comb:
                e, d = r[4][ei], r[4][di]
                ek = half_key(ctx, se, e, enc)
                dk = half_key(ctx, se, d, dec)
                good = ek == ("param", 1) and dk == ("param", 1)
                desc = "encrypter keyed by %s, decrypter by %s" % (show(ek) if ek else "?", show(dk) if dk else "?")
                if not good:
                    # one half keyed from the other's stored key (the key derived once): compare
                    # the stored keys themselves, with every constructor looked through
                    dse = ctx.deep.run(comb + "::new")
                    dr = strip(dse.ret) if dse is not None else ("?",)
                    if dr[0] == "agg" and dr[2] == comb:
                        def stored_key(v, half):
                            v = strip(v)
                            if v[0] == "agg" and v[2] == half:
                                ks = [o for o, f in zip(v[4], fb.adt_fields(half)) if fb.ty(f["ty"]).k == "array"]
                                return util.bexpr(ctx, dse, ks[0]) if len(ks) == 1 else None
                            return None
                        kb_e, kb_d = stored_key(dr[4][ei], enc), stored_key(dr[4][di], dec)
                        from rules.util import has_raw
                        if kb_e is not None and kb_e == kb_d and not has_raw(kb_e) and "('P', 1)" in str(kb_e) and not any("('P', %d)" % k in str(kb_e) for k in range(2, 6)):
                            good = True
                            desc = "both halves store the same key expression of the session-key parameter: %s" % util.show_b(kb_e)[:120]
            rep.check(good, "ctor-same-key", comb + "::new", "both-halves", desc, "combined constructor does not key both halves with its session-key parameter unchanged: " + desc, se.body.loc())
        # frames
        for name, fam, b in headers.facade_methods(ctx, comb):
            fr = util.frame_of(ctx, b.path, 1)
            want = ei if fam == "enc" else di
            if fr is None:
                rep.violation("frame", b.path, fam, "method may modify the whole combined object (not a single half)", b.loc())
            elif not fr:
                rep.violation("frame", b.path, fam, "method does not touch its half at all", b.loc())
            else:
                rep.check(fr == {want}, "frame", b.path, fam, "write frame = {%s half}" % ("encrypting" if fam == "enc" else "decrypting"), "%s-family method writes field(s) %s of the combined object, expected only field %d" % (fam, sorted(fr), want), b.loc())
        # accessors hand out the right half
        for acc, want in (("encrypter", ei), ("decrypter", di)):
            ase = ctx.wrap.run(comb + "::" + acc)
            if ase is not None:
                r = ase.ret
                good = r[0] == "ref" and r[1] == ("field", ("deref", ("param", 1)), want)
                rep.check(good, "frame", comb + "::" + acc, "accessor", "returns &mut of the %s half" % acc, "%s() hands out %s" % (acc, show(r, maxdepth=3)), ase.body.loc())
    # ---- a copy of any state-carrying type of the closure is the same value (derived, or a
    # hand-written field-for-field copy): `clone` along the way changes nothing
    util.clone_fidelity(ctx, rep, "clone", sorted(closure), role="fidelity")
    # ---- census
    st = fb.d["statics"]
    rep.check(not st, "census", "crate", "statics", "0 statics / thread-locals", "statics: %s" % [s["path"] for s in st])
    rep.check(fb.d["unsafe_code_lint"] == "Forbid", "census", "crate", "forbid-unsafe", "#![forbid(unsafe_code)]", "unsafe_code lint level is %s" % fb.d["unsafe_code_lint"])
    real_unsafe = [u for u in fb.d["unsafe_items"] if "TrivialClone" not in u]
    rep.check(not real_unsafe, "census", "crate", "unsafe-items", "no unsafe fn/impl (besides rustc's derive-internal TrivialClone marker)", "unsafe items: %s" % real_unsafe)
    # ---- unsplit (Vanilla)
    U = "vanilla_header::encrypt::EncrypterHalf::unsplit"
    PO = "vanilla_header::encrypt::EncrypterHalf::is_pair_of"
    se = ctx.flat.run(U)
    if se is None:
        rep.violation("unsplit", U, "anchor", "not found")
        return
    body = se.body
    # decision: switch on (negated) is_pair_of(self, &decrypter)
    dec = None
    for bb, d, f_t, t_t in util.bool_switches(se):
        x = strip(d)
        neg = False
        while x[0] == "unop" and x[1] == "Not":
            neg = not neg
            x = x[2]
        if util.is_call(x, PO) and tuple(strip(a) for a in x[2]) == (("param", 1), ("param", 2)):
            dec = (bb, (bb, f_t) if neg else (bb, t_t), (bb, t_t) if neg else (bb, f_t))
    if dec is None:
        # the pairing test stated in place (or through a looked-through helper): the whole-array
        # equality of the two halves' stored keys - what is_pair_of is decided to be
        ek_ = key_field(ctx, "vanilla_header::encrypt::EncrypterHalf")
        dk_ = key_field(ctx, "vanilla_header::decrypt::DecrypterHalf")
        for c_ in util.compare_sites(ctx, se):
            ok_, _w = util.whole_value_type(fb, c_["self_ty"])
            ops_ = tuple(canon(ctx, se, a) for a in c_["args"])
            want_ = (("field", ("param", 1), ek_), ("field", ("param", 2), dk_))
            if ok_ and c_["self_ty"].k == "array" and c_["self_ty"].len == 40 and ops_ in (want_, want_[::-1]):
                g_ = util.compare_gate(ctx, se, c_)
                if g_ is not None:
                    dec = (g_[0], g_[1], g_[2])
    vs = util.value_select(ctx, se, se.ret) if dec is None else None
    if vs is not None:
        # combinator spelling: is_pair_of(..).then(|| HeaderCrypto{..}).ok_or(UnsplitCryptoError{})
        c, x, e = vs
        c = strip(c)
        good = util.is_call(c, PO) and tuple(strip(a) for a in c[2]) == (("param", 1), ("param", 2))
        e = strip(e)
        good = good and e[0] == "agg" and e[2] == "error::UnsplitCryptoError"
        rep.check(good, "unsplit", U, "gate", "Ok only when is_pair_of, Err only otherwise (value-level select)", "unsplit's result is not decided by is_pair_of alone: %s" % show(se.ret, maxdepth=4), body.loc())
        comb = "vanilla_header::HeaderCrypto"
        ei = headers.half_field(ctx, comb, "vanilla_header::encrypt::EncrypterHalf")
        di = headers.half_field(ctx, comb, "vanilla_header::decrypt::DecrypterHalf")
        x = strip(x)
        good = x[0] == "agg" and x[2] == comb and strip(x[4][ei]) == ("param", 1) and strip(x[4][di]) == ("param", 2)
        rep.check(good, "unsplit", U, "identity", "Ok(HeaderCrypto{encrypt: self, decrypt: decrypter}) unchanged", "re-joined object is not built from the two halves unchanged", body.loc())
    elif dec is None:
        rep.violation("unsplit", U, "decision", "no branch on is_pair_of(self, decrypter)", body.loc())
    else:
        sw, pair_edge, nopair_edge = dec
        accept = [bi for bi, _, _ in util.blocks_constructing(body, "std::result::Result", "Ok")] + [bi for bi, _, _ in util.blocks_constructing(body, "vanilla_header::HeaderCrypto")]
        reject = [bi for bi, _, _ in util.blocks_constructing(body, "std::result::Result", "Err")]
        bad = [b for b in accept if not cfg.must_pass_edge(body, pair_edge, b)] + [b for b in reject if not cfg.must_pass_edge(body, nopair_edge, b)]
        rep.check(bool(accept) and bool(reject) and not bad, "unsplit", U, "gate", "Ok only when is_pair_of, Err only otherwise", "unsplit's result is not decided by is_pair_of alone (bb%s)" % bad, body.loc())
        # Ok content
        good = False
        comb = "vanilla_header::HeaderCrypto"
        ei = headers.half_field(ctx, comb, "vanilla_header::encrypt::EncrypterHalf")
        di = headers.half_field(ctx, comb, "vanilla_header::decrypt::DecrypterHalf")
        for (bi, si), (loc, v) in se.assigns.items():
            if v[0] == "agg" and v[2] == comb:
                good = strip(v[4][ei]) == ("param", 1) and strip(v[4][di]) == ("param", 2)
        rep.check(good, "unsplit", U, "identity", "Ok(HeaderCrypto{encrypt: self, decrypt: decrypter}) unchanged", "re-joined object is not built from the two halves unchanged", body.loc())
    pse = ctx.flat.run(PO)
    if pse is None:
        rep.violation("unsplit", PO, "anchor", "not found")
        return
    cmps = util.compare_sites(ctx, pse)
    good = False
    why = "no comparison"
    if len(cmps) == 1:
        c = cmps[0]
        ok, why = util.whole_value_type(fb, c["self_ty"])
        ek = key_field(ctx, "vanilla_header::encrypt::EncrypterHalf")
        dk = key_field(ctx, "vanilla_header::decrypt::DecrypterHalf")
        ops = tuple(strip(a) for a in c["args"])
        want = (("field", ("param", 1), ek), ("field", ("param", 2), dk))
        good = ok and c["self_ty"].k == "array" and c["self_ty"].len == 40 and ops in (want, want[::-1]) and strip(pse.ret) == strip(c["term"]) and c["op"] == "eq"
        if not good:
            why = "%s over %s" % (why, [show(o) for o in ops])
    rep.check(good, "unsplit", PO, "whole-key", "is_pair_of = (all 40 key bytes equal)", "is_pair_of is not the whole-array equality of the two stored session keys: " + why, pse.body.loc())
    dse = ctx.flat.run("vanilla_header::decrypt::DecrypterHalf::is_pair_of")
    if dse is not None:
        r = strip(dse.ret)
        good = util.is_call(r, PO) and tuple(strip(a) for a in r[2]) == (("param", 2), ("param", 1))
        if not good:
            # or states the same thing itself: the whole-array equality of the two stored keys
            dc = util.compare_sites(ctx, dse)
            if len(dc) == 1:
                c_ = dc[0]
                ok_, _w = util.whole_value_type(fb, c_["self_ty"])
                ek_ = key_field(ctx, "vanilla_header::encrypt::EncrypterHalf")
                dk_ = key_field(ctx, "vanilla_header::decrypt::DecrypterHalf")
                ops_ = tuple(strip(a) for a in c_["args"])
                want_ = (("field", ("param", 1), dk_), ("field", ("param", 2), ek_))
                good = ok_ and c_["self_ty"].k == "array" and c_["self_ty"].len == 40 and ops_ in (want_, want_[::-1]) and r == strip(c_["term"]) and c_["op"] == "eq"
        rep.check(good, "unsplit", "vanilla_header::decrypt::DecrypterHalf::is_pair_of", "delegates", "same test as EncrypterHalf::is_pair_of (delegation, or the whole-array equality of the two stored keys)", "DecrypterHalf::is_pair_of is neither a delegation nor the whole-key equality: %s" % show(r, maxdepth=3))
    rep.check(fb.adts.get("vanilla_header::HeaderCrypto", {}).get("send") is True, "unsplit", "vanilla_header::HeaderCrypto", "Send", "re-joined object is Send", "HeaderCrypto is not Send")
    # the stored key is what makes two halves a pair: it has to stay what the constructor put
    # there.  Nobody stores into it or borrows it mutably (the cipher step reads it, the position
    # lives in other fields) - otherwise halves of one object stop comparing equal once they
    # have carried different amounts of traffic, and halves of different objects may start to.
    for half in ("vanilla_header::encrypt::EncrypterHalf", "vanilla_header::decrypt::DecrypterHalf"):
        kf = key_field(ctx, half)
        writers = set()
        seen_fns = 0
        for path in sorted(fb.bodies):
            if not (path.startswith("vanilla_header::") or path.startswith("<vanilla_header::")):
                continue
            fse = ctx.flat.run(path)
            if fse is None:
                continue
            seen_fns += 1
            for (bi, si), (loc, v) in fse.assigns.items():
                for L, what in ((loc, "stores into"), (v[1] if v[0] == "ref" and len(v) > 2 and v[2] is True else None, "borrows mutably")):
                    x = L
                    while isinstance(x, tuple) and x and x[0] in ("field", "index", "deref", "subslice", "downcast", "i", "const_index"):
                        if x[0] == "field" and x[2] == kf:
                            ty = fse.loc_ty(x[1])
                            ty = ty.peel_refs() if ty is not None else None
                            if ty is not None and ty.k == "adt" and ty.path == half:
                                writers.add("%s %s it" % (path, what))
                        x = x[1] if len(x) > 1 and isinstance(x[1], tuple) else None
        rep.check(not writers and seen_fns > 0, "unsplit", half, "key-immutable", "the stored session key (the pair identity is_pair_of compares) is never written or mutably borrowed after construction (%d functions of the module looked at)" % seen_fns, "the stored session key, which is_pair_of compares, does not stay what the constructor stored: %s" % sorted(writers))


def key_field(ctx, half):
    """index of the field of a half that `new` initialises from its key parameter (role: key)"""
    se = ctx.wrap.run(half + "::new")
    if se is None:
        return None
    r = strip(se.ret)
    if r[0] == "agg" and r[2] == half:
        for i, o in enumerate(r[4]):
            if o == ("param", 1):
                return i
    return None


def half_key(ctx, se, t, half):
    """the key operand a half value was built from"""
    t = strip(t)
    if util.is_call(t, half + "::new"):
        return strip(t[2][0])
    if t[0] == "agg" and t[2] == half:
        ks = [o for o in t[4] if strip(o)[0] not in ("int",)]
        if len(ks) == 1:
            return strip(ks[0])
    return None
