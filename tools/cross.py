#!/usr/bin/env python3
"""Catch rate under refactoring: every seeded change is combined with every behaviour-preserving
refactoring that touches one of the same files (both patches must apply, the result must
compile); the seed's own property check must still report the combination.  Analysis only.

usage: cross.py [--jobs N] [--seeds glob] [--refs glob] [--json out]"""
import concurrent.futures, glob, json, os, re, sys
sys.path.insert(0, os.path.dirname(os.path.abspath(__file__)))
import mutest

V = mutest.VERIF


def files_of(patch):
    return set(re.findall(r"^\+\+\+ b/(\S+)", open(patch).read(), re.M))


def main():
    jobs = 8
    out_json = None
    seeds_glob = os.path.join(V, "seeded", "*", "patch.diff")
    refs_glob = os.path.join(V, "refactors", "*", "patch.diff")
    a = sys.argv[1:]
    while a:
        if a[0] == "--jobs":
            jobs = int(a[1]); a = a[2:]
        elif a[0] == "--seeds":
            seeds_glob = a[1]; a = a[2:]
        elif a[0] == "--json":
            out_json = a[1]; a = a[2:]
        elif a[0] == "--refs":
            refs_glob = a[1]; a = a[2:]
        else:
            a = a[1:]
    seeds = sorted(glob.glob(seeds_glob))
    refs = sorted(glob.glob(refs_glob))
    rf = {r: files_of(r) for r in refs}
    work = []
    for s in seeds:
        sn = os.path.basename(os.path.dirname(s))
        prop = sn.split("-")[0]
        sf = files_of(s)
        for r in refs:
            if sf & rf[r]:
                rn = os.path.basename(os.path.dirname(r))
                work.append(({"name": "%s+%s" % (sn, rn), "patches": [r, s]}, [prop], len(work) % jobs))
    by_slot = {}
    for w in work:
        by_slot.setdefault(w[2], []).append(w)
    out = []
    with concurrent.futures.ThreadPoolExecutor(max_workers=jobs) as ex:
        for rs in ex.map(lambda ws: [mutest.run_one(w) for w in ws], by_slot.values()):
            out.extend(rs)
    out.sort()
    for n, st, d in out:
        if st != "caught":
            print("%-40s %-8s %s" % (n, st, d[:160]))
    c = sum(1 for o in out if o[1] == "caught"); m = sum(1 for o in out if o[1] == "MISSED"); k = sum(1 for o in out if o[1] == "skipped")
    print("combinations %d: caught %d / MISSED %d / skipped (do not apply or compile together) %d" % (len(out), c, m, k))
    if out_json:
        json.dump({"combinations": len(out), "caught": c, "missed": [o[0] for o in out if o[1] == "MISSED"], "skipped": k}, open(out_json, "w"), indent=1)
    return 1 if m else 0


if __name__ == "__main__":
    sys.exit(main())
