#!/usr/bin/env python3
"""Signature table of the crate's functions on the pinned tree (analysis/anchors.json).
Used only to recognise a *renamed or moved* private function: when a function the rules know by
path is gone and exactly one new function has the same signature, the fact loader treats the new
path as an alias of the old one (facts.py: rename_aliases).  Regenerate with: tools/gen_anchors.py"""
import json, os, sys
sys.path.insert(0, os.path.join(os.path.dirname(os.path.abspath(__file__)), "..", "analysis"))
import extract, facts

p, _ = extract.extract(extract.DEFAULT + ["matrix-card"])
d = json.load(open(p))
out = {"functions": facts.signature_table(d), "adts": facts.adt_signature_table(d), "adts_pub": facts.adt_signature_table(d, public=True)}
json.dump(out, open(os.path.join(os.path.dirname(os.path.abspath(__file__)), "..", "analysis", "anchors.json"), "w"), indent=0, sort_keys=True)
print(len(out["functions"]), "functions", len(out["adts"]), "private types", len(out["adts_pub"]), "public types")
