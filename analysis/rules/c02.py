"""C02 - wrong credentials or any altered handshake value are always rejected.

Decides (DESIGN §4 C02): the accept decision of `SrpProof::into_server` and
`SrpClientChallenge::verify_server_proof` is a whole-value equality (A2) of exactly the
presented proof and the proof computed from the object's own values (A3), the authenticated
object and `Ok` are constructed only behind the equal edge and the error only behind the
unequal edge (A1), the error carries both proofs, nobody else constructs the authenticated
objects (A4a), and M1 / M2 hash every bound value whole (A5)."""
import cfg
from rules import util, roles
from rules.util import P, canon, show_b
from symex import show

EXPLANATION = __doc__
TRUSTED = [
    "rustc type check / MIR construction; extractor faithfulness",
    "SHA-1 collision resistance (a different transcript is a different proof)",
    "derive(PartialEq) compares every field; [u8; N] == [u8; N] compares every byte",
]
NOT_DECIDED = ["that a changed hash input changes the SHA-1 output", "that a different password yields a different verifier"]
FLOORS = {"binding": 12, "gate": 2, "whole-value": 2, "operands": 2, "error-content": 2, "who-may-construct": 2, "transcript": 2, "ok-content": 2, "credential-identity": 6, "validated-key": 3}


def applicable(feats):
    return "srp-default-math" in feats


def gate_rule(ctx, rep, fn, cap_adt, presented_param, expect_computed, err_order):
    """shared by server and client side.  expect_computed(canon term) -> (ok, why).  The
    comparison may be written inline or delegated to a crate-local verdict helper (a function
    whose Result/bool is decided by one whole-value equality of two of its parameters)."""
    se = ctx.wrap.run(fn)
    body = ctx.fb.body(fn)
    if se is None:
        rep.violation("gate", fn, "anchor", "function not found")
        return
    presented = ("param", presented_param)
    cand = [d for d in util.proof_decisions(ctx, se) if presented in d["ops"]]
    if len(cand) != 1:
        rep.violation("gate", fn, "comparison", "expected exactly one equality test involving the presented proof, found %d" % len(cand), body.loc())
        return
    d = cand[0]
    ops = d["ops"]
    ok, why = d["whole"]
    rep.check(ok, "whole-value", fn, "proof-comparison", why, "proof comparison is not a whole-value equality: %s" % why, body.loc(d["bb"]))
    other = [o for o in ops if o != presented]
    if len(other) != 1:
        rep.violation("operands", fn, "proof-comparison", "comparison does not pair the presented proof with a computed one", body.loc(d["bb"]))
    else:
        good, why = expect_computed(other[0], se)
        rep.check(good, "operands", fn, "proof-comparison", "presented proof vs " + why, "computed operand is not the expected proof: " + why, body.loc(d["bb"]))
    if d["eq_edge"] is None:
        rep.violation("gate", fn, "decision", "no branch on the result of the proof comparison", body.loc(d["bb"]))
        return
    eq_edge, ne_edge = d["eq_edge"], d["ne_edge"]
    caps = util.blocks_constructing(body, cap_adt)
    oks = util.blocks_constructing(body, "std::result::Result", "Ok")
    # the refusal is the `Err(..)` value (or the residual `?` hands on); the error *payload* may be
    # built before the decision (`.ok_or(MatchProofsError { .. })` evaluates its argument eagerly)
    errs = [bi for bi, _, _ in util.blocks_constructing(body, "std::result::Result", "Err")]
    errs += [bb for bb, i in se.term_info.items() if i.get("k") == "call" and "FromResidual" in i["name"]]
    if not errs:
        errs = [bi for bi, _, _ in util.blocks_constructing(body, "error::MatchProofsError")]
    if not caps or not oks:
        rep.violation("gate", fn, "capability", "no construction of %s / Ok found" % cap_adt, body.loc())
        return
    # the capability can leave the function only inside `Ok(..)` (by the return type): one built
    # before the decision and dropped on refusal (`.then_some(client)`) authenticates nobody
    out_ty = ctx.fb.ty(body.d["output"])
    targs = out_ty.targs() if out_ty.k == "adt" and out_ty.path == "std::result::Result" else []
    only_in_ok = len(targs) == 2 and util.type_mentions(ctx.fb, targs[0], cap_adt) and not util.type_mentions(ctx.fb, targs[1], cap_adt, by_value_only=False) and not any(util.type_mentions(ctx.fb, body.local_ty(i), cap_adt, by_value_only=False) for i in range(1, body.arg_count + 1))
    gated = oks if only_in_ok else caps + oks
    bad = [bi for bi, _, _ in gated if not cfg.must_pass_edge(body, eq_edge, bi)]
    rep.check(not bad, "gate", fn, "accept-only-on-equal", "every path to %s/Ok crosses the equal edge bb%d->bb%d" % (cap_adt, eq_edge[0], eq_edge[1]),
              "a path reaches the construction of %s/Ok (bb%s) without crossing the equal edge of the proof comparison" % (cap_adt, bad), body.loc(bad[0]) if bad else None)
    bad = [bi for bi in errs if not cfg.must_pass_edge(body, ne_edge, bi)]
    rep.check(bool(errs) and not bad, "gate", fn, "reject-only-on-unequal", "Err only behind the unequal edge", "Err is constructed on a path that does not cross the unequal edge (bb%s)" % bad, body.loc())
    reach_eq = cfg.reachable(body, start=eq_edge[1])
    reach_ne = cfg.reachable(body, start=ne_edge[1])
    for bi, _, _ in caps + oks:
        if bi in reach_ne and bi not in reach_eq:
            rep.violation("gate", fn, "polarity", "authenticated object constructed on the unequal side", body.loc(bi))
    # error content: both proofs, each once, in their documented fields
    want = {presented: "presented"}
    if len(other) == 1:
        want[other[0]] = "computed"
    contents = []
    for bi, si, s_ in util.blocks_constructing(body, "error::MatchProofsError"):
        loc, v = se.assigns[(bi, si)]
        contents.append((bi, dict(zip(s_["rv"]["fields"], [canon(ctx, se, x) for x in v[4]]))))
    if d["err_fields"] is not None and not contents:
        # the helper builds the error from its two operands and `?` passes it on unchanged
        passed = [i for i in se.term_info.values() if i.get("k") == "call" and "FromResidual" in i["name"]]
        same_err = len(passed) == 1 and "error::MatchProofsError>" in ctx.fb.ty(body.d["output"]).s
        if same_err:
            contents.append((d["bb"], d["err_fields"]))
    if not contents:
        rep.violation("error-content", fn, "MatchProofsError", "no error value carrying the proofs is produced on the reject path", body.loc())
    for bi, fields in contents:
        order = {k: want.get(v) for k, v in fields.items()}
        good = sorted(str(x) for x in order.values()) == ["computed", "presented"] and all(order.get(k) == v for k, v in err_order.items())
        rep.check(good, "error-content", fn, "MatchProofsError", "error carries %s" % order, "error does not carry the presented and the computed proof in their fields: %s" % order, body.loc(bi))
    return se, d, other[0] if len(other) == 1 else None


def check(ctx, rep):
    fb = ctx.fb
    # "determined by the stored verifier, salt and username and the two public keys" / "another
    # password or username is refused": necessary that x, v, M1 and M2 take ALL of each of
    # these inputs - the transcript and formula obligations C03 decides for those functions
    # "another password or username is refused" also needs the credential text itself to survive
    # normalisation: two credentials that differ otherwise than in letter case must not become
    # the same NormalizedString.  Necessary for that (decided by C13's rules, re-filed here):
    # no constructor truncates (length gate before the copy, in every constructor), byte k of the
    # stored text is the upper case of character k, nobody else builds the type.
    from rules import c13, c01
    c13.check(ctx, c01.rep_select(rep, "credential-identity", {"length-gate", "normal-form", "constructors", "who-may-construct"}))
    # ... and the client public key the server computes with to be one the validation let through:
    # with A = 0 (mod N) the shared secret is 0 whatever the verifier is, and a proof can be forged
    # without the password.  C04's `validated` obligations (who may construct a PublicKey, private
    # field, the checked constructors) are necessary here.
    from rules import c04
    c04.check(ctx, c01.rep_select(rep, "validated-key", {"validated", "reject-set"}))
    from rules import c03
    binding = ("srp_internal::calculate_x", "srp_internal::calculate_password_verifier", "srp_internal::calculate_client_proof", "srp_internal_client::calculate_client_proof_with_custom_value", "srp_internal::calculate_server_proof")
    if not ctx.has("srp_internal_client::calculate_client_proof_with_custom_value"):
        binding += (c03.CLIENT_ROOT,)       # folded into the constructor: C03 decides the client's M1 end to end there
    rf = util.Refile(rep, "binding", {"transcript", "formula"}, lambda fn: fn in binding)
    c03.transcripts(ctx, rf)
    c03.formulas(ctx, rf)
    # ... and on the session key both proofs are computed over: K = interleave(S) with S's
    # leading zero bytes dropped in pairs.  A server whose interleave differs from the protocol's
    # on some S refuses the proof "determined by verifier, salt, username and the public keys"
    # for those logins (round 11, change C02-11): C03's interleave obligations are necessary here.
    c03.interleave_rules(ctx, util.Refile(rep, "binding", {"interleave"}, None))
    R = roles.srp_roles(ctx)
    rp = roles.inv(R["SrpProof"])
    for need in ("U", "B", "salt", "b", "v"):
        if need not in rp:
            rep.violation("operands", "server::SrpProof", "roles", "cannot bind role %s to a field of SrpProof" % need)
            return

    def self_f(role):
        return ("field", ("param", 1), rp[role])

    # ---------------- server
    def server_expected(t, se):
        if not util.is_call(t, "srp_internal::calculate_client_proof"):
            return False, show(t, maxdepth=3)
        a = t[2]
        K = a[1]
        want_K = util.is_call(K, "srp_internal::calculate_session_key") and tuple(K[2]) == (("param", 2), self_f("B"), self_f("v"), self_f("b"))
        want = a[0] == self_f("U") and want_K and a[2] == ("param", 2) and a[3] == self_f("B") and a[4] == self_f("salt")
        return want, "calculate_client_proof(U=%s, K=%s, A=%s, B=%s, salt=%s)" % tuple(show(x, maxdepth=3) for x in a)

    r = gate_rule(ctx, rep, "server::SrpProof::into_server", "server::SrpServer", 3, server_expected, {"client_proof": "presented", "server_proof": "computed"})
    if r:
        se, c, computed = r
        body = se.body
        # Ok content: session object holds the K that was verified, M2 over (A, M1 computed, K)
        for bi, si, s in util.blocks_constructing(body, "server::SrpServer"):
            loc, v = se.assigns[(bi, si)]
            ops = [canon(ctx, se, x) for x in v[4]]
            K = computed[2][1] if computed and util.is_call(computed) else None
            rep.check(K in ops and self_f("U") in ops, "ok-content", "server::SrpProof::into_server", "SrpServer", "session object holds the verified K and the username", "SrpServer is not built from the verified session key / username: %s" % [show(o, maxdepth=2) for o in ops], body.loc(bi))
        # the tuple's second element: M2
        m2_ok = False
        for (bi, si), (loc, v) in se.assigns.items():
            if v[0] == "agg" and v[1] == "tuple" and len(v[4]) == 2:
                m2 = canon(ctx, se, v[4][1])
                if util.is_call(m2, "srp_internal::calculate_server_proof") and computed is not None:
                    a = m2[2]
                    m2_ok = a[0] == ("param", 2) and a[1] == computed and a[2] == computed[2][1]
        rep.check(m2_ok, "ok-content", "server::SrpProof::into_server", "M2", "returned server proof = calculate_server_proof(A, verified M1, K)", "returned server proof is not calculate_server_proof(A, M1, K) over the verified values")

    # ---------------- client
    cc = roles.ctor_field_roles(ctx, "client::SrpClientChallenge::new", "client::SrpClientChallenge", {1: "U"},
                                lambda c: "M1" if util.is_call(c, "srp_internal_client::calculate_client_proof_with_custom_value") else ("A" if (util.is_call(c) and c[1].endswith("::expect")) else ("K" if util.is_call(c, "srp_internal::calculate_interleaved") else None)))
    ci = roles.inv(cc or {})
    if not all(k in ci for k in ("U", "M1", "A", "K")):
        # the four fields have four different types: bind the roles by type when the functions
        # that used to produce them (and identified them) have been folded into something else
        fs_ = fb.adt_fields("client::SrpClientChallenge") or []
        by_ty = {}
        for i_, f_ in enumerate(fs_):
            by_ty.setdefault(fb.ty(f_["ty"]).path, []).append(i_)
        want_ty = {"U": "normalized_string::NormalizedString", "M1": "key::Proof", "A": "key::PublicKey", "K": "key::SessionKey"}
        if all(len(by_ty.get(t_, [])) == 1 for t_ in want_ty.values()) and c03.client_view(ctx)["ok"]:
            ci = {r_: by_ty[t_][0] for r_, t_ in want_ty.items()}
            cc = {v_: k_ for k_, v_ in ci.items()}
    if not all(k in ci for k in ("U", "M1", "A", "K")):
        rep.violation("operands", "client::SrpClientChallenge", "roles", "cannot bind roles of SrpClientChallenge fields: %s" % cc)
    else:
        def client_expected(t, se):
            if not util.is_call(t, "srp_internal::calculate_server_proof"):
                return False, show(t, maxdepth=3)
            a = t[2]
            want = tuple(a) == (("field", ("param", 1), ci["A"]), ("field", ("param", 1), ci["M1"]), ("field", ("param", 1), ci["K"]))
            return want, "calculate_server_proof(A=%s, M1=%s, K=%s)" % tuple(show(x, maxdepth=3) for x in a)

        r = gate_rule(ctx, rep, "client::SrpClientChallenge::verify_server_proof", "client::SrpClient", 2, client_expected, {"server_proof": "presented", "client_proof": "computed"})
        if r:
            se, c, computed = r
            body = se.body
            for bi, si, s in util.blocks_constructing(body, "client::SrpClient"):
                loc, v = se.assigns[(bi, si)]
                ops = [canon(ctx, se, x) for x in v[4]]
                rep.check(("field", ("param", 1), ci["K"]) in ops and ("field", ("param", 1), ci["U"]) in ops, "ok-content", "client::SrpClientChallenge::verify_server_proof", "SrpClient", "session object holds the K the proof was checked with", "SrpClient is not built from the verified session key / username", body.loc(bi))

    # ---------------- who may construct (A4a)
    for adt, allowed in (("server::SrpServer", {"server::SrpProof::into_server"}), ("client::SrpClient", {"client::SrpClientChallenge::verify_server_proof"})):
        # a helper extracted from the verified function and spliced back into every caller is
        # judged there (the gate rule sees the construction in the caller's graph)
        absorbed = fb.absorbed()
        sites = [x for x in util.aggregates(fb, adt) if x[0].path not in absorbed]
        bad = [b.path for b, _, _, _ in sites if b.path not in allowed]
        rep.check(bool(sites) and not bad, "who-may-construct", adt, "aggregate", "%d construction site(s), all in %s" % (len(sites), sorted(allowed)), "%s is constructed outside the verified path: %s" % (adt, bad))
        # fields private, no Default / From impl
        a = fb.adts.get(adt)
        pubf = [f["name"] for f in a["variants"][0]["fields"] if f["pub"]] if a else ["<missing>"]
        rep.check(not pubf, "who-may-construct", adt, "private-fields", "all fields private", "public field(s) %s allow forging the object" % pubf)
        forb = [im.get("trait") for im in fb.impls if fb.ty(im["self_ty"]).path == adt and im.get("trait") in ("std::default::Default", "std::convert::From", "std::convert::TryFrom")]
        rep.check(not forb, "who-may-construct", adt, "no-default-from", "no Default/From impl", "impl(s) %s can create the object without verification" % forb)
        # public functions returning the type by value
        makers = []
        for b in fb.bodies.values():
            if b.kind in ("Fn", "AssocFn") and not b.derived() and "output" in b.d:
                if util.type_mentions(fb, fb.ty(b.d["output"]), adt) and b.path not in absorbed:
                    makers.append(b.path)
        rep.check(set(makers) <= allowed, "who-may-construct", adt, "returning-functions", "functions returning it: %s" % makers, "other function(s) return %s: %s" % (adt, sorted(set(makers) - allowed)))

    # ---------------- transcripts bind every value whole (A5)
    def transcript(fn, want, why):
        se = ctx.wrap.run(fn)
        if se is None:
            rep.violation("transcript", fn, "anchor", "function not found")
            return
        b = util.bexpr(ctx, se, se.ret)
        rep.check(b == util.cb(want), "transcript", fn, "sha1", "%s = %s" % (why, show_b(b)), "%s: expected %s, found %s" % (why, show_b(want), show_b(b)), se.body.loc())

    xor = fb.const_bytes("srp_internal::PRECALCULATED_XOR_HASH")
    transcript("srp_internal::calculate_client_proof", ("H", (("const", xor), ("H", (("text", P(1)),)), P(5), P(3), P(4), P(2))), "M1 binds U, salt, A, B, K whole")
    transcript("srp_internal::calculate_server_proof", ("H", (P(1), P(2), P(3))), "M2 binds A, M1, K whole")
    # the values hashed are full-width by type
    for fn, idx, ln in (("srp_internal::calculate_client_proof", (2, 3, 4, 5), (40, 32, 32, 32)), ("srp_internal::calculate_server_proof", (1, 2, 3), (32, 20, 40))):
        b = fb.body(fn)
        if b is None:
            continue
        for i, l in zip(idx, ln):
            ty = b.local_ty(i).peel_refs()
            fs = fb.adt_fields(ty.path) if ty.k == "adt" else None
            good = fs is not None and len(fs) == 1 and fb.ty(fs[0]["ty"]).k == "array" and fb.ty(fs[0]["ty"]).len == l
            rep.check(good, "transcript", fn, "width-arg%d" % i, "argument %d is a %d-byte value" % (i, l), "argument %d is not a %d-byte array wrapper (%s)" % (i, l, ty.s))
