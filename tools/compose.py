#!/usr/bin/env python3
"""Stacks of behaviour-preserving refactorings: a tree after a dozen merged clean-up pull requests
differs from the pinned tree in many places at once.  Draws (seeded, reproducible) random stacks of
refactorings from refactors/ that apply on top of each other with exact context, writes them to
refactors_stacked/stacks.json and runs every check on every stack (tools/mutest.py --all): all must
be silent.  usage: compose.py [--n 40] [--k 8] [--seed 1] [--jobs 8] [--only-generate]"""
import glob, json, os, random, shutil, subprocess, sys, tempfile

VERIF = os.path.dirname(os.path.dirname(os.path.abspath(__file__)))


def arg(name, default):
    return type(default)(sys.argv[sys.argv.index(name) + 1]) if name in sys.argv else default


def main():
    n, k, seed, jobs = arg("--n", 40), arg("--k", 8), arg("--seed", 1), arg("--jobs", 8)
    rnd = random.Random(seed)
    pool = sorted(glob.glob(os.path.join(VERIF, "refactors", "*", "patch.diff")))
    stacks = []
    for si in range(n):
        d = tempfile.mkdtemp(prefix="wss_", dir="/tmp")
        try:
            for item in ("src", "Cargo.toml", "Cargo.lock"):
                s = os.path.join("/repo", item)
                shutil.copytree(s, os.path.join(d, item)) if os.path.isdir(s) else shutil.copy(s, d)
            order = pool[:]
            rnd.shuffle(order)
            applied = []
            for pf in order:
                if len(applied) >= k:
                    break
                r = subprocess.run(["patch", "-p1", "-s", "-F0", "--dry-run", "-i", pf], cwd=d, capture_output=True, text=True)
                if r.returncode != 0:
                    continue
                subprocess.run(["patch", "-p1", "-s", "-F0", "-i", pf], cwd=d, capture_output=True, text=True)
                applied.append(os.path.relpath(pf, VERIF))
            stacks.append({"name": "stack-s%d-%02d" % (seed, si), "patches": applied})
        finally:
            shutil.rmtree(d, ignore_errors=True)
    os.makedirs(os.path.join(VERIF, "refactors_stacked"), exist_ok=True)
    out = os.path.join(VERIF, "refactors_stacked", "stacks_s%d.json" % seed)
    json.dump(stacks, open(out, "w"), indent=1)
    print("wrote", out, len(stacks), "stacks of", k)
    if "--only-generate" in sys.argv:
        return 0
    return subprocess.call([os.path.join(VERIF, "tools", "mutest.py"), "--all", "--jobs", str(jobs), out])


if __name__ == "__main__":
    sys.exit(main())
