// wowsrp-facts: rustc_private MIR fact extractor for the /verif static checks.
//
// Used as RUSTC_WORKSPACE_WRAPPER: argv[1] is the real rustc path (dropped), the rest are the
// rustc arguments cargo would have used.  For the crate named by WOWSRP_FACTS_CRATE (default
// "wow_srp") it writes ONE JSON document (one write, one process) to $WOWSRP_FACTS_OUT after
// analysis; every other crate is compiled unchanged.
//
// Nothing of the analysed crate is executed; only rustc queries are made (type check, MIR
// construction, constant evaluation of `const` items by rustc's own CTFE).
#![feature(rustc_private)]
#![allow(clippy::all)]

extern crate rustc_abi;
extern crate rustc_driver;
extern crate rustc_hir;
extern crate rustc_infer;
extern crate rustc_interface;
extern crate rustc_lint;
extern crate rustc_middle;
extern crate rustc_session;
extern crate rustc_span;
extern crate rustc_trait_selection;

use std::collections::HashMap;
use std::fmt::Write as _;

use rustc_driver::{Callbacks, Compilation};
use rustc_hir::def::DefKind;
use rustc_hir::def_id::{DefId, LocalDefId};
use rustc_infer::infer::TyCtxtInferExt;
use rustc_interface::interface::Compiler;
use rustc_middle::mir::{self, interpret::GlobalAlloc};
use rustc_middle::ty::print::with_no_trimmed_paths;
use rustc_middle::ty::{self, Ty, TyCtxt, TypingEnv};
use rustc_trait_selection::infer::InferCtxtExt;

// ---------------------------------------------------------------- tiny JSON builder

fn jstr(s: &str) -> String {
    let mut o = String::with_capacity(s.len() + 2);
    o.push('"');
    for c in s.chars() {
        match c {
            '"' => o.push_str("\\\""),
            '\\' => o.push_str("\\\\"),
            '\n' => o.push_str("\\n"),
            '\r' => o.push_str("\\r"),
            '\t' => o.push_str("\\t"),
            c if (c as u32) < 0x20 => {
                let _ = write!(o, "\\u{:04x}", c as u32);
            }
            c => o.push(c),
        }
    }
    o.push('"');
    o
}

struct Obj(String, bool);
impl Obj {
    fn new() -> Self {
        Obj(String::from("{"), true)
    }
    fn raw(mut self, k: &str, v: impl AsRef<str>) -> Self {
        if !self.1 {
            self.0.push(',');
        }
        self.1 = false;
        self.0.push_str(&jstr(k));
        self.0.push(':');
        self.0.push_str(v.as_ref());
        self
    }
    fn s(self, k: &str, v: impl AsRef<str>) -> Self {
        let v = jstr(v.as_ref());
        self.raw(k, v)
    }
    fn b(self, k: &str, v: bool) -> Self {
        self.raw(k, if v { "true" } else { "false" })
    }
    fn n(self, k: &str, v: impl std::fmt::Display) -> Self {
        let v = v.to_string();
        self.raw(k, v)
    }
    fn end(mut self) -> String {
        self.0.push('}');
        self.0
    }
}

fn arr(items: impl IntoIterator<Item = String>) -> String {
    let mut o = String::from("[");
    let mut first = true;
    for i in items {
        if !first {
            o.push(',');
        }
        first = false;
        o.push_str(&i);
    }
    o.push(']');
    o
}

fn opt(v: Option<String>) -> String {
    v.unwrap_or_else(|| "null".to_string())
}

// ---------------------------------------------------------------- extraction context

struct Cx<'tcx> {
    tcx: TyCtxt<'tcx>,
    types: Vec<String>,
    type_ix: HashMap<Ty<'tcx>, usize>,
    // monomorphic instances of local const-generic functions met at call sites (work list)
    instances: Vec<(ty::Instance<'tcx>, TypingEnv<'tcx>)>,
    inst_seen: std::collections::HashSet<ty::Instance<'tcx>>,
}

impl<'tcx> Cx<'tcx> {
    fn path(&self, d: DefId) -> String {
        with_no_trimmed_paths!(self.tcx.def_path_str(d))
    }

    fn ty(&mut self, t: Ty<'tcx>) -> usize {
        // normalise (array lengths written as `CONST as usize` are unevaluated otherwise)
        let t = self
            .tcx
            .try_normalize_erasing_regions(
                TypingEnv::fully_monomorphized(),
                ty::Unnormalized::new_wip(t),
            )
            .unwrap_or(t);
        if let Some(i) = self.type_ix.get(&t) {
            return *i;
        }
        // reserve slot first (recursive types are impossible through Ty structure, but
        // children are interned before we fill the slot)
        let ix = self.types.len();
        self.types.push(String::new());
        self.type_ix.insert(t, ix);
        let s = with_no_trimmed_paths!(t.to_string());
        let o = Obj::new().s("s", &s);
        let o = match t.kind() {
            ty::Bool => o.s("k", "bool"),
            ty::Char => o.s("k", "char"),
            ty::Str => o.s("k", "str"),
            ty::Never => o.s("k", "never"),
            ty::Int(i) => o
                .s("k", "int")
                .b("signed", true)
                .n("bits", i.bit_width().unwrap_or(64)),
            ty::Uint(u) => o
                .s("k", "int")
                .b("signed", false)
                .n("bits", u.bit_width().unwrap_or(64)),
            ty::Float(_) => o.s("k", "float"),
            ty::Adt(def, args) => {
                let a = self.gargs(args);
                o.s("k", "adt")
                    .s("path", self.path(def.did()))
                    .b("local", def.did().is_local())
                    .raw("args", a)
            }
            ty::Array(e, n) => {
                let ei = self.ty(*e);
                let len = n.try_to_target_usize(self.tcx);
                o.s("k", "array")
                    .n("elem", ei)
                    .raw("len", opt(len.map(|l| l.to_string())))
            }
            ty::Slice(e) => {
                let ei = self.ty(*e);
                o.s("k", "slice").n("elem", ei)
            }
            ty::Ref(_, inner, m) => {
                let ii = self.ty(*inner);
                o.s("k", "ref").b("mut", m.is_mut()).n("to", ii)
            }
            ty::RawPtr(inner, m) => {
                let ii = self.ty(*inner);
                o.s("k", "rawptr").b("mut", m.is_mut()).n("to", ii)
            }
            ty::Tuple(ts) => {
                let v: Vec<String> = ts.iter().map(|x| self.ty(x).to_string()).collect();
                o.s("k", "tuple").raw("elems", arr(v))
            }
            ty::FnDef(d, args) => {
                let a = self.gargs(args);
                o.s("k", "fndef").s("path", self.path(*d)).raw("args", a)
            }
            ty::Closure(d, args) => {
                let up: Vec<String> = args
                    .as_closure()
                    .upvar_tys()
                    .iter()
                    .map(|x| self.ty(x).to_string())
                    .collect();
                o.s("k", "closure")
                    .s("path", self.path(*d))
                    .raw("upvars", arr(up))
            }
            ty::Param(p) => o.s("k", "param").s("name", p.name.as_str()),
            ty::Alias(..) => o.s("k", "alias"),
            ty::FnPtr(..) => o.s("k", "fnptr"),
            ty::Dynamic(..) => o.s("k", "dyn"),
            _ => o.s("k", "other"),
        };
        self.types[ix] = o.end();
        ix
    }

    /// name of a monomorphic instance of a local function that has const generic parameters and
    /// is called with concrete arguments; None for everything else (analysed polymorphically)
    fn instance_name(&self, inst: ty::Instance<'tcx>) -> Option<String> {
        use rustc_middle::ty::TypeVisitableExt;
        let did = inst.def_id();
        if !did.is_local() || !matches!(inst.def, ty::InstanceKind::Item(_)) {
            return None;
        }
        if !matches!(self.tcx.def_kind(did), DefKind::Fn | DefKind::AssocFn) {
            return None;
        }
        // every const argument must be a concrete value; type arguments may still mention the
        // caller's own type parameters (the instance then lives in the caller's generic context)
        let mut parts = Vec::new();
        let mut n_const = 0;
        for a in inst.args.iter() {
            if let Some(c) = a.as_const() {
                match c.try_to_target_usize(self.tcx) {
                    Some(v) => {
                        parts.push(v.to_string());
                        n_const += 1;
                    }
                    None => return None,
                }
            } else if let Some(t) = a.as_type() {
                parts.push(with_no_trimmed_paths!(t.to_string()));
            }
        }
        if n_const == 0 {
            // type-generic functions: only fully concrete instances, and only of functions that
            // are not part of the public API (a private generic helper, a method of a private
            // trait) - the rules address public generic functions by their generic path
            // (an instance that still mentions the caller's own type parameters - `helper::<Header,
            // R>` called from `pub fn f<R: Read>` - lives in the caller's generic context, like
            // the const-generic partial instances; at least one type argument must be concrete)
            let n_concrete = inst.args.iter().filter(|a| a.as_type().map(|t| !t.has_non_region_param()).unwrap_or(false)).count();
            if parts.is_empty() || n_concrete == 0 {
                return None;
            }
            let ld = did.expect_local();
            let local_trait = self.tcx.trait_of_assoc(did).map(|t| t.is_local()).unwrap_or(false)
                || self
                    .tcx
                    .impl_of_assoc(did)
                    .and_then(|i| self.tcx.impl_opt_trait_ref(i))
                    .map(|t| t.skip_binder().def_id.is_local())
                    .unwrap_or(false);
            if self.tcx.effective_visibilities(()).is_reachable(ld) && !local_trait {
                return None;
            }
        }
        Some(format!("{}::<{}>", self.path(did), parts.join(", ")))
    }

    fn gargs(&mut self, args: ty::GenericArgsRef<'tcx>) -> String {
        let mut v = Vec::new();
        for a in args.iter() {
            if let Some(t) = a.as_type() {
                v.push(Obj::new().n("ty", self.ty(t)).end());
            } else if let Some(c) = a.as_const() {
                let val = c.try_to_target_usize(self.tcx);
                v.push(
                    Obj::new()
                        .s("const", with_no_trimmed_paths!(c.to_string()))
                        .raw("val", opt(val.map(|x| x.to_string())))
                        .end(),
                );
            }
            // lifetimes are skipped
        }
        arr(v)
    }

    fn span(&self, sp: rustc_span::Span) -> String {
        let sm = self.tcx.sess.source_map();
        let exp = sp.from_expansion();
        let cs = sp.source_callsite();
        let lo = sm.lookup_char_pos(cs.lo());
        let file = match &lo.file.name {
            rustc_span::FileName::Real(r) => r
                .local_path()
                .map(|p| p.display().to_string())
                .unwrap_or_else(|| format!("{:?}", lo.file.name)),
            other => format!("{:?}", other),
        };
        Obj::new()
            .s("file", file)
            .n("line", lo.line)
            .b("exp", exp)
            .end()
    }

    // ------------------------------------------------------------ constants

    fn alloc_bytes(&self, alloc_id: mir::interpret::AllocId, off: u64, len: u64) -> Option<Vec<u8>> {
        match self.tcx.try_get_global_alloc(alloc_id)? {
            GlobalAlloc::Memory(a) => {
                let a = a.inner();
                let total = a.len() as u64;
                if off + len > total {
                    return None;
                }
                let r = (off as usize)..((off + len) as usize);
                if !a.provenance().ptrs().is_empty() {
                    return None;
                }
                Some(a.inspect_with_uninit_and_ptr_outside_interpreter(r).to_vec())
            }
            _ => None,
        }
    }

    fn norm(&self, t: Ty<'tcx>) -> Ty<'tcx> {
        self.tcx
            .try_normalize_erasing_regions(
                TypingEnv::fully_monomorphized(),
                ty::Unnormalized::new_wip(t),
            )
            .unwrap_or(t)
    }

    fn const_value(&mut self, v: mir::ConstValue, t: Ty<'tcx>) -> Obj {
        let t = self.norm(t);
        let o = Obj::new().n("ty", self.ty(t));
        match v {
            mir::ConstValue::Scalar(s) => match s {
                mir::interpret::Scalar::Int(i) => {
                    let bits = i.to_bits(i.size());
                    let o = o.s("ck", "int").s("bits", bits.to_string());
                    if t.is_signed() {
                        let sz = i.size().bits();
                        let sv = if sz == 0 {
                            0
                        } else {
                            ((bits as i128) << (128 - sz)) >> (128 - sz)
                        };
                        o.s("int", sv.to_string())
                    } else {
                        o.s("int", bits.to_string())
                    }
                }
                mir::interpret::Scalar::Ptr(p, _) => {
                    // reference to an allocation: try to read the pointee bytes when the type
                    // is &[u8; N] / &u8 ...
                    let (prov, off) = p.into_raw_parts();
                    let aid = prov.alloc_id();
                    let mut o = o.s("ck", "ptr");
                    if let ty::Ref(_, inner, _) = t.kind() {
                        if let ty::Array(e, n) = inner.kind() {
                            if *e == self.tcx.types.u8 {
                                if let Some(n) = n.try_to_target_usize(self.tcx) {
                                    if let Some(b) = self.alloc_bytes(aid, off.bytes(), n) {
                                        o = o.raw("bytes", arr(b.iter().map(|x| x.to_string())));
                                    }
                                }
                            }
                        }
                    }
                    o
                }
            },
            mir::ConstValue::ZeroSized => o.s("ck", "zst"),
            mir::ConstValue::Slice { alloc_id, meta } => {
                let o = o.s("ck", "slice").n("len", meta);
                match self.alloc_bytes(alloc_id, 0, meta) {
                    Some(b) => o.raw("bytes", arr(b.iter().map(|x| x.to_string()))),
                    None => o,
                }
            }
            mir::ConstValue::Indirect { alloc_id, offset } => {
                let o = o.s("ck", "indirect");
                let mut len = None;
                if let ty::Array(e, n) = t.kind() {
                    if *e == self.tcx.types.u8 {
                        len = n.try_to_target_usize(self.tcx);
                    }
                }
                match len.and_then(|l| self.alloc_bytes(alloc_id, offset.bytes(), l)) {
                    Some(b) => o.raw("bytes", arr(b.iter().map(|x| x.to_string()))),
                    None => o,
                }
            }
        }
    }

    fn constant(&mut self, c: &mir::ConstOperand<'tcx>, env: TypingEnv<'tcx>) -> String {
        let t = c.const_.ty();
        let mut o = Obj::new().s("k", "const");
        // function items and other ZST defs
        if let ty::FnDef(d, _) = t.kind() {
            o = o.s("fn", self.path(*d));
        }
        match c.const_ {
            mir::Const::Unevaluated(u, _) => {
                o = o.s("def", self.path(u.def)).b("def_local", u.def.is_local());
                if let Some(p) = u.promoted {
                    o = o.n("promoted", p.as_usize());
                }
            }
            _ => {}
        }
        // try evaluating (rustc CTFE of constant expressions only)
        let evaluated = if matches!(c.const_, mir::Const::Unevaluated(u, _) if u.promoted.is_some()) {
            None
        } else {
            c.const_.eval(self.tcx, env, c.span).ok()
        };
        let v = match evaluated {
            Some(v) => self.const_value(v, t).end(),
            None => Obj::new().n("ty", self.ty(t)).s("ck", "uneval").end(),
        };
        o.raw("val", v).end()
    }

    // ------------------------------------------------------------ MIR pieces

    fn place(&mut self, p: &mir::Place<'tcx>) -> String {
        let mut pr = Vec::new();
        for e in p.projection.iter() {
            let s = match e {
                mir::ProjectionElem::Deref => "\"*\"".to_string(),
                mir::ProjectionElem::Field(f, t) => {
                    Obj::new().n("f", f.as_usize()).n("ty", self.ty(t)).end()
                }
                mir::ProjectionElem::Index(l) => Obj::new().n("i", l.as_usize()).end(),
                mir::ProjectionElem::ConstantIndex {
                    offset,
                    min_length,
                    from_end,
                } => Obj::new()
                    .n("ci", offset)
                    .n("min", min_length)
                    .b("fe", from_end)
                    .end(),
                mir::ProjectionElem::Subslice { from, to, from_end } => Obj::new()
                    .n("ss_from", from)
                    .n("ss_to", to)
                    .b("fe", from_end)
                    .end(),
                mir::ProjectionElem::Downcast(name, v) => Obj::new()
                    .n("dc", v.as_usize())
                    .s("name", name.map(|s| s.to_string()).unwrap_or_default())
                    .end(),
                other => Obj::new().s("other", format!("{:?}", other)).end(),
            };
            pr.push(s);
        }
        Obj::new()
            .n("l", p.local.as_usize())
            .raw("p", arr(pr))
            .end()
    }

    fn operand(&mut self, o: &mir::Operand<'tcx>, env: TypingEnv<'tcx>) -> String {
        match o {
            mir::Operand::Copy(p) => Obj::new().s("k", "copy").raw("place", self.place(p)).end(),
            mir::Operand::Move(p) => Obj::new().s("k", "move").raw("place", self.place(p)).end(),
            mir::Operand::Constant(c) => self.constant(c, env),
            other => Obj::new()
                .s("k", "runtime_check")
                .s("dbg", format!("{:?}", other))
                .end(),
        }
    }

    fn rvalue(&mut self, r: &mir::Rvalue<'tcx>, env: TypingEnv<'tcx>) -> String {
        match r {
            mir::Rvalue::Use(o, ..) => Obj::new().s("k", "use").raw("op", self.operand(o, env)).end(),
            mir::Rvalue::Repeat(o, n) => Obj::new()
                .s("k", "repeat")
                .raw("op", self.operand(o, env))
                .raw(
                    "len",
                    opt(n.try_to_target_usize(self.tcx).map(|x| x.to_string())),
                )
                .end(),
            mir::Rvalue::Ref(_, bk, p) => Obj::new()
                .s("k", "ref")
                .b("mut", matches!(bk, mir::BorrowKind::Mut { .. }))
                .b("fake", matches!(bk, mir::BorrowKind::Fake(_)))
                .raw("place", self.place(p))
                .end(),
            mir::Rvalue::RawPtr(_, p) => Obj::new().s("k", "rawptr").raw("place", self.place(p)).end(),
            mir::Rvalue::Cast(ck, o, t) => Obj::new()
                .s("k", "cast")
                .s("ck", format!("{:?}", ck))
                .raw("op", self.operand(o, env))
                .n("ty", self.ty(*t))
                .end(),
            mir::Rvalue::BinaryOp(op, ab) => Obj::new()
                .s("k", "binop")
                .s("op", format!("{:?}", op))
                .raw("a", self.operand(&ab.0, env))
                .raw("b", self.operand(&ab.1, env))
                .end(),
            mir::Rvalue::UnaryOp(op, o) => Obj::new()
                .s("k", "unop")
                .s("op", format!("{:?}", op))
                .raw("a", self.operand(o, env))
                .end(),
            mir::Rvalue::Discriminant(p) => Obj::new().s("k", "discr").raw("place", self.place(p)).end(),
            mir::Rvalue::Aggregate(kind, ops) => {
                let opsj: Vec<String> = ops.iter().map(|o| self.operand(o, env)).collect();
                let o = Obj::new().s("k", "aggregate");
                let o = match &**kind {
                    mir::AggregateKind::Array(t) => o.s("ak", "array").n("elem", self.ty(*t)),
                    mir::AggregateKind::Tuple => o.s("ak", "tuple"),
                    mir::AggregateKind::Adt(d, v, args, _, active) => {
                        let adt = self.tcx.adt_def(*d);
                        let vname = adt.variant(*v).name.to_string();
                        let a = self.gargs(args);
                        let fields: Vec<String> = adt
                            .variant(*v)
                            .fields
                            .iter()
                            .map(|f| jstr(f.name.as_str()))
                            .collect();
                        o.s("ak", "adt")
                            .s("path", self.path(*d))
                            .b("local", d.is_local())
                            .n("variant", v.as_usize())
                            .s("vname", vname)
                            .raw("fields", arr(fields))
                            .raw("args", a)
                            .raw("active", opt(active.map(|f| f.as_usize().to_string())))
                    }
                    mir::AggregateKind::Closure(d, _) => o.s("ak", "closure").s("path", self.path(*d)),
                    other => o.s("ak", "other").s("dbg", format!("{:?}", other)),
                };
                o.raw("ops", arr(opsj)).end()
            }
            mir::Rvalue::CopyForDeref(p) => Obj::new()
                .s("k", "use")
                .raw(
                    "op",
                    Obj::new().s("k", "copy").raw("place", self.place(p)).end(),
                )
                .end(),
            other => Obj::new().s("k", "other").s("dbg", format!("{:?}", other)).end(),
        }
    }

    fn statement(&mut self, s: &mir::Statement<'tcx>, env: TypingEnv<'tcx>) -> Option<String> {
        let sp = self.span(s.source_info.span);
        match &s.kind {
            mir::StatementKind::Assign(b) => Some(
                Obj::new()
                    .s("k", "assign")
                    .raw("place", self.place(&b.0))
                    .raw("rv", self.rvalue(&b.1, env))
                    .raw("span", sp)
                    .end(),
            ),
            mir::StatementKind::SetDiscriminant { place, variant_index } => Some(
                Obj::new()
                    .s("k", "setdiscr")
                    .raw("place", self.place(place))
                    .n("variant", variant_index.as_usize())
                    .raw("span", sp)
                    .end(),
            ),
            mir::StatementKind::Intrinsic(i) => Some(
                Obj::new()
                    .s("k", "intrinsic")
                    .s("dbg", format!("{:?}", i))
                    .raw("span", sp)
                    .end(),
            ),
            mir::StatementKind::StorageLive(_)
            | mir::StatementKind::StorageDead(_)
            | mir::StatementKind::Nop
            | mir::StatementKind::FakeRead(_)
            | mir::StatementKind::PlaceMention(_)
            | mir::StatementKind::AscribeUserType(..)
            | mir::StatementKind::Coverage(..)
            | mir::StatementKind::ConstEvalCounter
            | mir::StatementKind::BackwardIncompatibleDropHint { .. } => None,
        }
    }

    fn unwind(&self, u: &mir::UnwindAction) -> String {
        match u {
            mir::UnwindAction::Cleanup(b) => b.as_usize().to_string(),
            _ => "null".to_string(),
        }
    }

    fn terminator(&mut self, t: &mir::Terminator<'tcx>, env: TypingEnv<'tcx>) -> String {
        let sp = self.span(t.source_info.span);
        let o = Obj::new().raw("span", sp);
        match &t.kind {
            mir::TerminatorKind::Goto { target } => o.s("k", "goto").n("target", target.as_usize()).end(),
            mir::TerminatorKind::SwitchInt { discr, targets } => {
                let ts: Vec<String> = targets
                    .iter()
                    .map(|(v, b)| format!("[{},{}]", jstr(&v.to_string()), b.as_usize()))
                    .collect();
                o.s("k", "switch")
                    .raw("discr", self.operand(discr, env))
                    .raw("targets", arr(ts))
                    .n("otherwise", targets.otherwise().as_usize())
                    .end()
            }
            mir::TerminatorKind::Return => o.s("k", "return").end(),
            mir::TerminatorKind::Unreachable => o.s("k", "unreachable").end(),
            mir::TerminatorKind::UnwindResume => o.s("k", "resume").end(),
            mir::TerminatorKind::UnwindTerminate(_) => o.s("k", "terminate").end(),
            mir::TerminatorKind::Drop { place, target, unwind, .. } => o
                .s("k", "drop")
                .raw("place", self.place(place))
                .n("target", target.as_usize())
                .raw("unwind", self.unwind(unwind))
                .end(),
            mir::TerminatorKind::Call {
                func,
                args,
                destination,
                target,
                unwind,
                fn_span,
                ..
            } => {
                let argsj: Vec<String> = args.iter().map(|a| self.operand(&a.node, env)).collect();
                let mut o = o
                    .s("k", "call")
                    .raw("func", self.operand(func, env))
                    .raw("args", arr(argsj))
                    .raw("dest", self.place(destination))
                    .raw("target", opt(target.map(|b| b.as_usize().to_string())))
                    .raw("unwind", self.unwind(unwind))
                    .raw("fn_span", self.span(*fn_span));
                // callee identity
                if let Some((did, gargs)) = func.const_fn_def() {
                    o = o
                        .s("callee", self.path(did))
                        .b("callee_local", did.is_local())
                        .raw("callee_args", self.gargs(gargs));
                    if let Some(tr) = self.tcx.trait_of_assoc(did) {
                        o = o.s("callee_trait", self.path(tr));
                    }
                    // `f()` on a function item or closure handed in as `impl FnOnce()` / `Fn` / `FnMut`:
                    // the trait call resolves to a shim; what runs is the function / closure itself
                    let mut fn_like: Option<(rustc_hir::def_id::DefId, ty::GenericArgsRef<'tcx>)> = None;
                    if let Some(tr) = self.tcx.trait_of_assoc(did) {
                        let li = self.tcx.lang_items();
                        if Some(tr) == li.fn_trait() || Some(tr) == li.fn_mut_trait() || Some(tr) == li.fn_once_trait() {
                            if let Some(st) = gargs.get(0).and_then(|a| a.as_type()) {
                                let st = self.tcx.try_normalize_erasing_regions(env, rustc_middle::ty::Unnormalized::new_wip(st)).unwrap_or(st);
                                match st.kind() {
                                    ty::FnDef(d, a) if d.is_local() => fn_like = Some((*d, a)),
                                    _ => {}
                                }
                            }
                        }
                    }
                    if let Some((fd, fa)) = fn_like {
                        o = o.s("fn_item_call", self.path(fd));
                        if let Ok(Some(inst2)) = ty::Instance::try_resolve(self.tcx, env, fd, fa) {
                            let iname = self.instance_name(inst2);
                            if iname.is_some() && self.inst_seen.insert(inst2) {
                                self.instances.push((inst2, env));
                            }
                            o = o.s("fn_item_resolved", iname.unwrap_or_else(|| self.path(inst2.def_id())));
                        }
                    }
                    match ty::Instance::try_resolve(self.tcx, env, did, gargs) {
                        Ok(Some(inst)) => {
                            let rd = inst.def_id();
                            let iname = self.instance_name(inst);
                            if iname.is_some() && self.inst_seen.insert(inst) {
                                self.instances.push((inst, env));
                            }
                            if iname.is_some() {
                                o = o.s("resolved_generic", self.path(rd));
                            }
                            o = o
                                .s("resolved", iname.unwrap_or_else(|| self.path(rd)))
                                .b("resolved_local", rd.is_local())
                                .s("resolved_kind", format!("{:?}", inst.def).split('(').next().unwrap_or("").to_string())
                                .raw("resolved_args", self.gargs(inst.args));
                            if let Some(imp) = self.tcx.impl_of_assoc(rd) {
                                o = o.b("resolved_derived", self.tcx.is_automatically_derived(imp));
                                let st = self.tcx.type_of(imp).instantiate_identity().skip_norm_wip();
                                o = o.n("resolved_self_ty", self.ty(st));
                            }
                        }
                        _ => {}
                    }
                }
                o.end()
            }
            mir::TerminatorKind::Assert {
                cond,
                expected,
                msg,
                target,
                unwind,
            } => {
                let (mk, mops): (String, Vec<String>) = match &**msg {
                    mir::AssertKind::BoundsCheck { len, index } => (
                        "BoundsCheck".into(),
                        vec![self.operand(len, env), self.operand(index, env)],
                    ),
                    mir::AssertKind::Overflow(op, a, b) => (
                        format!("Overflow:{:?}", op),
                        vec![self.operand(a, env), self.operand(b, env)],
                    ),
                    mir::AssertKind::OverflowNeg(a) => ("OverflowNeg".into(), vec![self.operand(a, env)]),
                    mir::AssertKind::DivisionByZero(a) => {
                        ("DivisionByZero".into(), vec![self.operand(a, env)])
                    }
                    mir::AssertKind::RemainderByZero(a) => {
                        ("RemainderByZero".into(), vec![self.operand(a, env)])
                    }
                    other => (format!("{:?}", other).split(|c| c == '(' || c == ' ' || c == '{').next().unwrap_or("Other").to_string(), vec![]),
                };
                o.s("k", "assert")
                    .raw("cond", self.operand(cond, env))
                    .b("expected", *expected)
                    .s("msg", mk)
                    .raw("msg_ops", arr(mops))
                    .n("target", target.as_usize())
                    .raw("unwind", self.unwind(unwind))
                    .end()
            }
            mir::TerminatorKind::FalseEdge { real_target, .. } => {
                o.s("k", "goto").n("target", real_target.as_usize()).end()
            }
            mir::TerminatorKind::FalseUnwind { real_target, .. } => {
                o.s("k", "goto").n("target", real_target.as_usize()).end()
            }
            other => o.s("k", "other").s("dbg", format!("{:?}", other)).end(),
        }
    }

    fn body(&mut self, body: &mir::Body<'tcx>, env: TypingEnv<'tcx>) -> String {
        let mut names: HashMap<usize, String> = HashMap::new();
        for vdi in &body.var_debug_info {
            if let mir::VarDebugInfoContents::Place(p) = &vdi.value {
                if p.projection.is_empty() {
                    names.entry(p.local.as_usize()).or_insert(vdi.name.to_string());
                }
            }
        }
        let mut locals = Vec::new();
        for (l, d) in body.local_decls.iter_enumerated() {
            let mut o = Obj::new()
                .n("ty", self.ty(d.ty))
                .b("mut", d.mutability.is_mut());
            if let Some(n) = names.get(&l.as_usize()) {
                o = o.s("name", n);
            }
            locals.push(o.end());
        }
        let mut blocks = Vec::new();
        for (_bb, data) in body.basic_blocks.iter_enumerated() {
            let stmts: Vec<String> = data
                .statements
                .iter()
                .filter_map(|s| self.statement(s, env))
                .collect();
            let term = self.terminator(data.terminator(), env);
            blocks.push(
                Obj::new()
                    .b("cleanup", data.is_cleanup)
                    .raw("stmts", arr(stmts))
                    .raw("term", term)
                    .end(),
            );
        }
        Obj::new()
            .n("arg_count", body.arg_count)
            .raw("locals", arr(locals))
            .raw("blocks", arr(blocks))
            .raw("span", self.span(body.span))
            .end()
    }

    fn fn_entry(&mut self, ld: LocalDefId) -> Vec<String> {
        let tcx = self.tcx;
        let did = ld.to_def_id();
        let kind = tcx.def_kind(did);
        let env = TypingEnv::post_analysis(tcx, did);
        let mut out = Vec::new();
        let body = tcx.optimized_mir(did);
        let mut o = Obj::new()
            .s("path", self.path(did))
            .s("def_kind", format!("{:?}", kind))
            .s("name", tcx.opt_item_name(did).map(|s| s.to_string()).unwrap_or_default());
        if matches!(kind, DefKind::Fn | DefKind::AssocFn) {
            let vis = tcx.visibility(did);
            o = o
                .b("pub", vis.is_public())
                .s("vis", format!("{:?}", vis))
                .b(
                    "reachable",
                    tcx.effective_visibilities(()).is_reachable(ld),
                )
                .b("const_fn", tcx.is_const_fn(did));
            let sig = tcx.fn_sig(did).instantiate_identity().skip_norm_wip().skip_binder();
            let ins: Vec<String> = sig.inputs().iter().map(|t| self.ty(*t).to_string()).collect();
            o = o.raw("inputs", arr(ins)).n("output", self.ty(sig.output()));
            let gens = tcx.generics_of(did);
            let gp: Vec<String> = gens
                .own_params
                .iter()
                .map(|p| jstr(p.name.as_str()))
                .collect();
            o = o.raw("generics", arr(gp));
        }
        if matches!(kind, DefKind::Closure) {
            o = o.s("parent", self.path(tcx.typeck_root_def_id(did)));
        }
        if let Some(imp) = tcx.impl_of_assoc(did) {
            let st = tcx.type_of(imp).instantiate_identity().skip_norm_wip();
            o = o
                .n("impl_self_ty", self.ty(st))
                .b("derived", tcx.is_automatically_derived(imp));
            if let Some(tr) = tcx.impl_opt_trait_ref(imp) {
                let tr = tr.instantiate_identity().skip_norm_wip();
                o = o.s("impl_trait", self.path(tr.def_id));
            }
        }
        let attrs = attr_names(tcx, did);
        o = o.raw("attrs", arr(attrs.iter().map(|a| jstr(a))));
        let b = self.body(body, env);
        out.push(o.raw("body", b).end());
        // promoteds
        let proms = tcx.promoted_mir(did);
        for (pi, pb) in proms.iter_enumerated() {
            let b = self.body(pb, env);
            out.push(
                Obj::new()
                    .s("path", format!("{}::promoted[{}]", self.path(did), pi.as_usize()))
                    .s("def_kind", "Promoted")
                    .s("parent", self.path(did))
                    .n("promoted", pi.as_usize())
                    .raw("body", b)
                    .end(),
            );
        }
        out
    }
}

impl<'tcx> Cx<'tcx> {
    /// the body of a const-generic function with its generic arguments substituted
    fn instance_entry(&mut self, inst: ty::Instance<'tcx>, call_env: TypingEnv<'tcx>) -> Vec<String> {
        let tcx = self.tcx;
        let did = inst.def_id();
        let ld = did.expect_local();
        let name = match self.instance_name(inst) {
            Some(n) => n,
            None => return Vec::new(),
        };
        use rustc_middle::ty::TypeVisitableExt;
        let env = if inst.args.has_non_region_param() { call_env } else { TypingEnv::fully_monomorphized() };
        let kind = tcx.def_kind(did);
        let body = tcx.optimized_mir(did);
        let mono: mir::Body<'tcx> = inst.instantiate_mir_and_normalize_erasing_regions(
            tcx,
            env,
            ty::EarlyBinder::bind(body.clone()),
        );
        let vis = tcx.visibility(did);
        let sig = tcx.fn_sig(did).instantiate(tcx, inst.args).skip_norm_wip().skip_binder();
        let ins: Vec<String> = sig.inputs().iter().map(|t| self.ty(*t).to_string()).collect();
        let mut o = Obj::new()
            .s("path", &name)
            .s("def_kind", format!("{:?}", kind))
            .s("name", tcx.opt_item_name(did).map(|s| s.to_string()).unwrap_or_default())
            .s("instance_of", self.path(did))
            .raw("instance_args", self.gargs(inst.args))
            .b("pub", vis.is_public())
            .s("vis", format!("{:?}", vis))
            .b("reachable", tcx.effective_visibilities(()).is_reachable(ld))
            .b("const_fn", tcx.is_const_fn(did))
            .raw("inputs", arr(ins))
            .n("output", self.ty(sig.output()))
            .raw("generics", arr(Vec::<String>::new()));
        if let Some(imp) = tcx.impl_of_assoc(did) {
            let st = tcx.type_of(imp).instantiate_identity().skip_norm_wip();
            o = o
                .n("impl_self_ty", self.ty(st))
                .b("derived", tcx.is_automatically_derived(imp));
        }
        let attrs = attr_names(tcx, did);
        o = o.raw("attrs", arr(attrs.iter().map(|a| jstr(a))));
        let b = self.body(&mono, env);
        let mut out = vec![o.raw("body", b).end()];
        let proms = tcx.promoted_mir(did);
        for (pi, pb) in proms.iter_enumerated() {
            let pm: mir::Body<'tcx> = inst.instantiate_mir_and_normalize_erasing_regions(
                tcx,
                env,
                ty::EarlyBinder::bind(pb.clone()),
            );
            let b = self.body(&pm, env);
            out.push(
                Obj::new()
                    .s("path", format!("{}::promoted[{}]", name, pi.as_usize()))
                    .s("def_kind", "Promoted")
                    .s("parent", &name)
                    .n("promoted", pi.as_usize())
                    .raw("body", b)
                    .end(),
            );
        }
        out
    }
}

fn attr_names<'tcx>(tcx: TyCtxt<'tcx>, did: DefId) -> Vec<String> {
    let mut v = Vec::new();
    if tcx.is_automatically_derived(did) {
        v.push("automatically_derived".to_string());
    }
    let dbg = format!("{:?}", tcx.get_all_attrs(did));
    for key in ["MustUse", "Inline", "TrackCaller", "ThreadLocal"] {
        if dbg.contains(key) {
            v.push(key.to_string());
        }
    }
    v
}

struct Extract;

impl Callbacks for Extract {
    fn after_analysis<'tcx>(&mut self, _c: &Compiler, tcx: TyCtxt<'tcx>) -> Compilation {
        let want = std::env::var("WOWSRP_FACTS_CRATE").unwrap_or_else(|_| "wow_srp".to_string());
        let name = tcx.crate_name(rustc_hir::def_id::LOCAL_CRATE).to_string();
        if name != want {
            return Compilation::Continue;
        }
        // skip test / bench / build-script targets of the same name: only the lib (or what
        // WOWSRP_FACTS_TYPES allows)
        let out = match std::env::var("WOWSRP_FACTS_OUT") {
            Ok(o) => o,
            Err(_) => return Compilation::Continue,
        };
        if tcx.dcx().has_errors().is_some() {
            return Compilation::Continue;
        }
        let mut cx = Cx {
            tcx,
            types: Vec::new(),
            type_ix: HashMap::new(),
            instances: Vec::new(),
            inst_seen: std::collections::HashSet::new(),
        };

        // ---- bodies
        let mut bodies = Vec::new();
        let mut consts = Vec::new();
        let mut statics = Vec::new();
        for ld in tcx.hir_body_owners() {
            let did = ld.to_def_id();
            match tcx.def_kind(did) {
                DefKind::Fn | DefKind::AssocFn | DefKind::Closure => {
                    bodies.extend(cx.fn_entry(ld));
                }
                DefKind::Const { .. } | DefKind::AssocConst { .. } => {
                    let t = tcx.type_of(did).instantiate_identity().skip_norm_wip();
                    let mut o = Obj::new().s("path", cx.path(did)).n("ty", cx.ty(t));
                    if tcx.generics_of(did).is_empty() {
                        if let Ok(v) = tcx.const_eval_poly(did) {
                            o = o.raw("val", cx.const_value(v, t).end());
                        }
                    }
                    o = o.raw("span", cx.span(tcx.def_span(did)));
                    consts.push(o.end());
                }
                DefKind::Static { .. } => {
                    let t = tcx.type_of(did).instantiate_identity().skip_norm_wip();
                    statics.push(
                        Obj::new()
                            .s("path", cx.path(did))
                            .n("ty", cx.ty(t))
                            .b("mut", tcx.is_mutable_static(did))
                            .b("thread_local", tcx.is_thread_local_static(did))
                            .raw("span", cx.span(tcx.def_span(did)))
                            .end(),
                    );
                }
                _ => {}
            }
        }

        // ---- monomorphic instances of const-generic functions (work list: an instance may
        // call further instances)
        let mut done = 0;
        while done < cx.instances.len() && done < 256 {
            let (inst, ienv) = cx.instances[done];
            done += 1;
            bodies.extend(cx.instance_entry(inst, ienv));
        }

        // ---- ADTs and impls
        let mut adts = Vec::new();
        let mut impls = Vec::new();
        let mut unsafe_items = Vec::new();
        let send_trait = tcx.get_diagnostic_item(rustc_span::sym::Send);
        let sync_trait = tcx.get_diagnostic_item(rustc_span::sym::Sync);
        for id in tcx.hir_free_items() {
            let ld = id.owner_id.def_id;
            let did = ld.to_def_id();
            match tcx.def_kind(did) {
                DefKind::Struct | DefKind::Enum | DefKind::Union => {
                    let adt = tcx.adt_def(did);
                    let t = tcx.type_of(did).instantiate_identity().skip_norm_wip();
                    let env = TypingEnv::post_analysis(tcx, did);
                    let mut variants = Vec::new();
                    for (vidx, v) in adt.variants().iter_enumerated() {
                        let mut fields = Vec::new();
                        for f in &v.fields {
                            let ft = tcx.type_of(f.did).instantiate_identity().skip_norm_wip();
                            fields.push(
                                Obj::new()
                                    .s("name", f.name.as_str())
                                    .n("ty", cx.ty(ft))
                                    .b("pub", f.vis.is_public())
                                    .s("vis", format!("{:?}", f.vis))
                                    .end(),
                            );
                        }
                        let mut vo = Obj::new().s("name", v.name.as_str()).raw("fields", arr(fields));
                        if adt.is_enum() {
                            // the value a `switchInt(discriminant(x))` sees for this variant
                            vo = vo.s("discr", adt.discriminant_for_variant(tcx, vidx).val.to_string());
                        }
                        variants.push(vo.end());
                    }
                    let mut o = Obj::new()
                        .s("path", cx.path(did))
                        .n("ty", cx.ty(t))
                        .s("kind", format!("{:?}", tcx.def_kind(did)))
                        .b("pub", tcx.visibility(did).is_public())
                        .b("reachable", tcx.effective_visibilities(()).is_reachable(ld))
                        .b("generic", !tcx.generics_of(did).is_empty())
                        .raw("variants", arr(variants))
                        .raw("span", cx.span(tcx.def_span(did)));
                    if tcx.generics_of(did).own_params.iter().all(|p| matches!(p.kind, ty::GenericParamDefKind::Lifetime)) {
                        o = o.b("freeze", t.is_freeze(tcx, env)).b("copy", tcx.type_is_copy_modulo_regions(env, t));
                        let (infcx, penv) = tcx.infer_ctxt().build_with_typing_env(env);
                        if let Some(s) = send_trait {
                            let r = infcx.type_implements_trait(s, [t], penv);
                            o = o.b("send", r.must_apply_modulo_regions());
                        }
                        if let Some(s) = sync_trait {
                            let r = infcx.type_implements_trait(s, [t], penv);
                            o = o.b("sync", r.must_apply_modulo_regions());
                        }
                    }
                    adts.push(o.end());
                }
                DefKind::Impl { .. } => {
                    let st = tcx.type_of(did).instantiate_identity().skip_norm_wip();
                    let mut o = Obj::new()
                        .n("self_ty", cx.ty(st))
                        .b("derived", tcx.is_automatically_derived(did))
                        .raw("span", cx.span(tcx.def_span(did)));
                    if let Some(tr) = tcx.impl_opt_trait_ref(did) {
                        let tr = tr.instantiate_identity().skip_norm_wip();
                        o = o.s("trait", cx.path(tr.def_id));
                        if tcx.trait_def(tr.def_id).safety.is_unsafe() {
                            unsafe_items.push(jstr(&format!("unsafe impl {}", cx.path(tr.def_id))));
                        }
                    }
                    let items: Vec<String> = tcx
                        .associated_item_def_ids(did)
                        .iter()
                        .map(|d| jstr(&cx.path(*d)))
                        .collect();
                    o = o.raw("items", arr(items));
                    impls.push(o.end());
                }
                DefKind::Fn => {}
                _ => {}
            }
        }
        // unsafe fns / blocks: the crate-level lint level is the strongest fact; also list fns
        for ld in tcx.hir_body_owners() {
            let did = ld.to_def_id();
            if matches!(tcx.def_kind(did), DefKind::Fn | DefKind::AssocFn) {
                if tcx.fn_sig(did).skip_binder().safety().is_unsafe() {
                    unsafe_items.push(jstr(&format!("unsafe fn {}", cx.path(did))));
                }
            }
        }
        let unsafe_level = {
            let store = rustc_lint::unerased_lint_store(tcx.sess);
            let mut r = String::from("unknown");
            for l in store.get_lints() {
                if l.name_lower() == "unsafe_code" {
                    let lvl = tcx.lint_level_at_node(l, rustc_hir::CRATE_HIR_ID);
                    r = format!("{:?}", lvl.level);
                }
            }
            r
        };

        // features from --cfg
        let mut feats: Vec<String> = Vec::new();
        for (k, v) in tcx.sess.config.iter() {
            if k.as_str() == "feature" {
                if let Some(v) = v {
                    feats.push(v.to_string());
                }
            }
        }
        feats.sort();
        let dbg_assert = tcx.sess.opts.debug_assertions;
        let ovf = tcx.sess.overflow_checks();
        let is_test = tcx.sess.is_test_crate();

        let doc = Obj::new()
            .s("crate", &name)
            .s("nonce", std::env::var("WOWSRP_FACTS_NONCE").unwrap_or_default())
            .raw("features", arr(feats.iter().map(|f| jstr(f))))
            .b("debug_assertions", dbg_assert)
            .b("overflow_checks", ovf)
            .b("test_crate", is_test)
            .s("unsafe_code_lint", unsafe_level)
            .raw("unsafe_items", arr(unsafe_items))
            .raw("statics", arr(statics))
            .raw("consts", arr(consts))
            .raw("adts", arr(adts))
            .raw("impls", arr(impls))
            .raw("bodies", arr(bodies))
            .raw("types", arr(cx.types.clone()))
            .end();
        if is_test {
            return Compilation::Continue;
        }
        std::fs::write(&out, doc).expect("cannot write facts");
        Compilation::Continue
    }
}

fn main() {
    let mut args: Vec<String> = std::env::args().collect();
    // RUSTC_WORKSPACE_WRAPPER: argv[1] is the path of the real rustc
    if args.len() > 1 && (args[1].ends_with("rustc") || args[1].contains("/rustc")) {
        args.remove(1);
    }
    rustc_driver::install_ice_hook("https://example.invalid", |_| ());
    rustc_driver::run_compiler(&args, &mut Extract);
}
