"""Readable rendering of extracted MIR (diagnostics and development only)."""


def place(fb, p):
    s = "_%d" % p["l"]
    for e in p["p"]:
        if e == "*":
            s = "(*%s)" % s
        elif "f" in e:
            s = "%s.%d" % (s, e["f"])
        elif "i" in e:
            s = "%s[_%d]" % (s, e["i"])
        elif "ci" in e:
            s = "%s[%s%d of %d]" % (s, "-" if e["fe"] else "", e["ci"], e["min"])
        elif "ss_from" in e:
            s = "%s[%d..%s%d]" % (s, e["ss_from"], "-" if e["fe"] else "", e["ss_to"])
        elif "dc" in e:
            s = "(%s as %s)" % (s, e["name"] or e["dc"])
        else:
            s = "%s.?%s" % (s, e)
    return s


def operand(fb, o):
    k = o["k"]
    if k in ("copy", "move"):
        return ("move " if k == "move" else "") + place(fb, o["place"])
    if k == "const":
        if "fn" in o:
            return "fn " + o["fn"]
        v = o.get("val", {})
        d = ""
        if "def" in o:
            d = o["def"] + ("::promoted[%d]" % o["promoted"] if "promoted" in o else "") + "="
        if "int" in v:
            return "%sconst %s_%s" % (d, v["int"], fb.ty(v["ty"]).s)
        if "bytes" in v:
            return "%sconst bytes%s" % (d, bytes(v["bytes"])[:24])
        return "%sconst<%s:%s>" % (d, v.get("ck"), fb.ty(v["ty"]).s if "ty" in v else "?")
    return str(o)


def rvalue(fb, r):
    k = r["k"]
    if k == "use":
        return operand(fb, r["op"])
    if k == "repeat":
        return "[%s; %s]" % (operand(fb, r["op"]), r["len"])
    if k == "ref":
        return "&%s%s" % ("mut " if r["mut"] else "", place(fb, r["place"]))
    if k == "cast":
        return "%s as %s (%s)" % (operand(fb, r["op"]), fb.ty(r["ty"]).s, r["ck"])
    if k == "binop":
        return "%s(%s, %s)" % (r["op"], operand(fb, r["a"]), operand(fb, r["b"]))
    if k == "unop":
        return "%s(%s)" % (r["op"], operand(fb, r["a"]))
    if k == "discr":
        return "discriminant(%s)" % place(fb, r["place"])
    if k == "aggregate":
        ops = ", ".join(operand(fb, o) for o in r["ops"])
        if r["ak"] == "adt":
            return "%s::%s{%s}" % (r["path"], r["vname"], ops)
        if r["ak"] == "closure":
            return "closure %s{%s}" % (r["path"], ops)
        return "%s(%s)" % (r["ak"], ops)
    return r.get("dbg", str(r))


def term(fb, t):
    k = t["k"]
    if k == "goto":
        return "goto bb%d" % t["target"]
    if k == "switch":
        return "switch %s -> %s else bb%d" % (
            operand(fb, t["discr"]),
            ", ".join("%s:bb%d" % (v, b) for v, b in t["targets"]),
            t["otherwise"],
        )
    if k == "call":
        a = ", ".join(operand(fb, o) for o in t["args"])
        c = t.get("resolved") or t.get("callee") or operand(fb, t["func"])
        extra = ""
        if t.get("resolved") and t.get("callee") != t.get("resolved"):
            extra = "  [via %s]" % t.get("callee")
        return "%s = %s(%s) -> %s%s" % (
            place(fb, t["dest"]),
            c,
            a,
            "bb%d" % t["target"] if t["target"] is not None else "!",
            extra,
        )
    if k == "assert":
        return "assert(%s == %s, %s(%s)) -> bb%d" % (
            operand(fb, t["cond"]),
            t["expected"],
            t["msg"],
            ", ".join(operand(fb, o) for o in t["msg_ops"]),
            t["target"],
        )
    if k == "drop":
        return "drop(%s) -> bb%d" % (place(fb, t["place"]), t["target"])
    return k


def body(fb, b, cleanup=False):
    out = ["fn %s  [%s] args=%d  (%s)" % (b.path, b.kind, b.arg_count, b.loc())]
    for i, l in enumerate(b.locals):
        out.append("  let _%d: %s%s" % (i, fb.ty(l["ty"]).s, "  // " + l["name"] if "name" in l else ""))
    for i, bl in enumerate(b.blocks):
        if bl["cleanup"] and not cleanup:
            continue
        out.append("  bb%d%s:" % (i, " (cleanup)" if bl["cleanup"] else ""))
        for s in bl["stmts"]:
            if s["k"] == "assign":
                out.append("    %s = %s" % (place(fb, s["place"]), rvalue(fb, s["rv"])))
            else:
                out.append("    %s" % s["k"])
        out.append("    " + term(fb, bl["term"]))
    return "\n".join(out)


if __name__ == "__main__":
    import sys
    from facts import FactBase

    fb = FactBase(sys.argv[1])
    pat = sys.argv[2] if len(sys.argv) > 2 else None
    if pat is None:
        for p in sorted(fb.bodies):
            print(p)
    else:
        for p, b in fb.bodies.items():
            if pat in p:
                print(body(fb, b, cleanup="--cleanup" in sys.argv))
                print()
