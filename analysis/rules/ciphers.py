"""Loop-body step functions of the Vanilla/TBC byte ciphers (C07, C08) and shared pieces."""
import cfg
from rules import util, arith
from rules.arith import S, I, wadd, xor
from rules.util import strip, canon
from symex import show


def raw_callee(ctx, method, default):
    """the per-byte operation a half's raw method delegates to: its single crate-local callee
    (by resolved name, so a shared const-generic function is seen as its instance)"""
    b = ctx.fb.body(method)
    if b is None:
        return default
    local = [t.get("resolved") for _, t in b.calls() if t.get("resolved") in ctx.fb.bodies]
    return local[0] if len(local) == 1 else default


def step_rule(ctx, rep, fn, direction, keylen):
    """fn(data: &mut [u8], key, index: &mut u8, previous_value: &mut u8).  Decides the per-byte
    transfer function, the state discipline inside the function and the traversal idiom."""
    se = ctx.wrap.run(fn)
    if se is None:
        rep.violation("step", fn, "anchor", "function not found")
        return
    body = se.body
    loops = util.for_loops(ctx, se)
    if len(loops) != 1:
        rep.violation("traversal", fn, "loop", "expected exactly one loop over the data, found %d" % len(loops), body.loc())
        return
    lp = loops[0]
    head = lp["next_bb"]
    idx_root = ("deref", ("param", 3))
    prev_root = ("deref", ("param", 4))
    data_root = ("deref", ("param", 1))
    kty = body.local_ty(2).peel_refs()
    klen = kty.len if kty.k == "array" else None
    rep.check(klen == keylen, "step", fn, "key-length", "key is [u8; %s]" % klen, "key array has length %s, expected %d" % (klen, keylen), body.loc())
    st_in = se.in_state.get(head, {})
    phi_idx = st_in.get(idx_root)
    phi_prev = st_in.get(prev_root)
    if not (phi_idx and phi_idx[0] == "phi" and phi_prev and phi_prev[0] == "phi"):
        rep.violation("step", fn, "state", "index / previous value are not loop-carried state (no update per byte?)", body.loc())
        return
    src = strip(lp["init_call"][2][0]) if lp["init_call"] is not None else None
    mode = None
    if strip(lp["init"] or ("?",)) == ("param", 1) and "slice::IterMut" in (lp["resolved"] or "") and lp["init_call"] is not None and lp["init_call"][1].endswith("for &'a mut [T]>::into_iter"):
        mode = "iter"
        elem_in = ("deref", lp["elem"])
        writes = [(k, v) for k, v in se.assigns.items() if v[0] == elem_in or (v[0][0] == "deref" and strip(v[0][1]) == strip(lp["elem"]))]
        in_term = strip(elem_in)
        out_terms = [w[1][1] for w in writes]
        wb = writes[0][0][0] if writes else None
    elif src is not None and src[0] == "agg" and src[2] == "std::ops::Range" and util.numnorm(src[4][0])[:2] == ("int", 0):
        # index loop `for i in 0..data.len()`: element i is read and written exactly once
        from ranges import strip_len

        end = util.numnorm(src[4][1])
        phi_data = st_in.get(data_root)
        i_t = strip(lp["elem"])
        if end[0] == "len" and strip_len(end) == ("param", 1) and phi_data is not None and phi_data[0] == "phi":
            ins = se.phi_inputs[(phi_data[2], phi_data[3])]
            steps = [v for p_, v in ins.items() if v != data_root]
            if len(steps) == 1 and steps[0][0] == "upd" and steps[0][1] == phi_data and steps[0][2][0] == "i" and strip(steps[0][2][1]) == i_t:
                mode = "index"
                in_term = ("index", strip(phi_data), i_t)
                out_terms = [steps[0][3]]
                writes = [(k, v) for k, v in se.assigns.items() if v[0][0] == "index" and strip(v[0][2]) == i_t and v[0][1] == data_root]
                wb = writes[0][0][0] if writes else None
    rep.check(mode is not None, "traversal", fn, "in-order-whole-slice", "plain in-order traversal of the whole slice, every element once (%s loop)" % mode, "data is not traversed by a plain in-order loop over the whole slice (%s)" % lp["resolved"], body.loc(lp["next_bb"]))
    if mode is None:
        return
    env = {strip(phi_idx): "idx", strip(phi_prev): "prev", in_term: "in", ("param", 2): "key"}
    ins_idx = se.phi_inputs[(phi_idx[2], phi_idx[3])]
    ins_prev = se.phi_inputs[(phi_prev[2], phi_prev[3])]
    back_idx = [v for p, v in ins_idx.items() if v != idx_root]
    back_prev = [v for p, v in ins_prev.items() if v != prev_root]
    init_ok = any(v == idx_root for v in ins_idx.values()) and any(v == prev_root for v in ins_prev.values())
    if len(out_terms) != 1 or len(back_idx) != 1 or len(back_prev) != 1 or wb is None:
        rep.violation("step", fn, "shape", "per-byte step is not one store to the byte, one index update, one previous-value update (%d/%d/%d)" % (len(out_terms), len(back_idx), len(back_prev)), body.loc())
        return
    out = arith.norm(out_terms[0], env)
    nidx = arith.norm(back_idx[0], env)
    nprev = arith.norm(back_prev[0], env)
    kb = ("idx", S("key"), S("idx"))
    if direction == "enc":
        want_out = wadd(xor(S("in"), kb), S("prev"))
        want_prev = want_out
    else:
        want_out = xor(("wsub", S("in"), S("prev")), kb)
        want_prev = S("in")
    want_idx = ("rem", ("add", S("idx"), I(1)), I(keylen))
    rep.check(out == want_out, "step", fn, "output-byte", "out = %s" % arith.show(out), "output byte is %s, expected %s" % (arith.show(out), arith.show(want_out)), body.loc(writes[0][0][0]))
    rep.check(nidx == want_idx, "step", fn, "index-update", "idx' = %s" % arith.show(nidx), "index update is %s, expected %s" % (arith.show(nidx), arith.show(want_idx)), body.loc())
    rep.check(nprev == want_prev, "step", fn, "previous-update", "prev' = %s" % arith.show(nprev), "previous-value update is %s, expected %s" % (arith.show(nprev), arith.show(want_prev)), body.loc())
    # state discipline inside the function: at exit the state is exactly the loop-carried value
    eff = se.param_effects()
    ok_state = eff.get(3) == phi_idx and eff.get(4) == phi_prev and len(ins_idx) == 2 and len(ins_prev) == 2 and init_ok
    rep.check(ok_state, "state-discipline", fn, "only-the-step-writes", "index/previous value are written by the per-byte step only (empty input leaves them untouched)", "index / previous value are also written outside the per-byte step (e.g. on empty or long input): idx=%s prev=%s" % (show(eff.get(3), maxdepth=2), show(eff.get(4), maxdepth=2)), body.loc())
    # every iteration performs the three stores (they dominate the back edge)
    idom = cfg.dominators(body)
    be = [e for e in cfg.back_edges(body) if e[1] == head or cfg.dominates(idom, head, e[0])]
    rep.check(bool(be) and all(cfg.dominates(idom, wb, t) for t, h in be), "step", fn, "unconditional", "the step is executed for every byte", "the byte/state update is conditional inside the loop", body.loc(wb))


def field_writers(fb, adt_path):
    """A4b census: every place in the crate where a field of `adt_path` is stored to or mutably
    borrowed, and every aggregate construction: (body path, kind, field index)"""
    out = []
    for b in fb.bodies.values():
        if b.derived():
            continue

        def scan_place(p, kind, bi):
            ty = b.local_ty(p["l"])
            for e in p["p"]:
                if ty is None:
                    return
                if e == "*":
                    ty = ty.to
                elif "f" in e:
                    base = ty
                    if base is not None and base.k == "adt" and base.path == adt_path:
                        out.append((b.path, kind, e["f"], b.loc(bi)))
                    ty = fb.ty(e["ty"])
                elif "i" in e or "ci" in e:
                    ty = ty.elem if ty is not None else None
            # whole-object store / borrow
            return

        for bi in b.normal_blocks():
            for s in b.blocks[bi]["stmts"]:
                if s["k"] != "assign":
                    continue
                scan_place(s["place"], "store", bi)
                rv = s["rv"]
                if rv["k"] == "ref" and rv.get("mut"):
                    scan_place(rv["place"], "mutborrow", bi)
                    # &mut of the whole object
                    pt = __import__("symex").place_ty(fb, b, rv["place"])
                    if pt is not None and pt.k == "adt" and pt.path == adt_path:
                        out.append((b.path, "mutborrow-whole", None, b.loc(bi)))
                if rv["k"] == "aggregate" and rv.get("ak") == "adt" and rv["path"] == adt_path:
                    out.append((b.path, "aggregate", None, b.loc(bi)))
            t = b.blocks[bi]["term"]
            if t["k"] == "call":
                scan_place(t["dest"], "store", bi)
    return out


def state_census(ctx, rep, half, key_role_ctor, allowed_writers, state_field_count=2):
    """index / previous value of a half are written only by `new` (constants 0) and through the
    raw operation; nobody else in the crate stores to or mutably borrows them."""
    fb = ctx.fb
    ws = field_writers(fb, half)
    bad = [w for w in ws if w[1] in ("store", "mutborrow") and w[0] not in allowed_writers]
    rep.check(not bad, "state-writers", half, "field-census", "%d write/borrow sites, all in %s" % (len([w for w in ws if w[1] != 'mutborrow-whole']), sorted(allowed_writers)), "cipher state of %s is written outside its raw operation: %s" % (half, [(w[0], w[3]) for w in bad]))
    aggs = [w for w in ws if w[1] == "aggregate"]
    bad = [w for w in aggs if w[0] != key_role_ctor]
    rep.check(bool(aggs) and not bad, "state-writers", half, "constructed-only-in-new", "constructed only in %s" % key_role_ctor, "%s is constructed elsewhere: %s" % (half, [w[0] for w in bad]))
    # initial state
    se = ctx.wrap.run(key_role_ctor)
    good = False
    desc = "?"
    if se is not None:
        r = strip(se.ret)
        if r[0] == "agg" and r[2] == half:
            zeros = [o for o in r[4] if o[:2] == ("int", 0)]
            good = len(zeros) == state_field_count and len(r[4]) == state_field_count + 1
            desc = show(r, maxdepth=2)
    rep.check(good, "initial-state", key_role_ctor, "zero", "index = 0, previous value = 0", "initial cipher state is not (index 0, previous 0): %s" % desc)
    # derived PartialEq covers all fields (observation point of the property)
    rep.check("std::cmp::PartialEq" in fb.derived_traits(half), "initial-state", half, "derived-eq", "== on the half is derived (all fields)", "== on %s is hand-written" % half)
